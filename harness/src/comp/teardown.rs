//! C12: teardown in any order is safe and releases everything.
//!
//! A population of real a10 objects on one simulated ring — the `Ring`, extra
//! `SubmissionQueue` clones, `AsyncFd`s of regular AND direct descriptors (the
//! ring is built `with_direct_descriptors`, a direct `AsyncFd` is opened through
//! the public API before the script starts), operations in every
//! status (never polled, published, in flight, done-unpolled, abandoned,
//! complete), a `ReadBufPool` and the `ReadBuf`s produced by completed pool
//! reads — is dropped in every order, with `Ring::poll` calls and kernel
//! completions in between. Observed through the simulated kernel and the
//! interposed libc calls: every `io_uring_enter` / `io_uring_register` call,
//! CLOSE requests, `close(2)`, `mmap` / `munmap`, frees of operation state boxes
//! and of the pool's allocations (tracking allocator), the kernel's
//! registered-file table (CLOSE with `file_index`, `IORING_REGISTER_FILES_UPDATE`).
//!
//! The ledger oracle (independent of the Lean model) runs after the last drop.

use std::collections::HashMap;
use std::future::Future;
use std::path::PathBuf;
use std::pin::Pin;
use std::sync::Mutex;
use std::task::{Context, Poll};
use std::time::Duration;

use a10::io::{ReadBuf, ReadBufPool};
use a10::{AsyncFd, Ring, SubmissionQueue};

use crate::comp::{Case, CaseReport, Comp};
use crate::simk::{self, KEv, PostSpec, Target};
use crate::track;
use crate::util::{self, errno_name, lockp, Rng};

pub struct TeardownComp;

#[allow(dead_code)]
enum StdHandle {
    None,
    In(a10::io::Stdin),
    Out(a10::io::Stdout),
    Err(a10::io::Stderr),
}

/// Type-erased future under test. `None` = Pending; `Some((line, buf))`.
trait Pollable {
    fn poll(&mut self, cx: &mut Context<'_>) -> Option<(String, Option<ReadBuf>)>;
}

struct FutOp<F, T> {
    fut: Pin<Box<F>>,
    canon: fn(T) -> (String, Option<ReadBuf>),
}

impl<F: Future<Output = std::io::Result<T>>, T> Pollable for FutOp<F, T> {
    fn poll(&mut self, cx: &mut Context<'_>) -> Option<(String, Option<ReadBuf>)> {
        match self.fut.as_mut().poll(cx) {
            Poll::Pending => None,
            Poll::Ready(Ok(v)) => {
                let (s, b) = (self.canon)(v);
                Some((format!("ready ok {s}"), b))
            }
            Poll::Ready(Err(e)) => Some((format!("ready err {}", err_num(&e)), None)),
        }
    }
}

fn err_num(e: &std::io::Error) -> String {
    match e.raw_os_error() {
        Some(n) => n.to_string(),
        None => format!("{:?}", e.kind()),
    }
}

/// Addresses of shared words a10 touched inside an unmapped ring mapping.
static UNMAPPED_HITS: Mutex<Vec<(u32, usize)>> = Mutex::new(Vec::new());

/// Scheduling-point hook, used only to observe the addresses of the
/// kernel-shared words a10 loads/stores: none may lie in an unmapped mapping.
fn observe(kind: u32, addr: usize) {
    use a10::verif::{LOAD_SHARED, STORE_CQ_HEAD, STORE_SQ_TAIL};
    if kind != LOAD_SHARED && kind != STORE_SQ_TAIL && kind != STORE_CQ_HEAD {
        return;
    }
    let hit = simk::with_sim(|s| s.unmapped.iter().any(|(a, l)| addr >= *a && addr < *a + *l));
    if hit {
        lockp(&UNMAPPED_HITS).push((kind, addr));
        // Do not let a10 dereference it (it would fault): unwind out of the call.
        panic!("a10 touched an unmapped ring mapping");
    }
}

/// The ring whose (awake) kernel thread `sqpoll_progress` lets run.
static SQPOLL_RING: std::sync::atomic::AtomicI32 = std::sync::atomic::AtomicI32::new(-1);
/// Loads of kernel-shared words since the last handle's `io_uring_enter`.
static SQPOLL_LOADS: std::sync::atomic::AtomicU32 = std::sync::atomic::AtomicU32::new(0);
/// the simulated kernel thread runs at this many loads of a kernel-shared word after an enter
static SQPOLL_AFTER: std::sync::atomic::AtomicU32 = std::sync::atomic::AtomicU32::new(3);

/// Scheduling-point hook for `sqpoll-last-handle`: the simulated kernel thread consumes everything
/// published at the first load of a kernel-shared word AFTER an `io_uring_enter` call of the ring
/// (asynchronous progress while a10 waits for it).
fn sqpoll_progress(kind: u32, _addr: usize) {
    if kind != a10::verif::LOAD_SHARED {
        return;
    }
    let rfd = SQPOLL_RING.load(std::sync::atomic::Ordering::SeqCst);
    if rfd < 0 {
        return;
    }
    simk::with_sim(|sim| {
        let entered = sim.events.iter().any(|e| matches!(e, KEv::Enter { .. }));
        if !entered {
            return;
        }
        // …and not at once: the thread needs a moment. `io_uring_enter`'s own epilogue
        // (`wake_blocked_futures`) loads the two queue counters; the thread runs at the third load,
        // i.e. only for code that keeps looking at the queue after the call returned.
        let n = SQPOLL_LOADS.fetch_add(1, std::sync::atomic::Ordering::SeqCst) + 1;
        if n < SQPOLL_AFTER.load(std::sync::atomic::Ordering::SeqCst) {
            return;
        }
        let mut evs = Vec::new();
        if let Some(ring) = sim.rings.get_mut(&rfd) {
            let n = ring.sq_pending();
            if n > 0 {
                ring.consume(n, &mut evs);
            }
        }
        sim.events.append(&mut evs);
    });
}

const KINDS: &[&str] = &["read", "write", "pread", "unlink", "mread", "sendzc"];

/// The operation's resources hold a reference to the pool, its `Ok` results are `ReadBuf`s.
fn pool_kind(kind: &str) -> bool {
    kind == "pread" || kind == "mread"
}

/// Multishot read with the pool: an `AsyncIterator`, every `Ok` item is a `ReadBuf`.
struct MRead(Pin<Box<a10::io::MultishotRead<'static>>>);

impl Pollable for MRead {
    fn poll(&mut self, cx: &mut Context<'_>) -> Option<(String, Option<ReadBuf>)> {
        match self.0.as_mut().poll_next(cx) {
            Poll::Pending => None,
            Poll::Ready(None) => Some(("ready none".into(), None)),
            Poll::Ready(Some(Ok(buf))) => Some((format!("ready ok {}", buf.len()), Some(buf))),
            Poll::Ready(Some(Err(e))) => Some((format!("ready err {}", err_num(&e)), None)),
        }
    }
}

/// CQE flags of a scripted completion: `0` final, `m` = F_MORE, `n` = F_NOTIF (final).
fn parse_flags(t: &str) -> Option<u32> {
    match t {
        "0" => Some(0),
        "m" => Some(simk::CQE_F_MORE),
        "n" => Some(simk::CQE_F_NOTIF),
        _ => None,
    }
}

struct OpSlot {
    kind: String,
    /// multishot stream (`mread`)
    multi: bool,
    fd: usize,
    obj: Option<Box<dyn Pollable>>,
    state_addr: Option<usize>,
    state_block: Option<u64>,
    user_data: Option<u64>,
    /// user_data while a submission of this operation is published / in flight
    ud_inflight: Option<u64>,
    frees: u32,
    finished: bool,
    /// (re)submitted after the Ring was dropped
    late: bool,
    /// the future was dropped while a submission was outstanding
    abandoned: bool,
}

struct FdObj {
    /// regular descriptor number (-1 for a direct descriptor)
    raw: i32,
    /// `Some(j)`: a DIRECT descriptor registered in slot `j` of the ring's file table
    slot: Option<u32>,
    /// `Box<AsyncFd>` leaked so that futures can borrow it for `'static`.
    ptr: Option<*mut AsyncFd>,
    /// regular: close requests executed; direct: release requests executed for its slot
    close_reqs: u32,
    dropped_after_ring: bool,
}

struct Mapping {
    addr: usize,
    len: usize,
    region: &'static str,
    unmaps: u32,
}

struct TdCase {
    ring: Option<Ring>,
    /// An extra `SubmissionQueue` clone; some come with a standard-stream handle made from a clone of
    /// it (`stdin`/`stdout`/`stderr`: another owner of the ring's shared state that must release it
    /// when dropped, without ever closing its descriptor), dropped together with it.
    clones: Vec<Option<(SubmissionQueue, StdHandle)>>,
    fds: Vec<FdObj>,
    pool: Option<ReadBufPool>,
    had_pool: bool,
    bufs: Vec<Option<ReadBuf>>,
    ops: Vec<OpSlot>,
    addr2op: HashMap<usize, usize>,
    rfd: i32,
    sq_len: u32,
    max_ops: usize,
    maps: Vec<Mapping>,
    pool_blocks: Vec<(u64, u32)>,
    pool_unregs: u32,
    /// pool buffers the scripted completions may still select (never replenished: a
    /// lower bound of what the real buffer ring holds; mirrors the model)
    pbuf_left: u32,
    /// size of the registered-file table (0 = none)
    dtab: u32,
    /// release requests executed per slot nobody of the population owns
    foreign_rel: HashMap<u32, u32>,
    ring_fd_closes: u32,
    /// a10 system calls / munmaps seen after the ring descriptor was closed
    after_ring_close: u32,
    begin_lines: Vec<String>,
    // generator
    steps_left: u32,
    tearing: bool,
    // reporting
    oracle: Vec<(String, String, String)>,
    feats: Vec<String>,
    ring_dropped: bool,
    poisoned: bool,
    valid: bool,
}

fn region_of(off: i64) -> &'static str {
    match off {
        simk::OFF_SQ_RING => "sq",
        simk::OFF_CQ_RING => "cq",
        simk::OFF_SQES => "sqes",
        _ => "?",
    }
}

fn strict_u64(s: &str) -> Option<u64> {
    if s.is_empty() || s.len() > 18 || !s.bytes().all(|b| b.is_ascii_digit()) {
        return None;
    }
    s.parse().ok()
}

fn strict_i64(s: &str) -> Option<i64> {
    match s.strip_prefix('-') {
        Some(r) => strict_u64(r).map(|n| -(n as i64)),
        None => strict_u64(s).map(|n| n as i64),
    }
}

fn list<T: std::fmt::Display>(v: &[T]) -> String {
    if v.is_empty() { "-".into() } else { v.iter().map(|x| x.to_string()).collect::<Vec<_>>().join(",") }
}

impl TdCase {
    fn invalid() -> TdCase {
        TdCase {
            ring: None,
            clones: Vec::new(),
            fds: Vec::new(),
            pool: None,
            had_pool: false,
            bufs: Vec::new(),
            ops: Vec::new(),
            addr2op: HashMap::new(),
            rfd: -1,
            sq_len: 0,
            max_ops: 0,
            maps: Vec::new(),
            pool_blocks: Vec::new(),
            pool_unregs: 0,
            pbuf_left: 16,
            dtab: 0,
            foreign_rel: HashMap::new(),
            ring_fd_closes: 0,
            after_ring_close: 0,
            begin_lines: vec!["bad-op".into()],
            steps_left: 0,
            tearing: false,
            oracle: Vec::new(),
            feats: Vec::new(),
            ring_dropped: false,
            poisoned: false,
            valid: false,
        }
    }

    fn new(header: &str) -> TdCase {
        let t: Vec<&str> = header.split(' ').collect();
        let get = |k: &str| -> Option<u64> {
            t.iter().skip(3).find_map(|x| x.strip_prefix(&format!("{k}="))).and_then(strict_u64)
        };
        let (Some(sq_len), Some(cq_len), Some(cqh), Some(ncl), Some(nfd), Some(pool), Some(max_ops)) =
            (get("sq"), get("cq"), get("cqh"), get("clones"), get("fds"), get("pool"), get("maxops"))
        else {
            return TdCase::invalid();
        };
        let sqh = get("sqh").unwrap_or(0);
        // optional: bit k of `dmask` = descriptor k is a direct descriptor (slot k of a
        // table of `dtab` entries)
        let has = |k: &str| t.iter().skip(3).any(|x| x.starts_with(&format!("{k}=")));
        let (dmask, dtab) = (get("dmask"), get("dtab"));
        if (has("dmask") && dmask.is_none()) || (has("dtab") && dtab.is_none()) {
            return TdCase::invalid();
        }
        let (dmask, dtab) = (dmask.unwrap_or(0), dtab.unwrap_or(0));
        let dbits = 64 - dmask.leading_zeros() as u64;
        if nfd > 4 || dtab > 16 || dmask >= (1u64 << nfd) || dbits > dtab {
            return TdCase::invalid();
        }
        let ndirect = dmask.count_ones();
        if sq_len < 1 || cq_len < sq_len || ncl > 4 || nfd > 4 || max_ops > 16 || pool > 1
            || !sq_len.is_power_of_two() || !cq_len.is_power_of_two() || sq_len > 64 || cq_len > 128
            || cqh > u32::MAX as u64 || sqh > u32::MAX as u64
        {
            return TdCase::invalid();
        }
        simk::reset();
        track::release_quarantine();
        // Opening a direct descriptor before the script starts costs one submission and
        // one completion each: start the counters that much earlier, so that the script
        // starts at the header's values.
        simk::activate(simk::SetupCfg {
            sq_head0: (sqh as u32).wrapping_sub(ndirect),
            cq_head0: (cqh as u32).wrapping_sub(ndirect),
            ..Default::default()
        });
        simk::drain_events();
        let mut cfg = Ring::config()
            .with_submission_queue_size(sq_len as u32)
            .with_completion_queue_size(cq_len as u32);
        if dtab > 0 {
            cfg = cfg.with_direct_descriptors(dtab as u32);
        }
        let mut ring = cfg.build().expect("ring build");
        let rfd = simk::with_sim(|s| *s.rings.keys().next().unwrap());
        let clones: Vec<Option<(SubmissionQueue, StdHandle)>> = (0..ncl)
            .map(|k| {
                let sq = ring.sq();
                let h = match (k as u64 + cqh as u64) % 4 {
                    0 => StdHandle::None,
                    1 => StdHandle::In(a10::io::stdin(sq.clone())),
                    2 => StdHandle::Out(a10::io::stdout(sq.clone())),
                    _ => StdHandle::Err(a10::io::stderr(sq.clone())),
                };
                Some((sq, h))
            })
            .collect();
        let mut fds = Vec::new();
        for k in 0..nfd {
            if dmask & (1 << k) != 0 {
                let Some(fd) = open_direct(&mut ring, rfd, k as u32) else {
                    return TdCase::invalid();
                };
                fds.push(FdObj { raw: -1, slot: Some(k as u32), ptr: Some(Box::into_raw(Box::new(fd))), close_reqs: 0, dropped_after_ring: false });
                continue;
            }
            let raw = simk::with_ring(rfd, |r, _| r.fresh_fd());
            let b = Box::new(unsafe { AsyncFd::from_raw_fd(raw, ring.sq()) });
            fds.push(FdObj { raw, slot: None, ptr: Some(Box::into_raw(b)), close_reqs: 0, dropped_after_ring: false });
        }
        let mut pool_blocks = Vec::new();
        let pool_obj = if pool == 1 {
            let p = ReadBufPool::new(ring.sq(), 16, 64).expect("pool");
            // The pool's two allocations: the buffer ring the kernel was given
            // and the buffers its entries point to.
            let addrs: Vec<usize> = simk::with_ring(rfd, |r, _| {
                let mut v = Vec::new();
                for (bgid, pb) in r.pbufs.iter() {
                    v.push(pb.ring_addr);
                    if let Some(min) = r.available_buffers(*bgid).iter().map(|e| e.1 as usize).min() {
                        v.push(min);
                    }
                }
                v
            });
            for a in addrs {
                if let Some(b) = track::watch(a) {
                    if !pool_blocks.iter().any(|p: &(u64, u32)| p.0 == b.id) {
                        pool_blocks.push((b.id, 0));
                    }
                }
            }
            Some(p)
        } else {
            None
        };
        let mut maps = Vec::new();
        let mut begin_lines = Vec::new();
        for e in simk::drain_events() {
            match e {
                KEv::Mmap { off, len, ret, .. } => {
                    let region = region_of(off);
                    begin_lines.push(format!("mmap {region}"));
                    if ret != -1 {
                        maps.push(Mapping { addr: ret as usize, len, region, unmaps: 0 });
                    }
                }
                KEv::Register { op, ret, .. } if op == simk::REGISTER_PBUF_RING => {
                    begin_lines.push(format!("register pbuf {}", if ret == 0 { "ok".to_string() } else { errno_name(-ret as i32) }));
                }
                KEv::Register { op, ret, .. } if op == simk::REGISTER_FILES2 => {
                    begin_lines.push(format!("register files {}", if ret == 0 { "ok".to_string() } else { errno_name(-ret as i32) }));
                }
                _ => {}
            }
        }
        let mut feats = Vec::new();
        if ndirect > 0 {
            feats.push("direct/population".to_string());
            feats.push(format!("direct/descriptors={ndirect}"));
        }
        util::drain_wakes();
        track::drain_frees();
        track::drain_double_frees();
        lockp(&UNMAPPED_HITS).clear();
        a10::verif::set_hook(Some(observe));
        TdCase {
            ring: Some(ring),
            clones,
            fds,
            pool: pool_obj,
            had_pool: pool == 1,
            bufs: Vec::new(),
            ops: Vec::new(),
            addr2op: HashMap::new(),
            rfd,
            sq_len: sq_len as u32,
            max_ops: max_ops as usize,
            maps,
            pool_blocks,
            pool_unregs: 0,
            pbuf_left: 16,
            dtab: dtab as u32,
            foreign_rel: HashMap::new(),
            ring_fd_closes: 0,
            after_ring_close: 0,
            begin_lines,
            steps_left: get("steps").unwrap_or(0) as u32,
            tearing: false,
            oracle: Vec::new(),
            feats,
            ring_dropped: false,
            poisoned: false,
            valid: true,
        }
    }

    /// A single-issuer ring of its own (the simulated kernel enforces IORING_SETUP_SINGLE_ISSUER for
    /// it): the Ring is polled once (this thread becomes the submitter) and dropped, then a regular
    /// `AsyncFd`, the last handle, is dropped on this thread (`same`) or on another one (`other`).
    fn do_single_last_handle(&mut self, where_: &str) -> Vec<String> {
        let other_thread = where_ == "other";
        // `enabled-elsewhere`: the ring is built DISABLED on another thread and enabled on this one,
        // which thereby becomes its submitter (IORING_REGISTER_ENABLE_RINGS); everything else
        // happens on this thread, as in `same`
        let elsewhere = where_ == "enabled-elsewhere";
        let pre = simk::drain_events();
        simk::purge_closed_except(self.rfd);
        let held_main = simk::hold_fd(self.rfd);
        let before: Vec<i32> = simk::with_sim(|s| s.rings.keys().copied().collect());
        simk::ENFORCE_SINGLE_ISSUER.store(true, std::sync::atomic::Ordering::SeqCst);
        let built = if elsewhere {
            std::thread::spawn(|| Ring::config().with_submission_queue_size(4).single_issuer().disable().build())
                .join()
                .unwrap_or_else(|_| Err(std::io::Error::other("builder thread panicked")))
                .and_then(|mut r| r.enable().map(|()| r))
        } else {
            Ring::config().with_submission_queue_size(4).single_issuer().build()
        };
        simk::ENFORCE_SINGLE_ISSUER.store(false, std::sync::atomic::Ordering::SeqCst);
        if held_main {
            simk::release_fd(self.rfd);
        }
        let mut ring_b = match built {
            Ok(r) => r,
            Err(e) => return vec![format!("single-last-handle setup-failed {e}")],
        };
        let Some(rfd_b) = simk::with_sim(|s| s.rings.keys().copied().find(|k| !before.contains(k))) else {
            return vec!["single-last-handle no-new-ring".into()];
        };
        let _ = ring_b.poll(Some(Duration::ZERO));
        let sq_b = ring_b.sq();
        let r = simk::with_ring(rfd_b, |ring, _| ring.fresh_fd());
        let fd = unsafe { AsyncFd::from_raw_fd(r, sq_b.clone()) };
        drop(sq_b);
        let _ = util::catch(move || drop(ring_b));
        let _ = simk::drain_events();
        a10::verif::set_hook(None);
        if other_thread {
            let _ = std::thread::spawn(move || drop(fd)).join();
        } else {
            let _ = util::catch(move || drop(fd));
        }
        a10::verif::set_hook(Some(observe));
        let mut closes = 0;
        let mut refused = 0;
        for e in simk::drain_events() {
            match e {
                KEv::CloseReq { fd, direct: false, .. } | KEv::CloseFd { fd, .. } if fd == r => closes += 1,
                KEv::Enter { ret, .. } if ret == -(libc::EEXIST as i64) => refused += 1,
                _ => {}
            }
        }
        let open = unsafe { simk::raw_syscall(libc::SYS_fcntl, r as i64, libc::F_GETFD as i64, 0, 0, 0, 0) } >= 0;
        if open {
            unsafe { simk::raw_syscall(libc::SYS_close, r as i64, 0, 0, 0, 0, 0) };
        }
        if closes != 1 || open {
            let sig = if other_thread {
                "C12/single-issuer-last-handle/other-thread"
            } else if elsewhere {
                "C12/single-issuer-last-handle/enabled-elsewhere"
            } else {
                "C12/single-issuer-last-handle/same-thread"
            };
            self.fail(sig, format!("single-issuer ring: the AsyncFd dropped after the Ring ({}) was closed {closes} times, descriptor still open: {open}; {refused} io_uring_enter call(s) refused with EEXIST", if other_thread { "on another thread than the ring's submitter" } else if elsewhere { "on the submitter's thread: the thread that enabled the ring, which another thread had built disabled" } else { "on the submitter's thread" }));
        }
        simk::with_sim(|sim| {
            let mut keep = pre;
            keep.append(&mut sim.events);
            sim.events = keep;
        });
        simk::purge_closed_except(self.rfd); // the side ring is gone: the case's own ledger must not count its queue
        self.feat(if other_thread { "single-last-handle/other" } else if elsewhere { "single-last-handle/enabled-elsewhere" } else { "single-last-handle/same" });
        vec![format!("single-last-handle closes={closes} open={} refused={refused}", u8::from(open))]
    }

    /// A ring with a kernel submission thread (SQPOLL), of its own: the Ring is dropped first, then a
    /// regular `AsyncFd`, the last handle. Its CLOSE is queued after the Ring is gone; the (awake)
    /// kernel thread consumes it asynchronously — here: at the first load of a kernel-shared word
    /// after the last handle's `io_uring_enter` — so the last handle has to wait for it before it
    /// closes the ring (fix 5ae3e32). Observed: closes of the descriptor, entries left in the queue
    /// when the ring descriptor was closed.
    fn do_sqpoll_last_handle(&mut self) -> Vec<String> {
        let pre = simk::drain_events();
        simk::purge_closed_except(self.rfd);
        let held_main = simk::hold_fd(self.rfd);
        let before: Vec<i32> = simk::with_sim(|s| s.rings.keys().copied().collect());
        let built_b = Ring::config().with_submission_queue_size(4).with_kernel_thread().build();
        if held_main {
            simk::release_fd(self.rfd);
        }
        let ring_b = match built_b {
            Ok(r) => r,
            Err(e) => return vec![format!("sqpoll-last-handle setup-failed {e}")],
        };
        let Some(rfd_b) = simk::with_sim(|s| s.rings.keys().copied().find(|k| !before.contains(k))) else {
            return vec!["sqpoll-last-handle no-new-ring".into()];
        };
        let sq_b = ring_b.sq();
        let r = simk::with_ring(rfd_b, |ring, _| ring.fresh_fd());
        let fd = unsafe { AsyncFd::from_raw_fd(r, sq_b.clone()) };
        drop(sq_b);
        let _ = util::catch(move || drop(ring_b));
        let _ = simk::drain_events();
        // the kernel thread is awake and runs "a little later"
        SQPOLL_LOADS.store(0, std::sync::atomic::Ordering::SeqCst);
        SQPOLL_RING.store(rfd_b, std::sync::atomic::Ordering::SeqCst);
        a10::verif::set_hook(Some(sqpoll_progress));
        let _ = util::catch(move || drop(fd));
        a10::verif::set_hook(Some(observe));
        SQPOLL_RING.store(-1, std::sync::atomic::Ordering::SeqCst);
        let mut closes = 0;
        for e in simk::drain_events() {
            match e {
                KEv::CloseReq { fd, direct: false, .. } | KEv::CloseFd { fd, .. } if fd == r => closes += 1,
                _ => {}
            }
        }
        let left = simk::with_ring(rfd_b, |ring, _| ring.sq_pending());
        let open = unsafe { simk::raw_syscall(libc::SYS_fcntl, r as i64, libc::F_GETFD as i64, 0, 0, 0, 0) } >= 0;
        if open {
            unsafe { simk::raw_syscall(libc::SYS_close, r as i64, 0, 0, 0, 0, 0) };
        }
        if closes != 1 || left != 0 || open {
            self.fail("C12/sqpoll-last-handle", format!("ring with a kernel thread: the AsyncFd dropped after the Ring was closed {closes} times, {left} submissions were still queued when the ring was closed, descriptor still open: {open}"));
        }
        simk::with_sim(|sim| {
            let mut keep = pre;
            keep.append(&mut sim.events);
            sim.events = keep;
        });
        simk::purge_closed_except(self.rfd);
        self.feat("sqpoll-last-handle");
        vec![format!("sqpoll-last-handle closes={closes} left={left} open={}", u8::from(open))]
    }

    /// `teardown sqpoll-ring-drop`: a ring with a kernel submission thread of its own; a read is
    /// polled once (queued) and abandoned (a cancel queued behind it), then the Ring is dropped
    /// while the thread has not looked at the queue yet — it takes it "later": at the 40th load of
    /// a kernel-shared word after the drop's first `io_uring_enter`, i.e. only for code that waits
    /// for it. The Ring's drop has to let the thread take the queue BEFORE it cancels what is in
    /// flight and collects the last completions; otherwise the read starts after the cancellation
    /// sweep and its completion arrives when nobody processes completions any more. Observed:
    /// whether the read's buffer was released.
    fn do_sqpoll_ring_drop(&mut self) -> Vec<String> {
        let pre = simk::drain_events();
        simk::purge_closed_except(self.rfd);
        let held_main = simk::hold_fd(self.rfd);
        let before: Vec<i32> = simk::with_sim(|s| s.rings.keys().copied().collect());
        let built_b = Ring::config().with_submission_queue_size(4).with_kernel_thread().build();
        if held_main {
            simk::release_fd(self.rfd);
        }
        let ring_b = match built_b {
            Ok(r) => r,
            Err(e) => return vec![format!("sqpoll-ring-drop setup-failed {e}")],
        };
        let Some(rfd_b) = simk::with_sim(|s| s.rings.keys().copied().find(|k| !before.contains(k))) else {
            return vec!["sqpoll-ring-drop no-new-ring".into()];
        };
        let sq_b = ring_b.sq();
        let raw = simk::with_ring(rfd_b, |ring, _| ring.fresh_fd());
        let fd: &'static AsyncFd = Box::leak(Box::new(unsafe { AsyncFd::from_raw_fd(raw, sq_b.clone()) }));
        drop(sq_b);
        let w = util::waker(989);
        let mut cx = std::task::Context::from_waker(&w);
        let buf: Vec<u8> = Vec::with_capacity(48);
        let blk = track::watch(buf.as_ptr() as usize);
        {
            let mut f: std::pin::Pin<Box<dyn std::future::Future<Output = std::io::Result<Vec<u8>>>>> = Box::pin(fd.read(buf));
            let _ = f.as_mut().poll(&mut cx);
            // dropped: the read and the cancel request are queued, the thread has seen neither
        }
        let queued = simk::with_ring(rfd_b, |ring, _| ring.sq_pending());
        let _ = simk::drain_events();
        simk::SQWAIT_RUNS_THREAD.store(false, std::sync::atomic::Ordering::SeqCst);
        SQPOLL_LOADS.store(0, std::sync::atomic::Ordering::SeqCst);
        SQPOLL_AFTER.store(40, std::sync::atomic::Ordering::SeqCst);
        SQPOLL_RING.store(rfd_b, std::sync::atomic::Ordering::SeqCst);
        a10::verif::set_hook(Some(sqpoll_progress));
        let _ = util::catch(move || drop(ring_b));
        a10::verif::set_hook(Some(observe));
        SQPOLL_RING.store(-1, std::sync::atomic::Ordering::SeqCst);
        SQPOLL_AFTER.store(3, std::sync::atomic::Ordering::SeqCst);
        simk::SQWAIT_RUNS_THREAD.store(true, std::sync::atomic::Ordering::SeqCst);
        let released = u8::from(blk.as_ref().is_some_and(|b| !track::is_live(b.id)));
        if released != 1 {
            self.fail("C12/sqpoll-ring-drop", format!("ring with a kernel thread that had not taken the queue when the Ring was dropped ({queued} entries queued: an abandoned read and its cancel request): the read's buffer was not released by the Ring's drop — the cancellation sweep ran before the thread started the read"));
        }
        // the last handle (its CLOSE is taken by the thread "a little later", as in `sqpoll-last-handle`)
        SQPOLL_LOADS.store(0, std::sync::atomic::Ordering::SeqCst);
        SQPOLL_RING.store(rfd_b, std::sync::atomic::Ordering::SeqCst);
        a10::verif::set_hook(Some(sqpoll_progress));
        let _ = util::catch(move || unsafe { drop(Box::from_raw(std::ptr::from_ref(fd).cast_mut())) });
        a10::verif::set_hook(Some(observe));
        SQPOLL_RING.store(-1, std::sync::atomic::Ordering::SeqCst);
        let _ = simk::drain_events();
        simk::with_sim(|sim| {
            let mut keep = pre;
            keep.append(&mut sim.events);
            sim.events = keep;
        });
        simk::purge_closed_except(self.rfd);
        self.feat("sqpoll-ring-drop");
        vec![format!("sqpoll-ring-drop queued={queued} released={released}/1")]
    }

    /// `teardown defer-drop <n> <b>`: a single-issuer ring with deferred completions
    /// (IORING_SETUP_DEFER_TASKRUN) of its own: `n` reads in flight are abandoned, then the Ring is
    /// dropped. The kernel hands the completions of the cancelled reads over only inside
    /// `io_uring_enter(GETEVENTS)`, at most `b` per call (Linux: 20, probed by `a10h kc`), so the
    /// drop has to keep entering until a call brings nothing new. Observed: how many of the `n`
    /// read buffers were released.
    fn do_defer_drop(&mut self, n: usize, b: u32) -> Vec<String> {
        let pre = simk::drain_events();
        simk::purge_closed_except(self.rfd);
        let held_main = simk::hold_fd(self.rfd);
        let before: Vec<i32> = simk::with_sim(|s| s.rings.keys().copied().collect());
        let built = Ring::config().with_submission_queue_size(8).single_issuer().defer_task_run().build();
        if held_main {
            simk::release_fd(self.rfd);
        }
        let mut ring_b = match built {
            Ok(r) => r,
            Err(e) => return vec![format!("defer-drop setup-failed {e}")],
        };
        let Some(rfd_b) = simk::with_sim(|s| s.rings.keys().copied().find(|k| !before.contains(k))) else {
            return vec!["defer-drop no-new-ring".into()];
        };
        simk::with_ring(rfd_b, |ring, _| ring.defer_batch = Some(b));
        let sq_b = ring_b.sq();
        let raw = simk::with_ring(rfd_b, |ring, _| ring.fresh_fd());
        let fd: &'static AsyncFd = Box::leak(Box::new(unsafe { AsyncFd::from_raw_fd(raw, sq_b.clone()) }));
        drop(sq_b);
        let w = util::waker(990);
        let mut cx = std::task::Context::from_waker(&w);
        let mut futs = Vec::new();
        let mut blocks = Vec::new();
        for _ in 0..n {
            let buf: Vec<u8> = Vec::with_capacity(48);
            if let Some(blk) = track::watch(buf.as_ptr() as usize) {
                blocks.push(blk);
            }
            let mut f: std::pin::Pin<Box<dyn std::future::Future<Output = std::io::Result<Vec<u8>>>>> = Box::pin(fd.read(buf));
            let _ = f.as_mut().poll(&mut cx);
            futs.push(f);
        }
        // submit them (nothing completes), then abandon all of them: cancel requests are queued
        let _ = util::catch(std::panic::AssertUnwindSafe(|| ring_b.poll(Some(std::time::Duration::ZERO))));
        drop(futs);
        let _ = track::drain_frees();
        let _ = util::catch(move || drop(ring_b));
        let freed_now: Vec<u64> = track::drain_frees().iter().map(|b| b.id).collect();
        let freed = blocks.iter().filter(|b| freed_now.contains(&b.id)).count();
        let left = simk::with_ring(rfd_b, |ring, _| ring.deferred.len() + ring.cq_count() as usize + ring.overflow.len());
        if freed != n {
            self.fail("C12/defer-drop", format!("single-issuer ring with deferred completions: {n} abandoned reads in flight when the Ring was dropped, the kernel handing over at most {b} completions per io_uring_enter: only {freed} of their buffers were released ({left} completions never fetched)"));
        }
        // the descriptor: the last handle
        unsafe { drop(Box::from_raw(std::ptr::from_ref(fd).cast_mut())) };
        let open = unsafe { simk::raw_syscall(libc::SYS_fcntl, raw as i64, libc::F_GETFD as i64, 0, 0, 0, 0) } >= 0;
        if open {
            unsafe { simk::raw_syscall(libc::SYS_close, raw as i64, 0, 0, 0, 0, 0) };
        }
        let _ = simk::drain_events();
        simk::with_sim(|sim| {
            let mut keep = pre;
            keep.append(&mut sim.events);
            sim.events = keep;
        });
        simk::purge_closed_except(self.rfd);
        track::drain_frees();
        self.feat("defer-drop");
        vec![format!("defer-drop freed={freed}/{n}")]
    }

    /// `teardown disabled-drop <n>`: a ring created disabled (`Config::disable()`) and never enabled:
    /// `n` reads are started (their submissions are queued; `io_uring_enter` is refused with EBADFD, so
    /// none ever reaches the kernel), abandoned, and the Ring is dropped. Observed: how many of the
    /// `n` read buffers were released. (Copy of `do_defer_drop` otherwise.)
    /// ORIGINAL DOC: a single-issuer ring with deferred completions
    /// (IORING_SETUP_DEFER_TASKRUN) of its own: `n` reads in flight are abandoned, then the Ring is
    /// dropped. The kernel hands the completions of the cancelled reads over only inside
    /// `io_uring_enter(GETEVENTS)`, at most `b` per call (Linux: 20, probed by `a10h kc`), so the
    /// drop has to keep entering until a call brings nothing new. Observed: how many of the `n`
    /// read buffers were released.
    fn do_disabled_drop(&mut self, n: usize) -> Vec<String> {
        let pre = simk::drain_events();
        simk::purge_closed_except(self.rfd);
        let held_main = simk::hold_fd(self.rfd);
        let before: Vec<i32> = simk::with_sim(|s| s.rings.keys().copied().collect());
        let built = Ring::config().with_submission_queue_size(8).disable().build();
        if held_main {
            simk::release_fd(self.rfd);
        }
        let mut ring_b = match built {
            Ok(r) => r,
            Err(e) => return vec![format!("disabled-drop setup-failed {e}")],
        };
        let Some(rfd_b) = simk::with_sim(|s| s.rings.keys().copied().find(|k| !before.contains(k))) else {
            return vec!["disabled-drop no-new-ring".into()];
        };
        let sq_b = ring_b.sq();
        let raw = simk::with_ring(rfd_b, |ring, _| ring.fresh_fd());
        let fd: &'static AsyncFd = Box::leak(Box::new(unsafe { AsyncFd::from_raw_fd(raw, sq_b.clone()) }));
        drop(sq_b);
        let w = util::waker(990);
        let mut cx = std::task::Context::from_waker(&w);
        let mut futs = Vec::new();
        let mut blocks = Vec::new();
        for _ in 0..n {
            let buf: Vec<u8> = Vec::with_capacity(48);
            if let Some(blk) = track::watch(buf.as_ptr() as usize) {
                blocks.push(blk);
            }
            let mut f: std::pin::Pin<Box<dyn std::future::Future<Output = std::io::Result<Vec<u8>>>>> = Box::pin(fd.read(buf));
            let _ = f.as_mut().poll(&mut cx);
            futs.push(f);
        }
        // submit them (nothing completes), then abandon all of them: cancel requests are queued
        let _ = util::catch(std::panic::AssertUnwindSafe(|| ring_b.poll(Some(std::time::Duration::ZERO))));
        drop(futs);
        let _ = track::drain_frees();
        let _ = util::catch(move || drop(ring_b));
        let freed_now: Vec<u64> = track::drain_frees().iter().map(|b| b.id).collect();
        let freed = blocks.iter().filter(|b| freed_now.contains(&b.id)).count();
        let left = simk::with_ring(rfd_b, |ring, _| ring.deferred.len() + ring.cq_count() as usize + ring.overflow.len());
        let _ = left;
        if freed != n {
            self.fail("C12/disabled-ring-drop", format!("ring created disabled and never enabled: {n} abandoned operations whose submissions were queued but never reached the kernel (io_uring_enter is refused with EBADFD) when the Ring was dropped: only {freed} of their buffers were released — no completion will ever arrive for a submission the kernel never saw, and nothing else reclaims the state"));
        }
        // the descriptor: the last handle
        unsafe { drop(Box::from_raw(std::ptr::from_ref(fd).cast_mut())) };
        let open = unsafe { simk::raw_syscall(libc::SYS_fcntl, raw as i64, libc::F_GETFD as i64, 0, 0, 0, 0) } >= 0;
        if open {
            unsafe { simk::raw_syscall(libc::SYS_close, raw as i64, 0, 0, 0, 0, 0) };
        }
        let _ = simk::drain_events();
        simk::with_sim(|sim| {
            let mut keep = pre;
            keep.append(&mut sim.events);
            sim.events = keep;
        });
        simk::purge_closed_except(self.rfd);
        track::drain_frees();
        self.feat("disabled-drop");
        vec![format!("disabled-drop freed={freed}/{n}")]
    }

    fn fail(&mut self, sig: &str, what: String) {
        if !self.oracle.iter().any(|o| o.1 == sig) {
            self.oracle.push(("C12".into(), sig.into(), what));
        }
    }

    fn feat(&mut self, f: &str) {
        if !self.feats.iter().any(|x| x == f) {
            self.feats.push(f.to_string());
        }
    }

    /// The regular descriptor of the population with this number.
    fn fd_index(&self, raw: i32) -> Option<usize> {
        self.fds.iter().position(|f| f.slot.is_none() && f.raw == raw)
    }

    /// The direct descriptor of the population registered in slot `j`.
    fn slot_owner(&self, j: u32) -> Option<usize> {
        self.fds.iter().position(|f| f.slot == Some(j))
    }

    /// CLOSE requests with `file_index = j + 1` published and not yet consumed.
    fn queued_slot_closes(&self, j: u32) -> u32 {
        simk::with_ring(self.rfd, |r, _| {
            let (mut h, t) = (r.sq_head(), r.sq_tail());
            let mut n = 0;
            let mut guard = 0;
            while h != t && guard < 256 {
                let e = r.sqe_at(h);
                if e.opcode == simk::OP_CLOSE && e.file_index == j + 1 {
                    n += 1;
                }
                h = h.wrapping_add(1);
                guard += 1;
            }
            n
        })
    }

    fn slot_registered(&self, j: u32) -> bool {
        simk::with_ring(self.rfd, |r, _| r.files.as_ref().and_then(|f| f.get(j as usize)).is_some_and(|s| s.is_some()))
    }

    /// The kernel executed a release request (`how`) for slot `j` of the file table.
    fn slot_released(&mut self, j: u32, how: &str) {
        match self.slot_owner(j) {
            Some(k) => {
                self.fds[k].close_reqs += 1;
                if self.fds[k].ptr.is_some() {
                    self.fail("C12/direct-release-wrong-slot", format!("{how} released slot {j} of the file table while the AsyncFd that owns it (fd{k}) exists: somebody else's descriptor was unregistered"));
                } else if self.fds[k].close_reqs > 1 {
                    let n = self.fds[k].close_reqs;
                    self.fail("C12/direct-slot-released-twice", format!("slot {j} (fd{k}) was released {n} times (last by {how})"));
                }
            }
            None => {
                *self.foreign_rel.entry(j).or_insert(0) += 1;
                self.fail("C12/direct-release-wrong-slot", format!("{how} released slot {j} of the file table, which belongs to no direct descriptor of this ring's population"));
            }
        }
    }

    /// Objects that keep the shared ring state alive.
    fn holders(&self) -> usize {
        self.ring.is_some() as usize
            + self.clones.iter().filter(|c| c.is_some()).count()
            + self.fds.iter().filter(|f| f.ptr.is_some()).count()
            + self.ops.iter().filter(|o| o.kind == "unlink" && o.obj.is_some()).count()
            + self.pool_users()
    }

    /// Objects known to reference the pool (a lower bound: abandoned states are not counted).
    fn pool_users(&self) -> usize {
        self.pool.is_some() as usize
            + self.bufs.iter().filter(|b| b.is_some()).count()
            + self.ops.iter().filter(|o| pool_kind(&o.kind) && o.obj.is_some() && !o.finished).count()
    }

    fn status_of(&self, i: usize) -> &'static str {
        let o = &self.ops[i];
        if o.obj.is_none() {
            return if o.frees > 0 { "freed" } else { "abandoned" };
        }
        if o.finished {
            return "complete";
        }
        let Some(ud) = o.ud_inflight else {
            return if o.user_data.is_some() { "done-unpolled" } else { "never-polled" };
        };
        simk::with_ring(self.rfd, |r, _| {
            if r.inflight.iter().any(|x| x.sqe.user_data == ud) {
                "in-flight"
            } else {
                let (mut h, t) = (r.sq_head(), r.sq_tail());
                while h != t {
                    if r.sqe_at(h).user_data == ud {
                        return "published";
                    }
                    h = h.wrapping_add(1);
                }
                "done-unpolled"
            }
        })
    }

    /// Lines for submissions published since `old_tail`; learns user_data.
    fn new_sqes(&mut self, old_tail: u32, polled: Option<usize>) -> Vec<String> {
        let mut lines = Vec::new();
        let entries: Vec<simk::Sqe> = simk::with_ring(self.rfd, |r, _| {
            let tail = r.sq_tail();
            let mut v = Vec::new();
            let mut t = old_tail;
            while t != tail && v.len() < 256 {
                v.push(r.sqe_at(t));
                t = t.wrapping_add(1);
            }
            v
        });
        for sqe in entries {
            match sqe.opcode {
                simk::OP_ASYNC_CANCEL => {
                    let target = self.ops.iter().position(|o| o.user_data == Some(sqe.addr));
                    match target {
                        Some(t) => lines.push(format!("sqe cancel op{t}")),
                        None => lines.push(format!("sqe cancel unknown:{:#x}", sqe.addr)),
                    }
                    if sqe.user_data != 2 || sqe.flags & simk::IOSQE_CQE_SKIP_SUCCESS == 0 {
                        self.fail("C12/cancel-encoding", format!("cancel request with user_data {} flags {:#x}", sqe.user_data, sqe.flags));
                    }
                }
                simk::OP_CLOSE => {
                    if sqe.file_index != 0 {
                        // a direct descriptor: `file_index` = slot + 1
                        lines.push(format!("sqe close slot{}", sqe.file_index - 1));
                    } else {
                        match self.fd_index(sqe.fd) {
                            Some(k) => lines.push(format!("sqe close fd{k}")),
                            _ => lines.push(format!("sqe close unknown:{}", sqe.fd)),
                        }
                    }
                    if sqe.user_data != 3 || sqe.flags & simk::IOSQE_CQE_SKIP_SUCCESS == 0 {
                        self.fail("C12/close-encoding", format!("close request with user_data {} flags {:#x}", sqe.user_data, sqe.flags));
                    }
                }
                _ => {
                    let Some(i) = polled else {
                        lines.push(format!("sqe ? {}", simk::opcode_name(sqe.opcode)));
                        continue;
                    };
                    let addr = (sqe.user_data & !1) as usize;
                    if let Some(a) = self.ops[i].state_addr {
                        if a != addr {
                            self.fail("C12/user-data-moved", format!("op{i} user_data {addr:#x} is not its state box {a:#x}"));
                        }
                    }
                    let op = &mut self.ops[i];
                    op.user_data = Some(sqe.user_data);
                    op.ud_inflight = Some(sqe.user_data);
                    lines.push(format!("sqe op{i} {}", simk::opcode_name(sqe.opcode)));
                }
            }
        }
        lines
    }

    /// Freed watched blocks since the last call: (operation indices, pool allocations).
    fn collect_frees(&mut self) -> (Vec<usize>, u32) {
        for b in track::drain_double_frees() {
            let who = self.ops.iter().position(|o| o.state_block == Some(b.id));
            match who {
                Some(i) => self.fail("C12/double-free/state", format!("state of op{i} freed twice")),
                None if self.pool_blocks.iter().any(|p| p.0 == b.id) => {
                    self.fail("C12/double-free/pool", format!("a pool allocation ({} bytes) was freed twice", b.size))
                }
                None => self.fail("C12/double-free/other", format!("a watched block ({} bytes) was freed twice", b.size)),
            }
        }
        let mut v = Vec::new();
        let mut pf = 0;
        for b in track::drain_frees() {
            if let Some(p) = self.pool_blocks.iter_mut().find(|p| p.0 == b.id) {
                p.1 += 1;
                pf += 1;
                continue;
            }
            if let Some(i) = self.addr2op.get(&b.base).copied() {
                if self.ops[i].state_block == Some(b.id) {
                    self.ops[i].frees += 1;
                    v.push(i);
                }
            }
        }
        v.sort();
        (v, pf)
    }

    /// Event lines of the op just executed + per-step oracle.
    fn events(&mut self) -> Vec<String> {
        let mut out = Vec::new();
        for e in simk::drain_events() {
            let ring_closed = self.ring_fd_closes > 0;
            match e {
                KEv::Enter { to_submit, min_complete, flags, .. } => {
                    out.push(format!("enter n={to_submit} min={min_complete} ge={}", flags & simk::ENTER_GETEVENTS));
                    if ring_closed {
                        self.after_ring_close += 1;
                    }
                }
                KEv::Register { op, ret, detail, .. } => {
                    let res = if ret >= 0 { "ok".to_string() } else { errno_name(-ret as i32) };
                    match op {
                        simk::REGISTER_SYNC_CANCEL => {
                            let n = detail.rsplit('=').next().unwrap_or("?").to_string();
                            out.push(format!("register sync-cancel n={n}"));
                        }
                        simk::UNREGISTER_PBUF_RING => {
                            out.push(format!("register unregister-pbuf {res}"));
                            if ret == 0 {
                                self.pool_unregs += 1;
                            }
                        }
                        simk::REGISTER_PBUF_RING => out.push(format!("register pbuf {res}")),
                        simk::REGISTER_FILES_UPDATE | simk::REGISTER_FILES_UPDATE2 => {
                            // `close_direct_fd`: slots set to -1
                            let mut any = false;
                            for part in detail.split(' ') {
                                if let Some((n, v)) = part.strip_prefix("slot").and_then(|r| r.split_once(":=")) {
                                    any = true;
                                    match (n.parse::<u32>(), v) {
                                        (Ok(n), "-1") => {
                                            out.push(format!("register files-update slot{n} {res}"));
                                            if ret >= 0 {
                                                self.slot_released(n, "the synchronous FILES_UPDATE(-1)");
                                            }
                                        }
                                        _ => {
                                            out.push(format!("register files-update {part} {res}"));
                                            self.fail("C12/direct-table-overwritten", format!("FILES_UPDATE installed `{part}` into the file table during teardown"));
                                        }
                                    }
                                }
                            }
                            if !any {
                                out.push(format!("register files-update slot? {res}"));
                            }
                            if ret < 0 {
                                self.fail("C12/direct-sync-release-failed", format!("the synchronous release of a direct descriptor (FILES_UPDATE) failed with {res}{}", if ring_closed { ": the ring descriptor was already closed" } else { "" }));
                            }
                            self.feat("direct/sync-fallback");
                            if self.ring_dropped {
                                self.feat("direct/sync-fallback-after-ring");
                            }
                        }
                        other => out.push(format!("register op{other} {res}")),
                    }
                    if ring_closed {
                        self.after_ring_close += 1;
                    }
                }
                KEv::CloseReq { fd, direct, res, .. } => {
                    let r = if res == 0 { "ok".to_string() } else { errno_name(-res) };
                    if direct {
                        out.push(format!("closereq slot{fd} {r}"));
                        self.slot_released(fd as u32, "a CLOSE request");
                        self.feat("direct/close-request-executed");
                        if self.holders() == 0 {
                            // consumed by the flush of `Drop for Shared`
                            self.feat("direct/close-flushed-by-last-handle");
                        }
                    } else {
                        match self.fd_index(fd) {
                            Some(k) => {
                                out.push(format!("closereq fd{k} {r}"));
                                self.fds[k].close_reqs += 1;
                            }
                            _ => {
                                out.push(format!("closereq unknown:{fd} {r}"));
                                self.fail("C12/foreign-close", format!("a CLOSE request for descriptor {fd}, which is no regular descriptor of the population, was executed"));
                            }
                        }
                    }
                }
                KEv::CloseFd { fd, ret } => {
                    if fd == self.rfd {
                        out.push(if ret == 0 { "close ringfd".to_string() } else { "close ringfd failed".to_string() });
                        self.ring_fd_closes += 1;
                    } else if let Some(k) = self.fd_index(fd) {
                        out.push(format!("close fd{k} {}", if ret == 0 { "ok" } else { "EBADF" }));
                        self.fds[k].close_reqs += 1;
                    } else {
                        out.push(format!("close unknown:{fd}"));
                        self.fail("C12/foreign-close", format!("close(2) of descriptor {fd}, which is no regular descriptor of the population"));
                    }
                }
                KEv::Mmap { off, .. } => out.push(format!("mmap {}", region_of(off))),
                KEv::Munmap { addr, len, known } => {
                    if ring_closed {
                        self.after_ring_close += 1;
                    }
                    match self.maps.iter_mut().find(|m| m.addr == addr) {
                        Some(m) => {
                            m.unmaps += 1;
                            let (region, mlen, n) = (m.region, m.len, m.unmaps);
                            out.push(format!("munmap {region}{}", if known { "" } else { " len-mismatch" }));
                            if !known || len != mlen {
                                self.fail("C12/munmap-length", format!("munmap of the {region} mapping with length {len}, it was mapped with length {mlen}"));
                            }
                            if n > 1 {
                                self.fail("C12/munmap-twice", format!("the {region} mapping was unmapped {n} times"));
                            }
                        }
                        None => out.push("munmap unknown".into()),
                    }
                }
                KEv::BadMemory { seq, what, addr } => {
                    self.fail(&format!("C12/freed-while-in-flight/{what}"), format!("kernel about to touch {what} at {addr:#x} of submission #{seq}, which is no longer the block it was at submission"));
                }
                KEv::FreedState { seq, user_data } => {
                    self.fail("C12/state-freed-before-final-cqe", format!("operation state {user_data:#x} (submission #{seq}) freed before its final completion"));
                }
                KEv::TornEntry { index } => {
                    self.fail("C12/torn-entry", format!("kernel consumed an unwritten submission at slot {index}"));
                }
                _ => {}
            }
        }
        out
    }

    /// Oracle after every op: nothing is released while somebody still holds it.
    fn check_step(&mut self, op: &str) {
        let hits: Vec<(u32, usize)> = std::mem::take(&mut *lockp(&UNMAPPED_HITS));
        if let Some((kind, addr)) = hits.first() {
            self.fail("C12/unmapped-access", format!("`{op}`: a10 accessed the shared word at {addr:#x} (hook kind {kind}) inside a ring mapping that was already unmapped"));
            self.poisoned = true;
        }
        let holders = self.holders();
        let ring_live = self.ring.is_some();
        let mut fails: Vec<(String, String)> = Vec::new();
        for m in &self.maps {
            if m.unmaps == 0 {
                continue;
            }
            if m.region == "cq" && ring_live {
                fails.push(("C12/unmapped-early/cq".into(), format!("`{op}`: the completion ring was unmapped while the Ring exists")));
            }
            if m.region != "cq" && holders > 0 {
                fails.push((format!("C12/unmapped-early/{}", m.region), format!("`{op}`: the {} mapping was unmapped while {holders} handle(s) of the ring are alive", m.region)));
            }
        }
        if self.ring_fd_closes > 0 && holders > 0 {
            fails.push(("C12/ring-fd-closed-early".into(), format!("`{op}`: the ring descriptor was closed while {holders} handle(s) of the ring are alive")));
        }
        if self.had_pool && self.pool_users() > 0 {
            let reg = simk::with_ring(self.rfd, |r, _| !r.pbufs.is_empty());
            let freed = self.pool_blocks.iter().any(|p| p.1 > 0);
            if !reg || freed || self.pool_unregs > 0 {
                fails.push(("C12/pool-released-early".into(), format!("`{op}`: the pool was unregistered / freed while {} object(s) still reference it", self.pool_users())));
            }
        }
        for (k, f) in self.fds.iter().enumerate() {
            if f.slot.is_none() && f.ptr.is_some() && f.close_reqs > 0 {
                fails.push(("C12/fd-closed-early".into(), format!("`{op}`: descriptor fd{k} was closed while its AsyncFd exists")));
            }
        }
        // the file table: a slot holds its file <=> exactly one live owner or one queued CLOSE
        for k in 0..self.fds.len() {
            let Some(j) = self.fds[k].slot else { continue };
            let live = self.fds[k].ptr.is_some();
            let queued = self.queued_slot_closes(j);
            let reg = self.slot_registered(j);
            if live && !reg {
                fails.push(("C12/direct-slot-released-early".into(), format!("`{op}`: slot {j} of the file table was released while its AsyncFd (fd{k}) exists")));
            }
            if live && queued > 0 {
                fails.push(("C12/direct-close-queued-early".into(), format!("`{op}`: a CLOSE for slot {j} is queued while its AsyncFd (fd{k}) exists")));
            }
            if !live && queued > 1 {
                fails.push(("C12/direct-slot-released-twice".into(), format!("`{op}`: {queued} CLOSE requests for slot {j} (fd{k}) are queued")));
            }
            if !live && queued == 0 && reg {
                fails.push(("C12/direct-slot-left-registered".into(), format!("`{op}`: the AsyncFd of direct descriptor fd{k} is gone and no CLOSE is queued for it, but slot {j} of the file table still holds its file (it stays open as long as the ring descriptor)")));
            }
        }
        for j in 0..self.dtab {
            if self.slot_owner(j).is_none() && self.queued_slot_closes(j) > 0 {
                fails.push(("C12/direct-release-wrong-slot".into(), format!("`{op}`: a CLOSE for slot {j}, which belongs to no direct descriptor of the population, is queued")));
            }
        }
        for (sig, what) in fails {
            self.fail(&sig, what);
            self.poisoned = true;
        }
    }

    /// Every completion a10 is about to process must belong to a live
    /// operation state (it dereferences `user_data`).
    fn completions_safe(&mut self) -> bool {
        let cqes: Vec<simk::Cqe> = simk::with_ring(self.rfd, |r, _| {
            let mut v = r.cq_pending();
            v.extend(r.overflow.iter().map(|(_, c)| *c));
            v
        });
        let mut ok = true;
        for c in cqes {
            if c.user_data <= 3 || c.flags & simk::CQE_F_SKIP != 0 {
                continue;
            }
            let addr = (c.user_data & !1) as usize;
            let live = track::block_of(addr);
            let owner = self.ops.iter().position(|o| o.state_addr == Some(addr) && live.map(|b| b.id) == o.state_block);
            if owner.is_none() {
                ok = false;
                self.fail("C12/state-freed-before-final-cqe", format!("a completion for operation state {addr:#x} is pending, but that state has already been freed"));
            }
        }
        ok
    }

    fn make_spec(&self, i: usize, res: i32, flags: u32) -> Option<PostSpec> {
        let ud = self.ops.get(i)?.ud_inflight?;
        let kind = &self.ops[i].kind;
        let mut spec = PostSpec::new(Target::UserData(ud), res, flags);
        if res > 0 && (kind == "read" || pool_kind(kind)) {
            spec.data = Some(vec![0xCD; res as usize]);
            spec.select_buf = pool_kind(kind);
        }
        Some(spec)
    }

    /// Mirrors `postOk` of the model.
    fn res_ok(&self, i: usize, res: i64, flags: u32) -> bool {
        let Some(o) = self.ops.get(i) else { return false };
        let fl_ok = flags == 0
            || (flags == simk::CQE_F_MORE && (o.kind == "mread" || o.kind == "sendzc"))
            || (flags == simk::CQE_F_NOTIF && o.kind == "sendzc");
        !(o.kind == "unlink" && res > 0) && (-4095..=64).contains(&res) && fl_ok
    }

    /// The completion selects a buffer of the pool's ring.
    fn takes_buf(&self, i: usize, res: i64) -> bool {
        res > 0 && self.ops.get(i).is_some_and(|o| pool_kind(&o.kind))
    }

    fn ring_fd_open(&self) -> bool {
        self.ring_fd_closes == 0
    }

    fn fx(&mut self, out: &mut Vec<String>) {
        let mut wakes = util::drain_wakes();
        wakes.sort();
        let (frees, pf) = self.collect_frees();
        out.push(format!("fx wakes={} frees={} pool={pf}", list(&wakes), list(&frees)));
    }

    /// Which object is the last holder of the shared state right now?
    fn last_holder(&self) -> Option<&'static str> {
        if self.holders() != 1 {
            return None;
        }
        if self.ring.is_some() {
            Some("ring")
        } else if self.clones.iter().any(|c| c.is_some()) {
            Some("clone")
        } else if self.fds.iter().any(|f| f.ptr.is_some()) {
            Some("fd")
        } else if self.ops.iter().any(|o| o.kind == "unlink" && o.obj.is_some()) {
            Some("op")
        } else {
            Some("pool")
        }
    }

    fn note_drop(&mut self, what: &str) {
        if self.ring_dropped {
            self.feat(&format!("after-ring/{what}"));
        }
        if let Some(h) = self.last_holder() {
            let unsub = simk::with_ring(self.rfd, |r, _| r.sq_pending());
            self.feat(&format!("last-handle/{h}"));
            if unsub > 0 && h != "ring" {
                self.feat("last-handle-submits");
            }
        }
    }

    fn exec_inner(&mut self, op: &str) -> Vec<String> {
        let t: Vec<&str> = op.split(' ').collect();
        let mut out = Vec::new();
        let bad = || vec!["bad-op".to_string()];
        match t.as_slice() {
            ["teardown", "new", i, kind, fd] => {
                let Some(i) = strict_u64(i).map(|n| n as usize) else { return bad() };
                if i != self.ops.len() || self.ops.len() >= self.max_ops || !KINDS.contains(kind) {
                    return bad();
                }
                let fdi = if *kind == "unlink" {
                    if *fd != "-" {
                        return bad();
                    }
                    0
                } else {
                    let Some(k) = strict_u64(fd).map(|n| n as usize) else { return bad() };
                    k
                };
                let (obj, state): (Box<dyn Pollable>, Option<track::Block>) = if *kind == "unlink" {
                    let sq = match (&self.ring, self.clones.iter().flatten().next()) {
                        (Some(r), _) => r.sq(),
                        (None, Some(c)) => c.0.clone(),
                        (None, None) => return bad(),
                    };
                    let path = PathBuf::from("x");
                    let mark = track::next_id();
                    let fut = a10::fs::remove_file(sq, path);
                    let st = state_block_of(&fut, mark);
                    (Box::new(FutOp { fut: Box::pin(fut), canon: |_: ()| ("0".to_string(), None) }), st)
                } else {
                    let Some(Some(p)) = self.fds.get(fdi).map(|f| f.ptr) else { return bad() };
                    let fd: &'static AsyncFd = unsafe { &*p };
                    match *kind {
                        "read" => {
                            let buf: Vec<u8> = Vec::with_capacity(64);
                            let mark = track::next_id();
                            let fut = fd.read(buf);
                            let st = state_block_of(&fut, mark);
                            (Box::new(FutOp { fut: Box::pin(fut), canon: |b: Vec<u8>| (b.len().to_string(), None) }), st)
                        }
                        "write" => {
                            let buf: Vec<u8> = vec![0x5A; 64];
                            let mark = track::next_id();
                            let fut = fd.write(buf);
                            let st = state_block_of(&fut, mark);
                            (Box::new(FutOp { fut: Box::pin(fut), canon: |n: usize| (n.to_string(), None) }), st)
                        }
                        "sendzc" => {
                            let buf: Vec<u8> = vec![0x7E; 64];
                            let mark = track::next_id();
                            let fut = fd.send(buf).zc();
                            let st = state_block_of(&fut, mark);
                            (Box::new(FutOp { fut: Box::pin(fut), canon: |n: usize| (n.to_string(), None) }), st)
                        }
                        "mread" => {
                            let Some(pool) = self.pool.as_ref() else { return bad() };
                            let pool = pool.clone();
                            let mark = track::next_id();
                            let it = fd.multishot_read(pool);
                            let st = state_block_of(&it, mark);
                            (Box::new(MRead(Box::pin(it))), st)
                        }
                        _ => {
                            let Some(pool) = self.pool.as_ref() else { return bad() };
                            let buf = pool.get();
                            let mark = track::next_id();
                            let fut = fd.read(buf);
                            let st = state_block_of(&fut, mark);
                            (Box::new(FutOp { fut: Box::pin(fut), canon: |b: ReadBuf| (b.len().to_string(), Some(b)) }), st)
                        }
                    }
                };
                if let Some(b) = state {
                    track::watch(b.base);
                    self.addr2op.insert(b.base, i);
                }
                self.feat(&format!("kind/{kind}"));
                self.ops.push(OpSlot {
                    kind: kind.to_string(),
                    multi: *kind == "mread",
                    fd: fdi,
                    obj: Some(obj),
                    state_addr: state.map(|b| b.base),
                    state_block: state.map(|b| b.id),
                    user_data: None,
                    ud_inflight: None,
                    frees: 0,
                    finished: false,
                    late: false,
                    abandoned: false,
                });
                out.push("ok".into());
            }
            ["teardown", "poll", i, w] => {
                let (Some(i), Some(w)) = (strict_u64(i).map(|n| n as usize), strict_u64(w)) else { return bad() };
                if i >= self.ops.len() || self.ops[i].obj.is_none() || w > u32::MAX as u64 {
                    return bad();
                }
                let old_tail = simk::with_ring(self.rfd, |r, _| r.sq_tail());
                let waker = util::waker(w as u32);
                let mut cx = Context::from_waker(&waker);
                let mut obj = self.ops[i].obj.take().unwrap();
                let r = util::catch(|| obj.poll(&mut cx));
                self.ops[i].obj = Some(obj);
                let mut new_buf = None;
                match r {
                    Err(_) => out.push("panic".into()),
                    Ok(None) => out.push("pending".into()),
                    Ok(Some((line, buf))) => {
                        // a stream ends with `None`; its items leave it running
                        if !self.ops[i].multi || line == "ready none" {
                            self.ops[i].finished = true;
                            self.ops[i].ud_inflight = None;
                        }
                        new_buf = buf;
                        out.push(line);
                    }
                }
                let lines = self.new_sqes(old_tail, Some(i));
                if !lines.is_empty() && self.ring_dropped {
                    self.ops[i].late = true;
                    self.feat("late-start");
                }
                if lines.is_empty() && out[0] == "pending" && simk::with_ring(self.rfd, |r, _| r.sq_pending()) >= self.sq_len {
                    self.feat("queue-full");
                }
                out.extend(lines);
                if let Some(b) = new_buf {
                    out.push(format!("buf {}", self.bufs.len()));
                    self.bufs.push(Some(b));
                    self.feat("readbuf-made");
                }
                out.extend(self.events());
                self.fx(&mut out);
            }
            ["teardown", "kpost", i, res] | ["teardown", "kpost", i, res, _] => {
                let (Some(i), Some(res)) = (strict_u64(i).map(|n| n as usize), strict_i64(res)) else { return bad() };
                let Some(flags) = (if t.len() == 5 { parse_flags(t[4]) } else { Some(0) }) else { return bad() };
                if i >= self.ops.len() || !self.ring_fd_open() || !self.res_ok(i, res, flags) {
                    return bad();
                }
                let Some(spec) = self.make_spec(i, res as i32, flags) else {
                    return vec!["miss".into()];
                };
                if simk::with_ring(self.rfd, |r, _| r.find_inflight(&spec.target)).is_none() {
                    return vec!["miss".into()];
                }
                let takes = self.takes_buf(i, res);
                if takes && self.pbuf_left == 0 {
                    return vec!["nobuf".into()];
                }
                let r = simk::with_ring(self.rfd, |r, ev| {
                    r.find_inflight(&spec.target)?;
                    let n = ev.len();
                    r.post(&spec, ev);
                    let overflowed = ev[n..].iter().any(|e| matches!(e, KEv::Posted { overflowed: true, .. }));
                    Some(!overflowed)
                });
                match r {
                    None => out.push("miss".into()),
                    Some(direct) => {
                        if takes {
                            self.pbuf_left -= 1;
                        }
                        if flags & simk::CQE_F_MORE == 0 {
                            self.ops[i].ud_inflight = None;
                        } else {
                            self.feat(&format!("more-completion/{}", self.ops[i].kind));
                        }
                        out.push(if direct { "posted".into() } else { "overflow".into() });
                        if !direct {
                            self.feat("cq-overflow");
                        }
                    }
                }
                self.events();
            }
            ["teardown", "rpoll", posts] => {
                let mut ps: Vec<(usize, i64, u32)> = Vec::new();
                if *posts != "-" {
                    for p in posts.split(',') {
                        let f: Vec<&str> = p.split(':').collect();
                        if f.len() != 2 && f.len() != 3 {
                            return bad();
                        }
                        let (Some(a), Some(b)) = (strict_u64(f[0]), strict_i64(f[1])) else { return bad() };
                        let Some(fl) = (if f.len() == 3 { parse_flags(f[2]) } else { Some(0) }) else { return bad() };
                        ps.push((a as usize, b, fl));
                    }
                }
                if self.ring.is_none() {
                    return bad();
                }
                if !self.completions_safe() {
                    self.poisoned = true;
                    return vec!["unsafe-state".into()];
                }
                let will_enter = simk::with_ring(self.rfd, |r, _| r.cq_count() == 0);
                let mut scripted: Vec<(usize, u64, bool)> = Vec::new();
                if will_enter {
                    let mut specs = Vec::new();
                    // The completions are posted one after the other (as the model does):
                    // one for an operation finalised earlier in this batch misses, one that
                    // needs a pool buffer when none is left is not posted.
                    let mut gone: Vec<usize> = Vec::new();
                    for (i, res, fl) in &ps {
                        if !self.res_ok(*i, *res, *fl) || gone.contains(i) {
                            continue;
                        }
                        if let Some(spec) = self.make_spec(*i, *res as i32, *fl) {
                            let takes = self.takes_buf(*i, *res);
                            if takes && self.pbuf_left == 0 {
                                continue;
                            }
                            if takes {
                                self.pbuf_left -= 1;
                            }
                            let fin = *fl & simk::CQE_F_MORE == 0;
                            if fin {
                                gone.push(*i);
                            }
                            if let Target::UserData(ud) = spec.target {
                                scripted.push((*i, ud, fin));
                            }
                            specs.push(spec);
                        }
                    }
                    simk::with_ring(self.rfd, |r, _| {
                        r.enter_scripts.clear();
                        r.enter_scripts.push_back(simk::EnterScript { post: specs, ..Default::default() });
                    });
                }
                let mut ring = self.ring.take().unwrap();
                let r = util::catch(|| ring.poll(Some(Duration::ZERO)));
                self.ring = Some(ring);
                simk::with_ring(self.rfd, |r, _| r.enter_scripts.clear());
                let evs = simk::with_sim(|s| s.events.clone());
                for (i, ud, fin) in scripted {
                    if evs.iter().any(|e| matches!(e, KEv::Posted { seq: Some(_), cqe, .. } if cqe.user_data == ud)) {
                        if fin {
                            self.ops[i].ud_inflight = None;
                        }
                        self.feat("post-during-enter");
                    }
                }
                out.extend(self.events());
                if r.is_err() {
                    out.push("panic".into());
                } else if let Ok(Err(e)) = &r {
                    out.push(format!("error {}", err_num(e)));
                }
                let head = simk::with_ring(self.rfd, |r, _| r.cq_head());
                out.push(format!("cqhead={head}"));
                self.fx(&mut out);
            }
            ["teardown", "single-last-handle", where_] if matches!(*where_, "same" | "other" | "enabled-elsewhere") => {
                out = self.do_single_last_handle(where_);
            }
            ["teardown", "sqpoll-last-handle"] => {
                out = self.do_sqpoll_last_handle();
            }
            ["teardown", "sqpoll-ring-drop"] => {
                out = self.do_sqpoll_ring_drop();
            }
            ["teardown", "disabled-drop", n] => {
                let Ok(n) = n.parse::<usize>() else { return bad() };
                if !(1..=6).contains(&n) {
                    return bad();
                }
                out = self.do_disabled_drop(n);
            }
            ["teardown", "defer-drop", n, b] => {
                let (Ok(n), Ok(b)) = (n.parse::<usize>(), b.parse::<u32>()) else { return bad() };
                if !(1..=6).contains(&n) || !(1..=4).contains(&b) {
                    return bad();
                }
                out = self.do_defer_drop(n, b);
            }
            ["teardown", "drop", "ring"] => {
                if self.ring.is_none() {
                    return bad();
                }
                if !self.completions_safe() {
                    self.poisoned = true;
                    return vec!["unsafe-state".into()];
                }
                // what the population looks like at this moment
                for i in 0..self.ops.len() {
                    let st = self.status_of(i);
                    self.feat(&format!("at-ring-drop/{st}"));
                    if self.ops[i].kind == "mread" || self.ops[i].kind == "sendzc" {
                        let kind = self.ops[i].kind.clone();
                        let st = if st == "abandoned" && self.ops[i].ud_inflight.is_some() { "abandoned-in-flight" } else { st };
                        self.feat(&format!("at-ring-drop/{kind}/{st}"));
                        let got_more = self.ops[i].ud_inflight.is_some_and(|ud| {
                            simk::with_ring(self.rfd, |r, _| r.inflight.iter().any(|x| x.sqe.user_data == ud && x.posted > 0))
                        });
                        if got_more {
                            // in flight with completions already delivered: a stream with items,
                            // a zero-copy send between its result and its notification
                            self.feat(&format!("at-ring-drop/{kind}/between-completions"));
                        }
                    }
                }
                let (inflight, cq_room) = simk::with_ring(self.rfd, |r, _| {
                    (r.inflight.len() as u32 + r.sq_pending(), r.cq_entries - r.cq_count())
                });
                if inflight > cq_room {
                    self.feat("ring-drop-more-inflight-than-cq");
                }
                if self.holders() > 1 {
                    self.feat("handle-outlives-ring");
                }
                self.note_drop("ring");
                let ring = self.ring.take().unwrap();
                let r = util::catch(move || drop(ring));
                self.ring_dropped = true;
                for o in self.ops.iter_mut() {
                    o.ud_inflight = None;
                }
                let mut ev = self.events();
                let (head, lost) = simk::with_ring(self.rfd, |r, _| (r.cq_head(), r.overflow.len()));
                // the counters as `Completions::drop` left them: right before the CQ ring goes
                let at = ev.iter().position(|l| l == "munmap cq").unwrap_or(ev.len());
                ev.insert(at, format!("cqhead={head} lost={lost}"));
                out.extend(ev);
                if r.is_err() {
                    out.push("panic".into());
                }
                if lost > 0 {
                    self.fail("C12/ring-drop-cq-overflow", format!("{lost} completion(s) were left on the kernel's overflow list when the Ring was dropped"));
                }
                self.fx(&mut out);
            }
            ["teardown", "drop", "clone", k] => {
                let Some(k) = strict_u64(k).map(|n| n as usize) else { return bad() };
                if k >= self.clones.len() || self.clones[k].is_none() {
                    return bad();
                }
                self.note_drop("clone");
                let c = self.clones[k].take();
                let _ = util::catch(move || drop(c));
                out.extend(self.events());
                self.fx(&mut out);
            }
            ["teardown", "drop", "fd", k] | ["teardown", "drop", "dfd", k] => {
                let want_direct = t[2] == "dfd";
                let Some(k) = strict_u64(k).map(|n| n as usize) else { return bad() };
                if k >= self.fds.len() || self.fds[k].ptr.is_none() || self.fds[k].slot.is_some() != want_direct {
                    return bad();
                }
                if self.ops.iter().any(|o| o.kind != "unlink" && o.fd == k && o.obj.is_some()) {
                    return bad();
                }
                self.note_drop("fd");
                let slot = self.fds[k].slot;
                if slot.is_some() {
                    self.feat(if self.ring_dropped { "direct/drop-after-ring" } else { "direct/drop-before-ring" });
                    if self.last_holder() == Some("fd") {
                        self.feat("direct/last-handle");
                    }
                    self.fds[k].dropped_after_ring = self.ring_dropped;
                }
                let old_tail = simk::with_ring(self.rfd, |r, _| r.sq_tail());
                let p = self.fds[k].ptr.take().unwrap();
                let _ = util::catch(move || drop(unsafe { Box::from_raw(p) }));
                let lines = self.new_sqes(old_tail, None);
                if let Some(j) = slot {
                    // whatever this drop published must be the CLOSE of its own slot
                    for l in &lines {
                        if l.starts_with("sqe close") && *l != format!("sqe close slot{j}") {
                            self.fail("C12/direct-release-wrong-slot", format!("dropping the AsyncFd of slot {j} published `{l}`"));
                        }
                    }
                    if lines.iter().any(|l| l.starts_with("sqe close slot")) {
                        self.feat("direct/queued-close");
                        if self.ring_dropped {
                            self.feat("direct/queued-close-after-ring");
                        }
                    }
                }
                out.extend(lines);
                let ev = self.events();
                if ev.iter().any(|l| l.starts_with("close fd")) {
                    self.feat("sync-close-fallback");
                }
                if let Some(j) = slot {
                    for l in &ev {
                        if l.starts_with("register files-update") && !l.starts_with(&format!("register files-update slot{j} ")) {
                            self.fail("C12/direct-release-wrong-slot", format!("dropping the AsyncFd of slot {j} with the submission queue full made the call `{l}` instead of releasing slot {j}"));
                        }
                    }
                }
                out.extend(ev);
                self.fx(&mut out);
            }
            ["teardown", "drop", "op", i] => {
                let Some(i) = strict_u64(i).map(|n| n as usize) else { return bad() };
                if i >= self.ops.len() || self.ops[i].obj.is_none() {
                    return bad();
                }
                let st = self.status_of(i);
                self.feat(&format!("op-drop/{st}"));
                if self.ops[i].kind == "unlink" {
                    self.note_drop("op");
                } else if self.ring_dropped {
                    self.feat("after-ring/fd-op");
                }
                let old_tail = simk::with_ring(self.rfd, |r, _| r.sq_tail());
                let obj = self.ops[i].obj.take();
                self.ops[i].abandoned = self.ops[i].ud_inflight.is_some() || (self.ops[i].late && !self.ops[i].finished);
                let _ = util::catch(move || drop(obj));
                let lines = self.new_sqes(old_tail, None);
                out.extend(lines);
                out.extend(self.events());
                self.fx(&mut out);
            }
            ["teardown", "drop", "pool"] => {
                if self.pool.is_none() {
                    return bad();
                }
                if self.ring_dropped {
                    self.feat("after-ring/pool");
                }
                if self.pool_users() == 1 {
                    self.note_drop("pool");
                }
                let p = self.pool.take();
                let _ = util::catch(move || drop(p));
                out.extend(self.events());
                self.fx(&mut out);
            }
            ["teardown", "drop", "buf", j] => {
                let Some(j) = strict_u64(j).map(|n| n as usize) else { return bad() };
                if j >= self.bufs.len() || self.bufs[j].is_none() {
                    return bad();
                }
                if self.ring_dropped {
                    self.feat("after-ring/buf");
                }
                if self.pool_users() == 1 {
                    self.note_drop("pool");
                }
                let b = self.bufs[j].take();
                let _ = util::catch(move || drop(b));
                out.extend(self.events());
                self.fx(&mut out);
            }
            _ => return bad(),
        }
        out
    }

    /// The ledger after the last drop.
    fn final_ledger(&mut self) {
        // The known exception: an operation first submitted after the Ring was
        // dropped, whose future was then dropped while Running.
        let mut late_pool = false;
        let mut fails: Vec<(String, String)> = Vec::new();
        for (i, o) in self.ops.iter().enumerate() {
            if o.state_addr.is_none() {
                continue;
            }
            if o.frees == 0 {
                if o.late {
                    late_pool |= pool_kind(&o.kind);
                    fails.push((
                        format!("C12/op-started-after-ring-drop/{}", o.kind),
                        format!("op{i} ({}) was submitted after the Ring had been dropped and its future was dropped while Running: nobody processes completions any more, its state box is never reclaimed", o.kind),
                    ));
                } else {
                    fails.push((format!("C12/state-leaked/{}", o.kind), format!("state of op{i} ({}) was never freed although its future, the Ring and every handle were dropped", o.kind)));
                }
            } else if o.frees > 1 {
                fails.push(("C12/double-free/state".into(), format!("state of op{i} freed {} times", o.frees)));
            }
        }
        if !late_pool {
            // mappings
            let still: Vec<(usize, (i32, i64, usize))> = simk::with_sim(|s| s.mappings.iter().map(|(a, m)| (*a, *m)).collect());
            for (_, (_, off, _)) in &still {
                fails.push((format!("C12/mapping-leaked/{}", region_of(*off)), format!("the {} mapping is still mapped after the last drop", region_of(*off))));
            }
            if self.maps.len() != 3 {
                fails.push(("C12/mapping-count".into(), format!("{} mappings of the ring descriptor were made, expected 3", self.maps.len())));
            }
            for m in &self.maps {
                if m.unmaps != 1 && !still.iter().any(|(a, _)| *a == m.addr) {
                    fails.push((format!("C12/munmap-count/{}", m.region), format!("the {} mapping was unmapped {} times", m.region, m.unmaps)));
                }
            }
            // the ring descriptor: closed exactly once, last
            if self.ring_fd_closes != 1 {
                fails.push(("C12/ring-fd-not-closed".into(), format!("the ring descriptor was closed {} times after the last drop", self.ring_fd_closes)));
            } else if self.after_ring_close > 0 {
                fails.push(("C12/ring-fd-not-last".into(), format!("{} system call(s) on the ring / unmaps happened after the ring descriptor was closed", self.after_ring_close)));
            }
            let open = unsafe { libc::fcntl(self.rfd, libc::F_GETFD) } != -1;
            if open && self.ring_fd_closes == 1 {
                fails.push(("C12/ring-fd-not-closed".into(), "the ring descriptor is still open".into()));
            }
            // regular descriptors
            for (k, f) in self.fds.iter().enumerate() {
                if f.slot.is_some() {
                    continue;
                }
                let open = unsafe { libc::fcntl(f.raw, libc::F_GETFD) } != -1;
                if open {
                    fails.push(("C12/fd-left-open".into(), format!("descriptor fd{k} ({}) is still open after its AsyncFd, the Ring and every handle were dropped", f.raw)));
                } else if f.close_reqs != 1 {
                    fails.push(("C12/fd-close-count".into(), format!("descriptor fd{k} was closed {} times", f.close_reqs)));
                }
            }
            // submissions all consumed
            let pending = simk::with_ring(self.rfd, |r, _| r.sq_pending());
            if pending > 0 {
                fails.push(("C12/submissions-left".into(), format!("{pending} queued submission(s) were never submitted")));
            }
            // the pool
            if self.had_pool {
                let reg = simk::with_ring(self.rfd, |r, _| r.pbufs.len());
                if reg > 0 || self.pool_unregs != 1 {
                    fails.push(("C12/pool-registration-left".into(), format!("buffer group still registered: {reg}, unregister calls: {}", self.pool_unregs)));
                }
                if self.pool_blocks.len() != 2 {
                    fails.push(("C12/pool-alloc-count".into(), format!("{} page-aligned pool allocations found, expected 2", self.pool_blocks.len())));
                }
                for (id, n) in &self.pool_blocks {
                    if *n != 1 {
                        fails.push(("C12/pool-alloc-leaked".into(), format!("pool allocation #{id} was freed {n} times")));
                    }
                }
            }
        }
        // direct descriptors: every slot of the population released exactly once, the table
        // empty when the ring descriptor (with which the kernel destroys it) was closed.
        // (With the known late pool read `Shared` is never dropped: a CLOSE still queued
        // is part of that finding.)
        for k in 0..self.fds.len() {
            let Some(j) = self.fds[k].slot else { continue };
            if late_pool && self.queued_slot_closes(j) > 0 {
                continue;
            }
            let n = self.fds[k].close_reqs;
            if self.slot_registered(j) {
                fails.push(("C12/direct-slot-left-registered".into(), format!("slot {j} of the file table (direct descriptor fd{k}) still holds its file after its AsyncFd, the Ring and every handle were dropped ({n} release requests were executed for it)")));
            } else if n != 1 {
                fails.push(("C12/direct-slot-release-count".into(), format!("slot {j} (direct descriptor fd{k}) was released {n} times")));
            }
        }
        let reg_left: Vec<usize> = simk::with_ring(self.rfd, |r, _| {
            r.files.as_ref().map(|f| f.iter().enumerate().filter(|(_, s)| s.is_some()).map(|(i, _)| i).collect()).unwrap_or_default()
        });
        for j in reg_left {
            if self.slot_owner(j as u32).is_none() {
                fails.push(("C12/direct-table-not-empty".into(), format!("slot {j} of the file table holds a file nobody of the population put there")));
            }
        }
        for (sig, what) in fails {
            self.fail(&sig, what);
        }
    }
}

/// Open a DIRECT descriptor through the public API on the still idle ring: the
/// simulated kernel registers a file in slot `slot` of the table and answers the
/// OPENAT (`file_index = IORING_FILE_INDEX_ALLOC`) with that index.
fn open_direct(ring: &mut Ring, rfd: i32, slot: u32) -> Option<AsyncFd> {
    let fut = a10::fs::OpenOptions::new().kind(a10::fd::Kind::Direct).open(ring.sq(), "/dev/null".into());
    let mut fut = Box::pin(fut);
    let waker = util::waker(u32::MAX);
    let mut cx = Context::from_waker(&waker);
    if fut.as_mut().poll(&mut cx).is_ready() {
        return None;
    }
    let ok = simk::with_ring(rfd, |r, _| {
        let Some(files) = r.files.as_mut() else { return false };
        let Some(s) = files.get_mut(slot as usize) else { return false };
        if s.is_some() {
            return false;
        }
        *s = Some(1);
        r.enter_scripts.clear();
        r.enter_scripts.push_back(simk::EnterScript { post: vec![PostSpec::new(Target::Nth(0), slot as i32, 0)], ..Default::default() });
        true
    });
    if !ok {
        return None;
    }
    ring.poll(Some(Duration::ZERO)).ok()?;
    simk::with_ring(rfd, |r, _| r.enter_scripts.clear());
    match fut.as_mut().poll(&mut cx) {
        Poll::Ready(Ok(fd)) if matches!(fd.kind(), a10::fd::Kind::Direct) => Some(fd),
        _ => None,
    }
}

/// The operation's state box: the future holds a pointer to it, and it is the
/// only allocation made after `mark` that the future points to (the `AsyncFd`
/// / `SubmissionQueue` it also points to are older). Verified at the first
/// submission (`user_data` must be this address).
fn state_block_of<F>(fut: &F, mark: u64) -> Option<track::Block> {
    let n = std::mem::size_of_val(fut) / std::mem::size_of::<usize>();
    let p = std::ptr::from_ref(fut).cast::<usize>();
    for k in 0..n {
        let w = unsafe { p.add(k).read_unaligned() };
        if w == 0 {
            continue;
        }
        if let Some(b) = track::block_of(w) {
            if b.base == w && b.id >= mark {
                return Some(b);
            }
        }
    }
    None
}

impl Case for TdCase {
    fn begin_output(&mut self) -> Vec<String> {
        self.begin_lines.clone()
    }

    fn next_op(&mut self, rng: &mut Rng) -> Option<String> {
        if !self.valid || self.poisoned {
            return None;
        }
        let live_ops: Vec<usize> = (0..self.ops.len()).filter(|i| self.ops[*i].obj.is_some()).collect();
        let pollable: Vec<usize> = live_ops.iter().copied().filter(|i| !self.ops[*i].finished).collect();
        let inflight: Vec<usize> = if self.ring_fd_open() {
            simk::with_ring(self.rfd, |r, _| {
                r.inflight.iter().filter_map(|inf| self.ops.iter().position(|o| o.ud_inflight == Some(inf.sqe.user_data))).collect()
            })
        } else {
            Vec::new()
        };
        let live_fds: Vec<usize> = (0..self.fds.len()).filter(|k| self.fds[*k].ptr.is_some()).collect();
        let live_clones: Vec<usize> = (0..self.clones.len()).filter(|k| self.clones[*k].is_some()).collect();
        let live_bufs: Vec<usize> = (0..self.bufs.len()).filter(|k| self.bufs[*k].is_some()).collect();
        // a ring with a kernel thread / a single-issuer ring, on the side
        if rng.chance(1, 40) {
            return Some("teardown sqpoll-last-handle".into());
        }
        if rng.chance(1, 40) {
            return Some(format!("teardown defer-drop {} {}", rng.range(1, 6), rng.range(1, 4)));
        }
        if rng.chance(1, 80) {
            return Some(format!("teardown disabled-drop {}", rng.range(1, 6)));
        }
        if rng.chance(1, 80) {
            return Some("teardown sqpoll-ring-drop".into());
        }
        if rng.chance(1, 60) {
            return Some(format!("teardown single-last-handle {}", rng.pick(&["same", "other", "enabled-elsewhere"])));
        }
        // malformed stream
        if rng.chance(1, 30) {
            let n = self.ops.len() as u64 + 2;
            return Some(match rng.below(12) {
                0 => format!("teardown poll {} 99", rng.below(n)),
                1 => format!("teardown drop op {}", rng.below(n)),
                2 => format!("teardown kpost {} 1", rng.below(n)),
                3 => format!("teardown drop {} {}", if rng.chance(1, 2) { "fd" } else { "dfd" }, rng.below(self.fds.len() as u64 + 1)),
                4 => format!("teardown drop clone {}", rng.below(self.clones.len() as u64 + 1)),
                5 => format!("teardown drop buf {}", rng.below(self.bufs.len() as u64 + 1)),
                6 => "teardown drop pool".into(),
                7 => "teardown rpoll -".into(),
                8 => "teardown drop ring".into(),
                9 => format!("teardown new {} pread {}", self.ops.len(), rng.below(self.fds.len() as u64 + 1)),
                10 => format!("teardown new {} unlink -", self.ops.len() + rng.below(2) as usize),
                _ => "teardown drop everything".into(),
            });
        }
        if !self.tearing {
            if self.steps_left == 0 {
                self.tearing = true;
            } else {
                self.steps_left -= 1;
            }
        }
        let everything_gone = self.ring.is_none() && live_ops.is_empty() && live_fds.is_empty() && live_clones.is_empty() && live_bufs.is_empty() && self.pool.is_none();
        if everything_gone {
            return None;
        }
        // drop candidates (an AsyncFd only after the futures borrowing it)
        let mut drops: Vec<String> = Vec::new();
        if self.ring.is_some() {
            drops.push("teardown drop ring".into());
        }
        for k in &live_clones {
            drops.push(format!("teardown drop clone {k}"));
        }
        for k in &live_fds {
            if !self.ops.iter().any(|o| o.kind != "unlink" && o.fd == *k && o.obj.is_some()) {
                drops.push(format!("teardown drop {} {k}", if self.fds[*k].slot.is_some() { "dfd" } else { "fd" }));
            }
        }
        for i in &live_ops {
            drops.push(format!("teardown drop op {i}"));
        }
        if self.pool.is_some() {
            drops.push("teardown drop pool".into());
        }
        for j in &live_bufs {
            drops.push(format!("teardown drop buf {j}"));
        }
        let can_new = self.ops.len() < self.max_ops && (!live_fds.is_empty() || self.ring.is_some() || !live_clones.is_empty());
        let after = self.ring_dropped;
        let (w_new, w_poll, w_kpost, w_rpoll, w_drop) = if !self.tearing {
            (
                if can_new { 6 } else { 0 },
                if pollable.is_empty() { 0 } else if after { if rng.chance(1, 3) { 1 } else { 0 } } else { 8 },
                if inflight.is_empty() { 0 } else { 6 + 3 * inflight.len() as u64 },
                if self.ring.is_some() { 5 } else { 0 },
                2,
            )
        } else {
            (
                if can_new && !after { 1 } else { 0 },
                if pollable.is_empty() { 0 } else if after { if rng.chance(1, 4) { 1 } else { 0 } } else { 3 },
                if inflight.is_empty() { 0 } else { 2 + 2 * inflight.len() as u64 },
                if self.ring.is_some() { 2 } else { 0 },
                10,
            )
        };
        // Finish what is in progress more often than chance would: results waiting
        // to be polled, completions waiting to be processed.
        let ready: Vec<usize> = pollable.iter().copied().filter(|i| self.status_of(*i) == "done-unpolled").collect();
        if !ready.is_empty() && !after && rng.chance(1, 2) {
            let i = *rng.pick(&ready);
            return Some(format!("teardown poll {i} {}", i as u64 * 10));
        }
        // a direct descriptor dropped while the submission queue is full takes the
        // synchronous FILES_UPDATE path: take that opportunity more often than chance would
        let sq_full = self.ring_fd_open() && simk::with_ring(self.rfd, |r, _| r.sq_pending()) >= self.sq_len;
        let direct_drops: Vec<&String> = drops.iter().filter(|d| d.starts_with("teardown drop dfd")).collect();
        if sq_full && !direct_drops.is_empty() && rng.chance(1, 3) {
            return Some((*rng.pick(&direct_drops)).clone());
        }
        let cq_waiting = self.ring.is_some() && simk::with_ring(self.rfd, |r, _| r.cq_count() > 0 || !r.overflow.is_empty());
        if cq_waiting && rng.chance(1, 5) {
            return Some("teardown rpoll -".into());
        }
        match rng.weighted(&[w_new, w_poll, w_kpost, w_rpoll, w_drop]) {
            0 => {
                let mut kinds: Vec<&str> = Vec::new();
                if !live_fds.is_empty() {
                    kinds.extend(["read", "write", "read", "sendzc"]);
                    if self.pool.is_some() {
                        kinds.extend(["pread", "pread", "mread", "mread"]);
                    }
                }
                if self.ring.is_some() || !live_clones.is_empty() {
                    kinds.push("unlink");
                }
                let kind = *rng.pick(&kinds);
                if kind == "unlink" {
                    Some(format!("teardown new {} unlink -", self.ops.len()))
                } else {
                    Some(format!("teardown new {} {kind} {}", self.ops.len(), rng.pick(&live_fds)))
                }
            }
            1 => {
                let i = *rng.pick(&pollable);
                Some(format!("teardown poll {i} {}", i as u64 * 10 + rng.below(2)))
            }
            2 => {
                let i = *rng.pick(&inflight);
                let (res, fl) = self.gen_res(rng, i);
                Some(if fl.is_empty() { format!("teardown kpost {i} {res}") } else { format!("teardown kpost {i} {res} {fl}") })
            }
            3 => {
                let mut posts = Vec::new();
                if rng.chance(1, 3) && !self.ops.is_empty() {
                    for _ in 0..rng.range(1, 2) {
                        let i = rng.below(self.ops.len() as u64) as usize;
                        let (res, fl) = self.gen_res(rng, i);
                        posts.push(if fl.is_empty() { format!("{i}:{res}") } else { format!("{i}:{res}:{fl}") });
                    }
                }
                Some(format!("teardown rpoll {}", if posts.is_empty() { "-".to_string() } else { posts.join(",") }))
            }
            _ => Some(rng.pick(&drops).clone()),
        }
    }

    fn exec(&mut self, op: &str) -> Vec<String> {
        if !self.valid {
            return vec!["bad-op".into()];
        }
        if self.poisoned {
            return vec!["unsafe-state".into()];
        }
        let out = self.exec_inner(op);
        // events of ops that do not print them must not leak into the next op
        simk::drain_events();
        if out.first().map(|s| s.as_str()) != Some("bad-op") {
            self.check_step(op);
        }
        out
    }

    fn drain_oracle(&mut self) -> Vec<(String, String, String)> {
        std::mem::take(&mut self.oracle)
    }

    fn finish(&mut self) -> CaseReport {
        if !self.valid {
            return CaseReport::default();
        }
        if self.poisoned || !self.completions_safe() {
            // Memory is in an unsafe state: leak everything rather than run a10 code on it.
            for o in self.ops.iter_mut() {
                std::mem::forget(o.obj.take());
            }
            for b in self.bufs.iter_mut() {
                std::mem::forget(b.take());
            }
            std::mem::forget(self.pool.take());
            for c in self.clones.iter_mut() {
                std::mem::forget(c.take());
            }
            std::mem::forget(self.ring.take());
            a10::verif::set_hook(None);
            simk::drain_events();
            util::drain_wakes();
            track::drain_frees();
            track::drain_double_frees();
            simk::deactivate();
            simk::with_sim(|s| {
                let fds: Vec<i32> = s.rings.keys().copied().collect();
                for fd in fds {
                    std::mem::forget(s.rings.remove(&fd));
                }
                s.mappings.clear();
                s.unmapped.clear();
            });
            let features = std::mem::take(&mut self.feats);
            return CaseReport { oracle: std::mem::take(&mut self.oracle), features, nontrivial: true };
        }
        // Drop whatever the script left behind (truncated replays), in a fixed order.
        let complete = self.ring.is_none()
            && self.ops.iter().all(|o| o.obj.is_none())
            && self.fds.iter().all(|f| f.ptr.is_none())
            && self.clones.iter().all(|c| c.is_none())
            && self.bufs.iter().all(|b| b.is_none())
            && self.pool.is_none();
        if complete {
            self.feat("all-dropped-by-script");
        }
        for i in 0..self.ops.len() {
            if let Some(obj) = self.ops[i].obj.take() {
                let _ = util::catch(move || drop(obj));
            }
        }
        for j in 0..self.bufs.len() {
            if let Some(b) = self.bufs[j].take() {
                let _ = util::catch(move || drop(b));
            }
        }
        if let Some(p) = self.pool.take() {
            let _ = util::catch(move || drop(p));
        }
        for k in 0..self.fds.len() {
            if let Some(p) = self.fds[k].ptr.take() {
                let _ = util::catch(move || drop(unsafe { Box::from_raw(p) }));
            }
        }
        for k in 0..self.clones.len() {
            if let Some(c) = self.clones[k].take() {
                let _ = util::catch(move || drop(c));
            }
        }
        if let Some(ring) = self.ring.take() {
            if self.completions_safe() {
                let _ = util::catch(move || drop(ring));
            } else {
                std::mem::forget(ring);
            }
        }
        self.events();
        self.collect_frees();
        self.check_step("end of case");
        self.final_ledger();
        // Clean up what a10 left behind so the next case starts from a clean process.
        a10::verif::set_hook(None);
        for f in &self.fds {
            if f.slot.is_none() && unsafe { libc::fcntl(f.raw, libc::F_GETFD) } != -1 {
                unsafe { libc::close(f.raw) };
            }
        }
        let still: Vec<(usize, usize)> = simk::with_sim(|s| s.mappings.iter().map(|(a, m)| (*a, m.2)).collect());
        for (a, l) in still {
            unsafe { libc::munmap(a as *mut libc::c_void, l) };
        }
        simk::drain_events();
        util::drain_wakes();
        track::drain_frees();
        track::drain_double_frees();
        simk::reset();
        track::release_quarantine();
        let mut features = std::mem::take(&mut self.feats);
        features.sort();
        let nontrivial = features.iter().any(|f| {
            f == "handle-outlives-ring" || f.starts_with("after-ring/") || f == "at-ring-drop/in-flight" || f == "at-ring-drop/abandoned" || f == "at-ring-drop/published"
        });
        CaseReport { oracle: std::mem::take(&mut self.oracle), features, nontrivial }
    }
}

impl TdCase {
    /// A result the kernel could post for operation `i`: `(res, flags token)`.
    fn gen_res(&mut self, rng: &mut Rng, i: usize) -> (i64, &'static str) {
        let errs = [-(libc::EINTR as i64), -(libc::ECANCELED as i64), -(libc::EIO as i64), -(libc::EAGAIN as i64)];
        let Some(o) = self.ops.get(i) else { return (1, "") };
        if o.kind == "unlink" {
            return (if rng.chance(2, 3) { 0 } else { *rng.pick(&errs) }, "");
        }
        // completions already posted for the submission in flight
        let posted = if self.ring_fd_open() {
            simk::with_ring(self.rfd, |r, _| {
                o.ud_inflight.and_then(|ud| r.inflight.iter().find(|x| x.sqe.user_data == ud).map(|x| x.posted)).unwrap_or(0)
            })
        } else {
            0
        };
        if o.kind == "sendzc" {
            // result with F_MORE, then the notification; or a plain error
            return if posted >= 1 {
                (0, "n")
            } else {
                match rng.weighted(&[6, 2, 1]) {
                    0 => (rng.range(1, 64) as i64, "m"),
                    1 => (*rng.pick(&errs), ""),
                    _ => (*rng.pick(&errs[..2]), "m"),
                }
            };
        }
        if o.kind == "mread" {
            let merrs = [-(libc::ECANCELED as i64), -(libc::EINTR as i64), -(libc::ENOBUFS as i64), -(libc::EIO as i64)];
            return match rng.weighted(&[8, 2, 2, 1]) {
                0 => (rng.range(1, 64) as i64, "m"),
                1 => (0, ""),
                2 => (*rng.pick(&merrs), ""),
                _ => (rng.range(1, 64) as i64, ""),
            };
        }
        match rng.weighted(&[7, 1, 3]) {
            0 => (rng.range(1, 64) as i64, ""),
            1 => (0, ""),
            _ => (*rng.pick(&errs), ""),
        }
    }
}

impl Comp for TeardownComp {
    fn name(&self) -> &'static str {
        "teardown"
    }
    fn rule(&self) -> String {
        "each case = one ring (sq in {1,2,4}, cq in {sq..4sq}, random initial 32-bit counters) with 0-2 extra SubmissionQueue clones, 1-4 AsyncFds (in half of the cases the ring has a registered-file table and a non-empty subset of them are DIRECT descriptors opened through the public API before the script starts; they are dropped before/after the Ring, with the queue full = synchronous FILES_UPDATE fallback, or not = queued CLOSE with file_index), optionally a ReadBufPool, up to 8 real operations (read, write, pool read, remove_file = a future owning its own SubmissionQueue, MULTISHOT read with the pool = a stream whose items are ReadBufs, ZERO-COPY send = two completions); a random activity phase (new/poll/kpost/rpoll with completions posted during enter, early drops) followed by dropping EVERY remaining object in a random order (an AsyncFd only after the futures borrowing it), still interleaved with polls, completions and Ring::poll; plus a malformed stream (unknown / dead objects, drops the borrow checker forbids). non-trivial = some handle (clone, AsyncFd, pool, ReadBuf, future) is dropped after the Ring, or the Ring is dropped with published / in-flight / abandoned operations; distinct = distinct op scripts".into()
    }
    fn gen_header(&mut self, rng: &mut Rng, id: u64, _tier: &str) -> String {
        let sq = *rng.pick(&[1u32, 2, 2, 4]);
        let cq = sq * *rng.pick(&[1u32, 1, 2, 4]);
        let ctr = |rng: &mut Rng| -> u32 {
            match rng.below(4) {
                0 => 0,
                1 => 1 << 31,
                _ => u32::MAX - rng.below(6) as u32,
            }
        };
        let (cqh, sqh, clones) = (ctr(rng), ctr(rng), rng.below(3));
        // half of the cases have direct descriptors: 1-4 descriptors, a random non-empty
        // subset of them direct (descriptor k = slot k), in a table with 0-2 spare slots
        let direct = rng.chance(1, 2);
        let fds = if direct { rng.range(1, 4) } else { rng.range(1, 3) };
        let pool = if rng.chance(2, 3) { 1 } else { 0 };
        let steps = rng.range(4, 36);
        let mut h = format!("teardown begin {id} sq={sq} cq={cq} cqh={cqh} sqh={sqh} clones={clones} fds={fds} pool={pool} maxops=8 steps={steps}");
        if direct {
            let dmask = rng.range(1, (1 << fds) - 1);
            let bits = 64 - dmask.leading_zeros() as u64;
            let dtab = bits + rng.below(3);
            h.push_str(&format!(" dmask={dmask} dtab={dtab}"));
        }
        h
    }
    fn begin(&mut self, header: &str) -> Box<dyn Case> {
        Box::new(TdCase::new(header))
    }
}
