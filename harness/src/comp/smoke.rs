//! Smoke test of the simulated kernel: one write through the real a10 code.

use std::future::Future;
use std::pin::Pin;
use std::task::{Context, Poll};
use std::time::Duration;

use crate::simk::{self, KEv, PostSpec, Target};
use crate::util;
use crate::Args;

pub fn run(_a: &Args) -> i32 {
    simk::activate(simk::SetupCfg { sq_head0: u32::MAX - 1, cq_head0: 7, ..Default::default() });
    let mut ring = a10::Ring::config().with_submission_queue_size(4).build().expect("build");
    let sq = ring.sq();
    let rfd = simk::with_sim(|s| *s.rings.keys().next().unwrap());
    let fd = unsafe { a10::AsyncFd::from_raw_fd(simk::with_ring(rfd, |r, _| r.fresh_fd()), sq.clone()) };
    let mut fut = Box::pin(fd.write(b"hello w".to_vec()));
    let w = util::waker(1);
    let mut cx = Context::from_waker(&w);
    println!("poll1: {:?}", Pin::new(&mut fut).poll(&mut cx).map(|r| r.map_err(|e| e.to_string())));
    simk::with_ring(rfd, |r, _| {
        r.enter_scripts.push_back(simk::EnterScript {
            post: vec![PostSpec::new(Target::Nth(0), 7, 0)],
            ..Default::default()
        })
    });
    println!("ring.poll: {:?}", ring.poll(Some(Duration::ZERO)).map_err(|e| e.to_string()));
    println!("wakes: {:?}", util::drain_wakes());
    println!("poll2: {:?}", Pin::new(&mut fut).poll(&mut cx).map(|r| r.map_err(|e| e.to_string())));
    drop(fut);
    drop(fd);
    drop(ring);
    drop(sq);
    for e in simk::drain_events() {
        match e {
            KEv::Consumed { seq, sqe } => println!("consumed seq={seq} op={} ud={:#x}", simk::opcode_name(sqe.opcode), sqe.user_data),
            other => println!("{other:?}"),
        }
    }
    simk::reset();
    0
}
