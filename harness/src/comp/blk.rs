//! C03 (part b): futures blocked on a full submission queue are woken once
//! room is available, with the futures and the Ring on different threads.
//!
//! N real operations are polled by worker threads on a small queue; the ring
//! thread calls `Ring::poll(Some(0))`; nothing ever completes, so every wake-up
//! has to come from `wake_blocked_futures`. Interleaved at the loads of the
//! queue words, the submission / blocked-list locks and the kernel entry.

use std::future::Future;
use std::pin::Pin;
use std::sync::{Arc, Mutex};
use std::task::{Context, Poll};
use std::time::Duration;

use a10::{AsyncFd, Ring, SubmissionQueue};

use crate::comp::{Case, CaseReport, Comp};
use crate::sched::{self, Status};
use crate::simk;
use crate::util::{self, lockp, Rng};

pub struct BlkComp;

type Fut = Pin<Box<dyn Future<Output = std::io::Result<usize>> + Send>>;

struct FutSlot {
    fut: Arc<Mutex<Option<Fut>>>,
    /// worker of the poll in progress
    tid: Option<usize>,
    loads: u32,
    locks: u32,
    label: String,
}

struct RingWorker {
    /// `Ring::poll(None)`
    inf: bool,
    /// futures that were registered for a slot when the call started
    registered_at_start: Vec<usize>,
    tid: usize,
    /// 0 = before the kernel entry, 1 = after it (inside wake_blocked_futures), 2 = past it
    phase: u32,
    loads: u32,
    label: String,
}

struct BlkCase {
    ring: Arc<Mutex<Option<Ring>>>,
    sq: Option<SubmissionQueue>,
    fd: Option<&'static AsyncFd>,
    rfd: i32,
    len: u32,
    ok: bool,
    futs: Vec<FutSlot>,
    rw: Option<RingWorker>,
    sub_lock: usize,
    woken: Vec<u32>,
    steps_left: u32,
    oracle: Vec<(String, String, String)>,
    feats: Vec<String>,
    /// futures whose waker sits in the blocked list (by our own accounting): index -> since which poll count
    registered: Vec<bool>,
    polls_done: u64,
    /// poll count at which each future registered (for the bounded-response oracle)
    reg_at: Vec<u64>,
}

static CALIB: Mutex<Vec<(u32, usize)>> = Mutex::new(Vec::new());
fn calib_hook(kind: u32, addr: usize) {
    lockp(&CALIB).push((kind, addr));
}

impl BlkCase {
    fn new(header: &str) -> BlkCase {
        let t: Vec<&str> = header.split(' ').collect();
        let get = |k: &str| -> Option<u64> { t.iter().find_map(|x| x.strip_prefix(&format!("{k}="))).and_then(|v| v.parse().ok()) };
        let len = get("len").unwrap_or(0);
        let n = get("n").unwrap_or(0);
        let steps = get("steps").unwrap_or(60) as u32;
        let ok = len.is_power_of_two() && len <= 16 && (1..=8).contains(&n);
        simk::reset();
        let mut c = BlkCase {
            ring: Arc::new(Mutex::new(None)),
            sq: None,
            fd: None,
            rfd: -1,
            len: len as u32,
            ok,
            futs: Vec::new(),
            rw: None,
            sub_lock: 0,
            woken: Vec::new(),
            steps_left: steps,
            oracle: Vec::new(),
            feats: Vec::new(),
            registered: vec![false; n as usize],
            polls_done: 0,
            reg_at: vec![0; n as usize],
        };
        if !ok {
            return c;
        }
        simk::activate(simk::SetupCfg::default());
        // `kt=1`: a ring with a kernel thread (SQPOLL). The simulated thread is the deterministic one
        // (`simk::SQPOLL_EAGER`, as in the `life` component): it takes what is published at every
        // enter and is idle in between, so the model is the same.
        let kt = get("kt") == Some(1);
        simk::SQPOLL_EAGER.store(kt, std::sync::atomic::Ordering::SeqCst);
        let cfg = Ring::config().with_submission_queue_size(len as u32).with_completion_queue_size(64);
        let cfg = if kt { cfg.with_kernel_thread() } else { cfg };
        let mut ring = cfg.build().expect("ring");
        simk::SQPOLL_EAGER.store(false, std::sync::atomic::Ordering::SeqCst);
        if kt {
            c.feats.push("kernel-thread".into());
        }
        let sq = ring.sq();
        c.rfd = simk::with_sim(|s| *s.rings.keys().next().unwrap());
        let raw = simk::with_ring(c.rfd, |r, _| r.fresh_fd());
        let fd: &'static AsyncFd = Box::leak(Box::new(unsafe { AsyncFd::from_raw_fd(raw, sq.clone()) }));
        // Calibration: learn the address of the submission lock (second LOCK of a
        // poll that finds room), then let the kernel consume that entry.
        lockp(&CALIB).clear();
        a10::verif::set_hook(Some(calib_hook));
        let mut cal: Fut = Box::pin(fd.write(vec![1u8; 8]));
        let w = util::waker(999);
        let mut cx = Context::from_waker(&w);
        let _ = cal.as_mut().poll(&mut cx);
        a10::verif::set_hook(None);
        let locks: Vec<usize> = lockp(&CALIB).iter().filter(|(k, _)| *k == sched::LOCK).map(|(_, a)| *a).collect();
        c.sub_lock = locks.get(1).copied().unwrap_or(0);
        let _ = ring.poll(Some(Duration::ZERO));
        std::mem::forget(cal); // stays in flight forever; its state is leaked on purpose
        for i in 0..n {
            let f: Fut = Box::pin(fd.write(vec![i as u8; 8]));
            c.futs.push(FutSlot { fut: Arc::new(Mutex::new(Some(f))), tid: None, loads: 0, locks: 0, label: String::new() });
        }
        c.sq = Some(sq);
        c.fd = Some(fd);
        *lockp(&c.ring) = Some(ring);
        sched::install();
        for i in 0..n as usize {
            c.start_poll_of(i);
        }
        simk::drain_events();
        util::drain_wakes();
        c
    }

    fn start_poll_of(&mut self, i: usize) {
        let slot = self.futs[i].fut.clone();
        let id = i as u32;
        let tid = sched::spawn(move || {
            let mut f = lockp(&slot).take().expect("future in use");
            let w = util::waker(id);
            let mut cx = Context::from_waker(&w);
            let r = f.as_mut().poll(&mut cx);
            *lockp(&slot) = Some(f);
            match r {
                Poll::Pending => "pending".into(),
                Poll::Ready(_) => "ready".into(),
            }
        });
        self.futs[i].tid = Some(tid);
        self.futs[i].loads = 0;
        self.futs[i].locks = 0;
        // parked at the operation's own mutex: move on to the first load
        self.advance_f(i, false);
    }

    /// Resume future `i`'s worker until a point of interest.
    fn advance_f(&mut self, i: usize, step_first: bool) {
        let Some(tid) = self.futs[i].tid else { return };
        let mut st = if step_first { sched::step(tid) } else { sched::status(tid).unwrap() };
        loop {
            match st {
                Status::Done(ref r) => {
                    self.futs[i].tid = None;
                    if r == "panic" {
                        self.futs[i].label = "panic".into();
                        self.oracle.push(("C03".into(), "C03/panic".into(), format!("future {i} panicked")));
                        return;
                    }
                    // registered in the blocked list, or submitted?
                    let was_blocked = self.futs[i].label == "at-pushing";
                    self.futs[i].label = if was_blocked { "pending-blocked".into() } else { "pending-submitted".into() };
                    if was_blocked {
                        self.registered[i] = true;
                        self.reg_at[i] = self.polls_done;
                        self.feats.push("blocked".into());
                    }
                    return;
                }
                Status::Parked(kind, addr) => {
                    let f = &mut self.futs[i];
                    let label = match kind {
                        sched::LOAD_SHARED => {
                            f.loads += 1;
                            Some(match f.loads {
                                1 => "at-ld-head1",
                                2 => "at-ld-tail1",
                                3 => "at-ld-head2",
                                4 => "at-ld-tail2",
                                _ => "at-ld-?",
                            })
                        }
                        sched::LOCK => {
                            f.locks += 1;
                            if f.locks == 1 && f.loads == 0 {
                                None // the operation's own mutex
                            } else if addr == self.sub_lock {
                                // spinning on the lock parks here again
                                if f.label == "at-lock-sub" {
                                    f.locks -= 1;
                                }
                                Some("at-lock-sub")
                            } else {
                                Some("at-lock-blocked")
                            }
                        }
                        sched::STORE_SQ_TAIL => Some("at-st-tail"),
                        // inside the blocked-list critical section (lock held, waker not yet pushed)
                        sched::LOCKED => Some("at-pushing"),
                        _ => None,
                    };
                    if let Some(l) = label {
                        f.label = l.to_string();
                        return;
                    }
                    st = sched::step(tid);
                }
                Status::New => return,
            }
        }
    }

    fn advance_r(&mut self) {
        let Some(mut rw) = self.rw.take() else { return };
        let mut st = sched::step(rw.tid);
        loop {
            match st {
                Status::Done(_) => {
                    self.polls_done += 1;
                    self.collect_wakes();
                    self.rw = None;
                    return;
                }
                Status::Parked(kind, _) => {
                    let pushing = self.futs.iter().any(|f| f.tid.is_some() && f.label == "at-pushing");
                    let label = match (kind, rw.phase) {
                        // `has_blocked_futures()` spins on the list lock while a future is inside its push
                        (sched::LOCK, 0) if pushing => Some("start".to_string()),
                        (sched::SYS, 0) => {
                            rw.phase = 1;
                            let n = simk::with_ring(self.rfd, |r, _| r.sq_pending());
                            Some(format!("at-enter/{n}"))
                        }
                        // inside io_uring_enter, waiting for a completion (a call without timeout)
                        (sched::SYS_BLOCKED, 1) => Some("waiting".to_string()),
                        (sched::LOAD_SHARED, 1) => {
                            rw.loads += 1;
                            match rw.loads {
                                1 => Some("at-w-ld-head".to_string()),
                                2 => Some("at-w-ld-tail".to_string()),
                                _ => None,
                            }
                        }
                        (sched::TRY_LOCK, 1) => Some("at-try-lock".to_string()),
                        (sched::LOCK, 1) => Some("at-lock2".to_string()),
                        (sched::RMW_POLLING, 1) => {
                            rw.phase = 2; // set_polling(false): wake_blocked_futures is over
                            None
                        }
                        _ => None,
                    };
                    if let Some(l) = label {
                        if l == "at-w-ld-head" && rw.inf && rw.label.starts_with("at-enter") && !rw.registered_at_start.is_empty() {
                            self.feats.push("poll-without-timeout-did-not-wait".into());
                        }
                        if l == "waiting" && rw.label != "waiting" {
                            self.feats.push("poll-waits-in-kernel".into());
                            let still: Vec<usize> = rw.registered_at_start.iter().copied().filter(|i| self.registered[*i]).collect();
                            if !still.is_empty() {
                                self.oracle.push(("C03".into(), "C03/blocked-while-poll-waits".into(), format!("a Ring::poll without timeout waits in the kernel for a completion although futures {still:?} were already waiting for a submission slot when the call started; the call itself made room, nothing completes, so they are never woken")));
                            }
                        }
                        rw.label = l;
                        self.collect_wakes();
                        self.rw = Some(rw);
                        return;
                    }
                    st = sched::step(rw.tid);
                }
                Status::New => {
                    self.rw = Some(rw);
                    return;
                }
            }
        }
    }

    fn collect_wakes(&mut self) {
        for w in util::drain_wakes() {
            if (w as usize) < self.registered.len() {
                self.registered[w as usize] = false;
            }
            self.woken.push(w);
        }
    }

    fn state(&self) -> String {
        let (h, t) = simk::with_ring(self.rfd, |r, _| (r.sq_head(), r.sq_tail()));
        let w = if self.woken.is_empty() { "-".to_string() } else { self.woken.iter().map(|x| x.to_string()).collect::<Vec<_>>().join(",") };
        format!("H={h} T={t} woken={w}")
    }

    /// Oracle: after a `Ring::poll` that entered the kernel with every future
    /// quiescent, the oldest registered wakers (as many as there were free
    /// slots) must have been invoked; and nobody stays registered over two
    /// complete quiet polls while there is room.
    fn check_progress(&mut self) {
        let (h, t) = simk::with_ring(self.rfd, |r, _| (r.sq_head(), r.sq_tail()));
        let room = self.len > t.wrapping_sub(h);
        let quiet = self.futs.iter().all(|f| f.tid.is_none());
        if !(room && quiet) {
            return;
        }
        for i in 0..self.registered.len() {
            if self.registered[i] && self.polls_done >= self.reg_at[i] + 1 + (self.registered.len() as u64).div_ceil(self.len as u64) + 1 {
                self.oracle.push(("C03".into(), "C03/blocked-never-woken".into(), format!("future {i} registered for a submission slot at poll #{}, {} Ring::poll calls entered the kernel since, the queue has room, and its waker was never invoked", self.reg_at[i], self.polls_done - self.reg_at[i])));
                self.registered[i] = false;
            }
        }
    }
}

impl BlkCase {
    /// `blk pwaker`: a ring of its own with a two-entry submission queue. Two reads fill the queue,
    /// three more find it full and wait for a slot — the first of them with a waker that panics.
    /// `Ring::poll` submits the queue and wakes the waiters: the panic unwinds out of the wake pass.
    /// The application catches it and polls again: the two other waiters must be woken then (two
    /// slots are free; they were taken out of the list by the pass that panicked).
    fn do_pwaker(&mut self) -> Vec<String> {
        if self.rw.is_some() {
            return vec!["bad-op".into()];
        }
        let pre = simk::drain_events();
        simk::purge_closed_except(self.rfd);
        let held_main = simk::hold_fd(self.rfd);
        let before: Vec<i32> = simk::with_sim(|s| s.rings.keys().copied().collect());
        let built = Ring::config().with_submission_queue_size(2).build();
        if held_main {
            simk::release_fd(self.rfd);
        }
        let mut ring_b = match built {
            Ok(r) => r,
            Err(e) => return vec![format!("pwaker setup-failed {e}")],
        };
        let Some(rfd_b) = simk::with_sim(|s| s.rings.keys().copied().find(|k| !before.contains(k))) else {
            return vec!["pwaker no-new-ring".into()];
        };
        let sq_b = ring_b.sq();
        let raw = simk::with_ring(rfd_b, |r, _| r.fresh_fd());
        let fd: &'static AsyncFd = Box::leak(Box::new(unsafe { AsyncFd::from_raw_fd(raw, sq_b.clone()) }));
        drop(sq_b);
        util::drain_wakes();
        let noop = std::task::Waker::noop();
        type F = Pin<Box<dyn Future<Output = std::io::Result<Vec<u8>>>>>;
        let mut futs: Vec<F> = Vec::new();
        for _ in 0..2 {
            let mut f: F = Box::pin(fd.read(Vec::with_capacity(8)));
            let _ = f.as_mut().poll(&mut Context::from_waker(noop));
            futs.push(f);
        }
        let wakers = [util::panicking_waker(), util::waker(701), util::waker(702)];
        for w in &wakers {
            let mut f: F = Box::pin(fd.read(Vec::with_capacity(8)));
            let _ = f.as_mut().poll(&mut Context::from_waker(w));
            futs.push(f);
        }
        let show = |v: Vec<u32>| -> String {
            let v: Vec<String> = v.into_iter().filter(|w| *w == 701 || *w == 702).map(|w| w.to_string()).collect();
            if v.is_empty() { "-".into() } else { v.join(",") }
        };
        let first = match util::catch(|| ring_b.poll(Some(Duration::ZERO))) {
            Err(_) => "panic",
            Ok(Ok(())) => "ok",
            Ok(Err(_)) => "err",
        };
        let w1 = show(util::drain_wakes());
        let second = match util::catch(|| ring_b.poll(Some(Duration::ZERO))) {
            Err(_) => "panic",
            Ok(Ok(())) => "ok",
            Ok(Err(_)) => "err",
        };
        let w2 = show(util::drain_wakes());
        let all = format!("{w1},{w2}");
        if !(all.contains("701") && all.contains("702")) {
            self.oracle.push(("C03".into(), "C03/blocked-lost-after-waker-panic".into(), format!("three futures waited for a submission slot, the waker of the first panicked inside the wake pass of Ring::poll (that poll: {first}, woke {w1}); a second Ring::poll (ended {second}) woke {w2}: a waiter whose own waker is fine was never woken although two slots are free")));
        }
        self.feats.push("waker-panics-in-wake-pass".into());
        for f in futs {
            let _ = util::catch(move || drop(f));
        }
        let _ = util::catch(move || drop(ring_b));
        unsafe { drop(Box::from_raw(std::ptr::from_ref(fd).cast_mut())) };
        if unsafe { simk::raw_syscall(libc::SYS_fcntl, raw as i64, libc::F_GETFD as i64, 0, 0, 0, 0) } >= 0 {
            unsafe { simk::raw_syscall(libc::SYS_close, raw as i64, 0, 0, 0, 0, 0) };
        }
        let _ = simk::drain_events();
        simk::with_sim(|sim| {
            let mut keep = pre;
            keep.append(&mut sim.events);
            sim.events = keep;
        });
        simk::purge_closed_except(self.rfd);
        util::drain_wakes();
        vec![format!("pwaker first={first} woken={w1} second={second} woken={w2}")]
    }
}

impl Case for BlkCase {
    fn begin_output(&mut self) -> Vec<String> {
        if !self.ok {
            return vec!["bad-op".into()];
        }
        vec![self.state()]
    }

    fn next_op(&mut self, rng: &mut Rng) -> Option<String> {
        if !self.ok || self.steps_left == 0 {
            return None;
        }
        self.steps_left -= 1;
        let mid: Vec<usize> = (0..self.futs.len()).filter(|i| self.futs[*i].tid.is_some()).collect();
        let blocked: Vec<usize> = (0..self.futs.len()).filter(|i| self.futs[*i].tid.is_none() && self.futs[*i].label == "pending-blocked").collect();
        let woken_blocked: Vec<usize> = blocked.iter().copied().filter(|i| !self.registered[*i]).collect();
        // bias: let futures register while the ring thread is inside its wake pass,
        // and hold futures right before registering while the ring thread enters
        let at_reg: Vec<usize> = mid.iter().copied().filter(|i| self.futs[*i].label == "at-lock-blocked").collect();
        if let Some(r) = &self.rw {
            if (r.label == "at-lock2" || r.label == "at-try-lock") && !at_reg.is_empty() && rng.chance(2, 3) {
                return Some(format!("blk f {}", rng.pick(&at_reg)));
            }
            if r.label.starts_with("at-enter") && !at_reg.is_empty() && rng.chance(1, 2) {
                return Some("blk r".into());
            }
        }
        let w_f = if mid.is_empty() { 0 } else { 10 };
        let w_poll = if self.rw.is_none() { 5 } else { 0 };
        if self.rw.as_ref().is_some_and(|r| r.label == "waiting") && (mid.is_empty() || rng.chance(1, 4)) {
            return Some("blk io".into());
        }
        let w_r = if self.rw.is_some() { 8 } else { 0 };
        let w_re = if woken_blocked.is_empty() { 0 } else { 6 };
        let w_spur = if blocked.is_empty() || !rng.chance(1, 10) { 0 } else { 1 };
        let w_bad = if rng.chance(1, 40) { 1 } else { 0 };
        match rng.weighted(&[w_f, w_poll, w_r, w_re, w_spur, w_bad]) {
            0 => Some(format!("blk f {}", rng.pick(&mid))),
            1 if self.rw.is_none() && rng.chance(1, 40) => Some("blk pwaker".to_string()),
            1 => Some(if rng.chance(1, 3) { "blk pollinf".to_string() } else if rng.chance(1, 4) { "blk polli".to_string() } else { "blk poll".to_string() }),
            2 => Some("blk r".into()),
            3 => Some(format!("blk repoll {}", rng.pick(&woken_blocked))),
            4 => Some(format!("blk repoll {}", rng.pick(&blocked))),
            _ => Some(match rng.below(3) {
                0 => "blk r".to_string(),
                1 => format!("blk f {}", self.futs.len()),
                _ => "blk poll".to_string(),
            }),
        }
    }

    fn exec(&mut self, op: &str) -> Vec<String> {
        if !self.ok {
            return vec!["bad-op".into()];
        }
        let t: Vec<&str> = op.split(' ').collect();
        let out = match t.as_slice() {
            ["blk", "f", i] => {
                let Ok(i) = i.parse::<usize>() else { return vec!["bad-op".into()] };
                if i >= self.futs.len() || self.futs[i].tid.is_none() {
                    return vec!["bad-op".into()];
                }
                if self.rw.as_ref().is_some_and(|r| r.label == "at-lock2") && self.futs[i].label == "at-lock-blocked" {
                    self.feats.push("register-during-wake-pass".into());
                }
                if self.rw.as_ref().is_some_and(|r| r.phase == 1) && self.futs[i].label == "at-lock-blocked" {
                    self.feats.push("register-after-enter".into());
                }
                self.advance_f(i, true);
                self.collect_wakes();
                format!("f{i} {} {}", self.futs[i].label, self.state())
            }
            // `polli`: a `Ring::poll(None)` during which a signal arrives — its wait, if it comes to
            // one, ends with EINTR: the wake pass of `Shared::enter` runs as for ETIME and the call
            // returns (the model's zero-timeout poll)
            ["blk", which @ ("poll" | "pollinf" | "polli")] => {
                if self.rw.is_some() {
                    return vec!["bad-op".into()];
                }
                let intr = *which == "polli";
                simk::with_ring(self.rfd, |r, _| r.intr_next_wait = intr);
                if intr {
                    self.feats.push("poll-interrupted".into());
                }
                let inf = *which == "pollinf";
                let ring = self.ring.clone();
                let tid = sched::spawn(move || {
                    let mut r = lockp(&ring).take().expect("ring in use");
                    let _ = r.poll(if inf || intr { None } else { Some(Duration::ZERO) });
                    *lockp(&ring) = Some(r);
                    String::new()
                });
                let registered_at_start = (0..self.registered.len()).filter(|i| self.registered[*i]).collect();
                if inf {
                    self.feats.push("poll-without-timeout".into());
                }
                self.rw = Some(RingWorker { inf, registered_at_start, tid, phase: 0, loads: 0, label: "start".into() });
                format!("r start {}", self.state())
            }
            ["blk", "pwaker"] => return self.do_pwaker(),
            ["blk", "io"] => {
                // some completion arrives (nobody's: user_data 0): a waiting io_uring_enter returns
                if !self.rw.as_ref().is_some_and(|r| r.label == "waiting") {
                    return vec!["bad-op".into()];
                }
                simk::with_ring(self.rfd, |r, ev| r.post_raw(None, simk::Cqe { user_data: 0, res: 0, flags: 0 }, ev));
                self.advance_r();
                let label = self.rw.as_ref().map(|r| r.label.clone()).unwrap_or_else(|| "idle".into());
                format!("r {label} {}", self.state())
            }
            ["blk", "r"] => {
                if self.rw.is_none() {
                    return vec!["bad-op".into()];
                }
                let pushing = self.futs.iter().any(|f| f.tid.is_some() && f.label == "at-pushing");
                if pushing {
                    match self.rw.as_ref().map(|r| r.label.as_str()) {
                        Some("at-try-lock") => self.feats.push("wake-pass-try-lock-fails".into()),
                        Some("at-lock2") => self.feats.push("merge-spins-on-list-lock".into()),
                        Some("start") => self.feats.push("poll-start-spins-on-list-lock".into()),
                        _ => {}
                    }
                }
                self.advance_r();
                let label = self.rw.as_ref().map(|r| r.label.clone()).unwrap_or_else(|| "idle".into());
                if label == "idle" {
                    self.check_progress();
                }
                format!("r {label} {}", self.state())
            }
            ["blk", "repoll", i] => {
                let Ok(i) = i.parse::<usize>() else { return vec!["bad-op".into()] };
                if i >= self.futs.len() || self.futs[i].tid.is_some() || self.futs[i].label != "pending-blocked" {
                    return vec!["bad-op".into()];
                }
                self.start_poll_of(i);
                format!("f{i} {} {}", self.futs[i].label, self.state())
            }
            _ => return vec!["bad-op".into()],
        };
        simk::drain_events();
        vec![out]
    }

    fn drain_oracle(&mut self) -> Vec<(String, String, String)> {
        std::mem::take(&mut self.oracle)
    }

    fn finish(&mut self) -> CaseReport {
        if !self.ok {
            return CaseReport::default();
        }
        // Quiesce: finish every poll in progress, then the bounded-response
        // check: a few quiet Ring::poll calls must wake everybody registered.
        for _ in 0..1000 {
            let mid: Vec<usize> = (0..self.futs.len()).filter(|i| self.futs[*i].tid.is_some()).collect();
            if mid.is_empty() && self.rw.is_none() {
                break;
            }
            for i in mid {
                self.advance_f(i, true);
            }
            if self.rw.as_ref().is_some_and(|r| r.label == "waiting") {
                simk::with_ring(self.rfd, |r, ev| r.post_raw(None, simk::Cqe { user_data: 0, res: 0, flags: 0 }, ev));
            }
            if self.rw.is_some() {
                self.advance_r();
            }
        }
        self.collect_wakes();
        let rounds = (self.futs.len() as u32).div_ceil(self.len.max(1)) + 1;
        for _ in 0..rounds {
            let ring = self.ring.clone();
            let mut r = lockp(&ring).take().unwrap();
            sched::uninstall();
            let _ = r.poll(Some(Duration::ZERO));
            sched::install();
            *lockp(&ring) = Some(r);
            self.collect_wakes();
        }
        let left: Vec<usize> = (0..self.registered.len()).filter(|i| self.registered[*i]).collect();
        if !left.is_empty() {
            self.oracle.push(("C03".into(), "C03/blocked-never-woken".into(), format!("futures {left:?} are still registered for a submission slot after {rounds} quiet Ring::poll calls with room in the queue")));
        }
        let stuck = sched::finish_all();
        if !stuck.is_empty() {
            self.oracle.push(("C03".into(), "C03/thread-never-returns".into(), format!("{} thread(s) (future poll / Ring::poll) did not return within 100000 scheduling steps after the script ended", stuck.len())));
        }
        sched::uninstall();
        // Tear down: the futures are in flight forever (nothing completes): drop
        // them (cancel requests are queued), drop the ring (sync-cancels), etc.
        for f in self.futs.iter() {
            drop(lockp(&f.fut).take());
        }
        drop(lockp(&self.ring).take());
        if let Some(fd) = self.fd.take() {
            if let Some(raw) = fd.as_fd().map(|f| std::os::fd::AsRawFd::as_raw_fd(&f)) {
                unsafe { libc::close(raw) };
            }
            unsafe { drop(Box::from_raw(std::ptr::from_ref(fd).cast_mut())) };
        }
        drop(self.sq.take());
        simk::drain_events();
        util::drain_wakes();
        simk::reset();
        let mut features = std::mem::take(&mut self.feats);
        features.sort();
        features.dedup();
        let nontrivial = features.iter().any(|f| f == "blocked");
        CaseReport { oracle: std::mem::take(&mut self.oracle), features, nontrivial }
    }
}

impl Comp for BlkComp {
    fn name(&self) -> &'static str {
        "blk"
    }
    fn rule(&self) -> String {
        "each case = 2..6 real operations polled by worker threads on a submission queue of 1/2/4 entries plus a ring thread calling Ring::poll(Some(0)) or Ring::poll(None) (which really waits in the simulated kernel until an unrelated completion is posted), no operation ever completes; random schedules of ≤ 120 steps at the queue-word loads, the submission and blocked-list locks and the kernel entry, with woken futures re-polled (and occasional spurious re-polls); non-trivial = at least one future found the queue full and registered for a slot; distinct = distinct schedules".into()
    }
    fn gen_header(&mut self, rng: &mut Rng, id: u64, _tier: &str) -> String {
        if rng.chance(1, 60) {
            return format!("blk begin {id} len=3 n=2 steps=3");
        }
        let len = *rng.pick(&[1u32, 1, 2, 2, 4]);
        let n = rng.range(2, 6);
        let kt = if rng.chance(1, 5) { " kt=1" } else { "" };
        format!("blk begin {id} len={len} n={n} steps={}{kt}", rng.range(30, 120))
    }
    fn begin(&mut self, header: &str) -> Box<dyn Case> {
        Box::new(BlkCase::new(header))
    }
}
