//! C04: submission queue integrity under concurrent submitters and wrap-around.
//!
//! N worker threads each call the real `Submissions::add` (through
//! `AsyncFd::drop`, which queues a CLOSE for its own descriptor — so every
//! entry is identifiable by its fd; every third entry instead through dropping an
//! in-flight operation, which queues an ASYNC_CANCEL for it via
//! `Submissions::cancel` — identifiable by the operation's user_data) and are
//! interleaved at a10's scheduling points by the deterministic scheduler; the simulated kernel consumes
//! entries at script-chosen moments; the ring counters start anywhere.

use std::collections::HashMap;

use a10::{AsyncFd, Ring, SubmissionQueue};

use crate::comp::{Case, CaseReport, Comp};
use crate::sched::{self, Status};
use crate::simk::{self, KEv};
use crate::util::{self, Rng};

pub struct SqComp;

struct Worker {
    sched_tid: usize,
    entry: u64,
    fd: i32,
    loads: u32,
    done: Option<String>,
    /// this submitter drops an in-flight operation (its entry is the ASYNC_CANCEL for `user_data`)
    cancel_ud: Option<u64>,
    /// the queue was full at some moment while this call was running
    saw_full: bool,
}

/// A buffer whose `parts_mut` — called by a10 while it fills the submission, under the
/// submission lock — panics once when armed.
struct PanicBuf(Vec<u8>);
static PANIC_ARMED: std::sync::atomic::AtomicBool = std::sync::atomic::AtomicBool::new(false);

// SAFETY: forwards to `Vec<u8>`.
unsafe impl a10::io::BufMut for PanicBuf {
    unsafe fn parts_mut(&mut self) -> (*mut u8, u32) {
        if PANIC_ARMED.swap(false, std::sync::atomic::Ordering::SeqCst) {
            panic!("buffer implementation panics while the submission is being filled");
        }
        unsafe { a10::io::BufMut::parts_mut(&mut self.0) }
    }
    unsafe fn set_init(&mut self, n: usize) {
        unsafe { a10::io::BufMut::set_init(&mut self.0, n) }
    }
    fn spare_capacity(&self) -> u32 {
        a10::io::BufMut::spare_capacity(&self.0)
    }
}

type OpFut = std::pin::Pin<Box<dyn std::future::Future<Output = std::io::Result<Vec<u8>>> + Send>>;

/// Operations started (and taken by the kernel) before the script begins.
const POOL: u32 = 6;

struct SqCase {
    ring: Option<Ring>,
    sq: Option<SubmissionQueue>,
    rfd: i32,
    len: u32,
    workers: Vec<Worker>,
    fd2entry: HashMap<i32, u64>,
    /// user_data of a dropped operation -> entry of its cancel request
    ud2entry: HashMap<u64, u64>,
    /// in-flight operations not yet dropped: (future, user_data)
    pool: Vec<(OpFut, u64)>,
    op_fd: Option<&'static AsyncFd>,
    steps_left: u32,
    next_entry: u64,
    accepted: Vec<u64>,
    consumed: Vec<u64>,
    closed_sync: Vec<i32>,
    /// (entry, final status) of workers replaced by `again`
    retired: Vec<(u64, String)>,
    oracle: Vec<(String, String, String)>,
    feats: Vec<String>,
    ok: bool,
    /// SQPOLL ring
    kt: bool,
}

impl SqCase {
    fn new(header: &str) -> SqCase {
        let t: Vec<&str> = header.split(' ').collect();
        let get = |k: &str| -> Option<u64> {
            t.iter().find_map(|x| x.strip_prefix(&format!("{k}="))).and_then(|v| v.parse().ok())
        };
        let (len, h0, n) = (get("len").unwrap_or(0), get("h0").unwrap_or(0), get("n").unwrap_or(0));
        let steps = get("steps").unwrap_or(40) as u32;
        let ok = len.is_power_of_two() && len <= 64 && h0 <= u32::MAX as u64 && (1..=6).contains(&n);
        simk::reset();
        let mut c = SqCase {
            ring: None,
            sq: None,
            rfd: -1,
            len: len as u32,
            workers: Vec::new(),
            fd2entry: HashMap::new(),
            ud2entry: HashMap::new(),
            pool: Vec::new(),
            op_fd: None,
            steps_left: steps,
            next_entry: n,
            accepted: Vec::new(),
            consumed: Vec::new(),
            closed_sync: Vec::new(),
            retired: Vec::new(),
            oracle: Vec::new(),
            feats: Vec::new(),
            ok,
            kt: false,
        };
        if !ok {
            return c;
        }
        // POOL operations are started before the script begins: the counters start that much earlier
        simk::activate(simk::SetupCfg { sq_head0: (h0 as u32).wrapping_sub(POOL), cq_head0: 0, ..Default::default() });
        // `si=1`: a single-issuer ring (only the owner enters the kernel; every thread may still queue)
        let si = get("si").unwrap_or(0) == 1;
        let cfg = Ring::config().with_submission_queue_size(len as u32);
        let cfg = if si { cfg.single_issuer() } else { cfg };
        // `kt=1`: SQPOLL — a kernel thread consumes the queue, `enter` submits nothing itself
        let kt = !si && get("kt").unwrap_or(0) == 1;
        let cfg = if kt { cfg.with_kernel_thread() } else { cfg };
        c.kt = kt;
        if kt {
            c.feats.push("kernel-thread".into());
        }
        let ring = cfg.build().expect("ring");
        if si {
            c.feats.push("single-issuer".into());
        }
        c.sq = Some(ring.sq());
        c.rfd = simk::with_sim(|s| *s.rings.keys().next().unwrap());
        c.ring = Some(ring);
        // Start POOL reads (they never complete) and let the kernel take each at once; the slots
        // are cleared again, so the script starts from an empty queue at `h0`.
        let raw = simk::with_ring(c.rfd, |r, _| r.fresh_fd_min(900));
        let op_fd: &'static AsyncFd = Box::leak(Box::new(unsafe { AsyncFd::from_raw_fd(raw, c.sq.as_ref().unwrap().clone()) }));
        c.op_fd = Some(op_fd);
        for _ in 0..POOL {
            let mut f: OpFut = Box::pin(op_fd.read(Vec::with_capacity(8)));
            let w = util::waker(778);
            let mut cx = std::task::Context::from_waker(&w);
            let _ = f.as_mut().poll(&mut cx);
            let ud = simk::with_ring(c.rfd, |r, ev| {
                let idx = r.sq_head();
                let ud = r.sqe_at(idx).user_data;
                r.consume(1, ev);
                r.clear_sqe(idx);
                ud
            });
            c.pool.push((f, ud));
        }
        sched::install();
        for e in 0..n {
            c.spawn_worker(e);
        }
        simk::drain_events();
        c
    }

    /// A new call of `Submissions::add` for `entry`, as a scheduled thread: every third entry
    /// (while the pool lasts) by dropping an in-flight operation, the others by dropping an `AsyncFd`.
    fn new_worker(&mut self, entry: u64) -> Worker {
        if entry % 3 == 2 && !self.pool.is_empty() {
            let (fut, ud) = self.pool.remove(0);
            self.ud2entry.insert(ud, entry);
            self.feats.push("cancel-submitter".into());
            let tid = sched::spawn(move || {
                drop(fut);
                String::new()
            });
            // the first scheduling point is the operation's own (uncontended) lock: pass it
            if let Some(Status::Parked(kind, _)) = sched::status(tid) {
                if kind == sched::LOCK {
                    sched::step(tid);
                }
            }
            // `Submissions::cancel` goes straight for the submission lock (no unlocked pre-check:
            // fix e17b949), so its loads are the third and fourth of the protocol
            return Worker { sched_tid: tid, entry, fd: -1, loads: 2, done: None, cancel_ud: Some(ud), saw_full: false };
        }
        let min = 1000 + 2 * entry as i32;
        let raw = simk::with_ring(self.rfd, |r, _| r.fresh_fd_min(min));
        self.fd2entry.insert(raw, entry);
        let fd = unsafe { AsyncFd::from_raw_fd(raw, self.sq.as_ref().unwrap().clone()) };
        let tid = sched::spawn(move || {
            drop(fd);
            String::new()
        });
        Worker { sched_tid: tid, entry, fd: raw, loads: 0, done: None, cancel_ud: None, saw_full: false }
    }

    fn spawn_worker(&mut self, entry: u64) -> usize {
        let w = self.new_worker(entry);
        self.workers.push(w);
        let i = self.workers.len() - 1;
        self.after_step(i);
        i
    }

    /// Which entry is this submission? (CLOSE: by descriptor; ASYNC_CANCEL: by target user_data)
    fn entry_of(&self, sqe: &simk::Sqe) -> Option<u64> {
        if sqe.opcode == simk::OP_CLOSE {
            self.fd2entry.get(&sqe.fd).copied()
        } else if sqe.opcode == simk::OP_ASYNC_CANCEL {
            self.ud2entry.get(&sqe.addr).copied()
        } else {
            None
        }
    }

    /// Is `entry` in the queue (published, not yet consumed)?
    fn in_queue(&self, entry: u64) -> bool {
        simk::with_ring(self.rfd, |r, _| {
            let (mut h, t) = (r.sq_head(), r.sq_tail());
            while h != t {
                if self.entry_of(&r.sqe_at(h)) == Some(entry) {
                    return true;
                }
                h = h.wrapping_add(1);
            }
            false
        })
    }

    fn note_fullness(&mut self) {
        let (h, t) = simk::with_ring(self.rfd, |r, _| (r.sq_head(), r.sq_tail()));
        if t.wrapping_sub(h) >= self.len {
            for w in self.workers.iter_mut().filter(|w| w.done.is_none()) {
                w.saw_full = true;
            }
        }
    }

    fn state_line(&self) -> String {
        let (h, t, slots) = simk::with_ring(self.rfd, |r, _| {
            let slots: Vec<String> = (0..self.len)
                .map(|i| {
                    let sqe = r.sqe_at(i);
                    if sqe.is_zero() {
                        "_".to_string()
                    } else if sqe.opcode == simk::OP_CLOSE || sqe.opcode == simk::OP_ASYNC_CANCEL {
                        match self.entry_of(&sqe) {
                            Some(e) => e.to_string(),
                            None => format!("fd{}", sqe.fd),
                        }
                    } else {
                        format!("op{}", sqe.opcode)
                    }
                })
                .collect();
            (r.sq_head(), r.sq_tail(), slots)
        });
        let inside = self
            .workers
            .iter()
            .filter(|w| w.done.is_none() && matches!(self.pc_name(w).as_str(), "at-ld-head2" | "at-ld-tail2" | "at-st-tail"))
            .count();
        format!("H={h} T={t} lock={inside} slots={}", slots.join(","))
    }

    fn pc_name(&self, w: &Worker) -> String {
        if let Some(d) = &w.done {
            return d.clone();
        }
        match sched::status(w.sched_tid) {
            Some(Status::Parked(kind, _)) => match kind {
                sched::LOAD_SHARED => match w.loads {
                    1 => "at-ld-head1",
                    2 => "at-ld-tail1",
                    3 => "at-ld-head2",
                    4 => "at-ld-tail2",
                    _ => "at-ld-?",
                }
                .to_string(),
                // (a `try_lock` on the submission lock is the same point of the protocol)
                sched::LOCK | sched::TRY_LOCK => "at-lock".to_string(),
                sched::STORE_SQ_TAIL => "at-st-tail".to_string(),
                k => format!("at-hook{k}"),
            },
            Some(Status::Done(_)) => "done".to_string(),
            _ => "?".to_string(),
        }
    }

    fn after_step(&mut self, i: usize) {
        // account for the hook the worker is now parked at / its end
        let st = sched::status(self.workers[i].sched_tid);
        match st {
            Some(Status::Parked(kind, addr)) => {
                if kind == sched::LOAD_SHARED {
                    self.workers[i].loads += 1;
                    // sanity: head lives at offset 0, tail at offset 4 of the SQ ring page
                    let want = if self.workers[i].loads % 2 == 1 { 0 } else { 4 };
                    if addr & 0xfff != want {
                        self.oracle.push(("C04".into(), "C04/load-order".into(), format!("thread {i}: load #{} reads offset {:#x}, expected {want:#x} (head must be loaded before tail)", self.workers[i].loads, addr & 0xfff)));
                    }
                }
            }
            Some(Status::Done(r)) => {
                if self.workers[i].done.is_none() {
                    // Published (ok) or fell back to close(2) (full)?
                    let fd = self.workers[i].fd;
                    let entry = self.workers[i].entry;
                    let synced = match self.workers[i].cancel_ud {
                        // a cancel request that found no room is simply not queued
                        Some(_) => !(self.consumed.contains(&entry) || self.in_queue(entry)),
                        None => simk::with_sim(|s| s.events.iter().any(|e| matches!(e, KEv::CloseFd { fd: f, .. } if *f == fd))),
                    };
                    if synced && self.workers[i].cancel_ud.is_some() && !self.workers[i].saw_full && r != "panic" {
                        self.oracle.push(("C06".into(), "C06/cancel-not-queued".into(), format!("submitter {i} dropped an in-flight operation and no cancel request was queued although the submission queue was never full during the call")));
                    }
                    if r == "panic" {
                        self.workers[i].done = Some("panic".into());
                        self.oracle.push(("C04".into(), "C04/panic".into(), format!("submitter {i} panicked")));
                    } else if synced {
                        if fd >= 0 {
                            self.closed_sync.push(fd);
                        }
                        self.workers[i].done = Some("done-full".into());
                        self.feats.push("queue-full".into());
                    } else {
                        self.accepted.push(self.workers[i].entry);
                        self.workers[i].done = Some("done-ok".into());
                    }
                }
            }
            _ => {}
        }
    }

    fn kernel_step(&mut self) -> String {
        let (line, entry) = simk::with_ring(self.rfd, |r, ev| {
            let head = r.sq_head();
            let idx = head & (r.sq_entries - 1);
            let n = ev.len();
            let seqs = r.consume(1, ev);
            if seqs.is_empty() {
                return ("idle".to_string(), None);
            }
            let mut torn = false;
            let mut got = None;
            for e in &ev[n..] {
                match e {
                    KEv::TornEntry { .. } => torn = true,
                    KEv::Consumed { sqe, .. } => got = Some(*sqe),
                    _ => {}
                }
            }
            if torn {
                (format!("consume slot {idx} torn"), None)
            } else {
                let e = got.and_then(|q| self.entry_of(&q));
                match e {
                    Some(e) => (format!("consume slot {idx} entry {e}"), Some(e)),
                    None => (format!("consume slot {idx} entry ?"), None),
                }
            }
        });
        if line.contains("torn") {
            self.oracle.push(("C04".into(), "C04/torn-entry".into(), "the kernel consumed a reset (partially written) submission".into()));
        }
        if let Some(e) = entry {
            if self.consumed.contains(&e) {
                self.oracle.push(("C04".into(), "C04/consumed-twice".into(), format!("entry {e} reached the kernel twice")));
                            self.oracle.push(("C01".into(), "C01/submission-executed-twice".into(), format!("entry {e} reached the kernel twice: the second execution still references the operation's memory after the first completion released it")));
            }
            self.consumed.push(e);
            self.feats.push("kernel-consumes".into());
        } else if line.contains("entry ?") {
            self.oracle.push(("C04".into(), "C04/unknown-entry".into(), "the kernel consumed an entry nobody submitted (overwritten or corrupted slot)".into()));
        }
        line
    }

    /// Oracle: what the kernel got is a prefix of what was accepted, in order.
    fn check_prefix(&mut self) {
        let n = self.consumed.len().min(self.accepted.len());
        // `accepted` is recorded when a worker *finishes*; publication order is
        // the order of tail stores, which can differ from finishing order only
        // among workers that already published. Compare as sets + count.
        let _ = n;
        for e in &self.consumed {
            // every consumed entry belongs to a worker whose add() is past its tail store
            let published = self.workers.iter().any(|w| w.entry == *e && (w.done.as_deref() == Some("done-ok") || w.done.is_none()))
                || self.retired.iter().any(|(re, st)| re == e && st == "done-ok");
            if !published {
                self.oracle.push(("C04".into(), "C04/consumed-unpublished".into(), format!("entry {e} was consumed but its submitter reported QueueFull")));
            }
        }
    }
}

impl Case for SqCase {
    fn next_op(&mut self, rng: &mut Rng) -> Option<String> {
        if !self.ok || self.steps_left == 0 {
            return None;
        }
        self.steps_left -= 1;
        let running: Vec<usize> = (0..self.workers.len()).filter(|i| self.workers[*i].done.is_none()).collect();
        let finished: Vec<usize> = (0..self.workers.len()).filter(|i| self.workers[*i].done.is_some()).collect();
        let pending = simk::with_ring(self.rfd, |r, _| r.sq_pending());
        let w_step = if running.is_empty() { 0 } else { 10 };
        let w_kernel = if pending > 0 { 3 } else { 1 };
        let w_again = if finished.is_empty() { 0 } else { 2 };
        let w_bad = if rng.chance(1, 40) { 1 } else { 0 };
        if rng.chance(1, 30) {
            return Some("sq panicfill".into());
        }
        if rng.chance(if pending > 0 { 1 } else { 0 }, 6) || rng.chance(1, 40) {
            return Some("sq enter".into());
        }
        if self.kt && pending == 0 && rng.chance(1, 3) {
            return Some("sq idle".into());
        }
        match rng.weighted(&[w_step, w_kernel, w_again, w_bad]) {
            0 => {
                // bias towards keeping several threads inside the window between the
                // unlocked check and the lock
                let i = *rng.pick(&running);
                Some(format!("sq step {i}"))
            }
            1 => Some("sq kernel".into()),
            2 => {
                let i = *rng.pick(&finished);
                let e = self.next_entry;
                Some(format!("sq again {i} {e}"))
            }
            _ => Some(format!("sq step {}", self.workers.len() + rng.below(2) as usize)),
        }
    }

    fn begin_output(&mut self) -> Vec<String> {
        if !self.ok {
            return vec!["bad-op".into()];
        }
        vec![self.state_line()]
    }

    fn exec(&mut self, op: &str) -> Vec<String> {
        if !self.ok {
            return vec!["bad-op".into()];
        }
        let t: Vec<&str> = op.split(' ').collect();
        match t.as_slice() {
            ["sq", "step", i] => {
                let Ok(i) = i.parse::<usize>() else { return vec!["bad-op".into()] };
                if i >= self.workers.len() {
                    return vec!["bad-op".into()];
                }
                if self.workers[i].done.is_none() {
                    let before_lock = self.pc_name(&self.workers[i]) == "at-lock";
                    sched::step(self.workers[i].sched_tid);
                    self.after_step(i);
                    if before_lock && self.pc_name(&self.workers[i]) == "at-lock" {
                        self.feats.push("lock-contended".into());
                    }
                }
                let inside = self.workers.iter().filter(|w| w.done.is_none() && matches!(self.pc_name(w).as_str(), "at-ld-tail1" | "at-lock")).count();
                if inside >= 2 {
                    self.feats.push("two-in-check-window".into());
                }
                let (h, tl) = simk::with_ring(self.rfd, |r, _| (r.sq_head(), r.sq_tail()));
                if tl < h {
                    self.feats.push("tail-wrapped".into());
                }
                if tl.wrapping_sub(h) > self.len {
                    self.oracle.push(("C04".into(), "C04/overrun".into(), format!("tail - head = {} exceeds the queue size {}", tl.wrapping_sub(h), self.len)));
                }
                vec![format!("t{i} {} {}", self.pc_name(&self.workers[i]), self.state_line())]
            }
            ["sq", "idle"] => {
                if !self.kt {
                    return vec!["bad-op".into()];
                }
                let slept = simk::with_ring(self.rfd, |r, _| r.sqpoll_sleep());
                if slept {
                    self.feats.push("kernel-thread-sleeps".into());
                }
                vec![format!("{} {}", if slept { "sleep" } else { "busy" }, self.state_line())]
            }
            ["sq", "kernel"] if self.kt && simk::with_ring(self.rfd, |r, _| r.sqpoll_asleep) => {
                vec![format!("asleep {}", self.state_line())]
            }
            ["sq", "kernel"] => {
                let l = self.kernel_step();
                self.check_prefix();
                vec![format!("{l} {}", self.state_line())]
            }
            ["sq", "enter"] => {
                // `Ring::poll` on the controller thread: Shared::enter passes
                // `unsubmitted_submissions()` to io_uring_enter, the simulated kernel
                // consumes exactly that many entries. All submitters are parked.
                let n0 = simk::with_sim(|s| s.events.len());
                let was_asleep = simk::with_ring(self.rfd, |r, _| r.sqpoll_asleep);
                let r = util::catch(|| self.ring.as_mut().unwrap().poll(Some(std::time::Duration::ZERO)));
                if r.is_err() {
                    self.oracle.push(("C04".into(), "C04/panic".into(), "Ring::poll panicked".into()));
                }
                let (to_submit, got): (Option<u32>, Vec<Option<simk::Sqe>>) = simk::with_sim(|s| {
                    let mut ts = None;
                    let mut got = Vec::new();
                    for e in &s.events[n0.min(s.events.len())..] {
                        match e {
                            KEv::Enter { to_submit, .. } => {
                                if ts.is_none() {
                                    ts = Some(*to_submit);
                                }
                            }
                            KEv::TornEntry { .. } => got.push(None),
                            KEv::Consumed { sqe, .. } => got.push(Some(*sqe)),
                            _ => {}
                        }
                    }
                    (ts, got)
                });
                let mut names = Vec::new();
                for g in got {
                    match g.as_ref().and_then(|q| self.entry_of(q)) {
                        Some(e) => {
                            if self.consumed.contains(&e) {
                                self.oracle.push(("C04".into(), "C04/consumed-twice".into(), format!("entry {e} reached the kernel twice")));
                            self.oracle.push(("C01".into(), "C01/submission-executed-twice".into(), format!("entry {e} reached the kernel twice: the second execution still references the operation's memory after the first completion released it")));
                            }
                            self.consumed.push(e);
                            self.feats.push("enter-consumes".into());
                            names.push(e.to_string());
                        }
                        None if g.is_none() => {
                            self.oracle.push(("C04".into(), "C04/torn-entry".into(), "the kernel consumed a reset (partially written) submission".into()));
                            names.push("torn".into());
                        }
                        None => {
                            self.oracle.push(("C04".into(), "C04/unknown-entry".into(), "the kernel consumed an entry nobody submitted (overwritten or corrupted slot)".into()));
                            names.push("?".into());
                        }
                    }
                }
                self.check_prefix();
                // Oracle: everything published before the call has now reached the kernel.
                let (h, tl) = simk::with_ring(self.rfd, |r, _| (r.sq_head(), r.sq_tail()));
                if self.kt && !was_asleep {
                    // the kernel thread is running: it consumes on its own (`sq kernel` steps)
                } else if tl != h {
                    self.oracle.push(("C04".into(), "C04/accepted-not-submitted".into(), format!("after Ring::poll entered the kernel with to_submit={} the queue still holds {} published entries (head {h}, tail {tl}): accepted submissions do not reach the kernel", to_submit.map(|n| n.to_string()).unwrap_or("?".into()), tl.wrapping_sub(h))));
                }
                if tl < h || (tl == h && h < 8) {
                    self.feats.push("enter-after-wrap".into());
                }
                let ts = to_submit.map(|n| n.to_string()).unwrap_or("none".into());
                if self.kt && !names.is_empty() {
                    self.feats.push("enter-wakes-kernel-thread".into());
                }
                vec![format!("enter {ts} consumed {} {}", if names.is_empty() { "-".to_string() } else { names.join(",") }, self.state_line())]
            }
            ["sq", "panicfill"] => {
                // The controller thread starts an operation whose buffer panics while a10 fills the
                // submission (slot reset, lock held): unwinding has to leave the queue as it was —
                // nothing published, the lock released. (Refused while a submitter holds the lock:
                // the controller would spin for ever.)
                let locked = self.workers.iter().any(|w| w.done.is_none() && matches!(self.pc_name(w).as_str(), "at-ld-head2" | "at-ld-tail2" | "at-st-tail"));
                let (h0, t0) = simk::with_ring(self.rfd, |r, _| (r.sq_head(), r.sq_tail()));
                if locked || t0.wrapping_sub(h0) >= self.len {
                    return vec!["bad-op".into()];
                }
                let fd = self.op_fd.unwrap();
                PANIC_ARMED.store(true, std::sync::atomic::Ordering::SeqCst);
                sched::uninstall();
                let r = util::catch(std::panic::AssertUnwindSafe(|| {
                    let mut f = Box::pin(fd.read(PanicBuf(Vec::with_capacity(8))));
                    let w = util::waker(779);
                    let mut cx = std::task::Context::from_waker(&w);
                    let _ = std::future::Future::poll(f.as_mut(), &mut cx);
                }));
                sched::install_keep();
                PANIC_ARMED.store(false, std::sync::atomic::Ordering::SeqCst);
                let (h1, t1) = simk::with_ring(self.rfd, |r, _| (r.sq_head(), r.sq_tail()));
                if r.is_ok() {
                    self.oracle.push(("C04".into(), "C04/panicfill/no-panic".into(), "the buffer's panic did not propagate out of the poll".into()));
                }
                if t1 != t0 || h1 != h0 {
                    self.oracle.push(("C04".into(), "C04/published-by-unwinding".into(), format!("a panic while the submission was being filled moved the queue's tail from {t0} to {t1}: the kernel is handed a reset, partially written entry")));
                }
                self.feats.push("panic-while-filling".into());
                // the free slot holds a partially written entry (the model's `none`): shown as reset
                if t1 == t0 {
                    simk::with_ring(self.rfd, |r, _| r.clear_sqe(t0));
                }
                vec![format!("panicfill {}", self.state_line())]
            }
            ["sq", "again", i, e] => {
                let (Ok(i), Ok(e)) = (i.parse::<usize>(), e.parse::<u64>()) else { return vec!["bad-op".into()] };
                if i >= self.workers.len() || self.workers[i].done.is_none() || self.workers[i].done.as_deref() == Some("panic") {
                    return vec!["bad-op".into()];
                }
                // a new call of add() by "the same" submitter: replace worker i
                let w = self.new_worker(e);
                let old = &self.workers[i];
                self.retired.push((old.entry, old.done.clone().unwrap_or_default()));
                self.workers[i] = w;
                self.after_step(i);
                self.next_entry = self.next_entry.max(e + 1);
                vec!["ok".into()]
            }
            _ => vec!["bad-op".into()],
        }
    }

    fn drain_oracle(&mut self) -> Vec<(String, String, String)> {
        // (called after every op: the queue's fill level only changes at op boundaries)
        if self.ok {
            self.note_fullness();
        }
        std::mem::take(&mut self.oracle)
    }

    fn finish(&mut self) -> CaseReport {
        if !self.ok {
            return CaseReport::default();
        }
        // SQPOLL with an idle kernel thread: a10 has to wake it (that is what `Ring::poll` does).
        if self.kt && simk::with_ring(self.rfd, |r, _| r.sqpoll_asleep) && simk::with_ring(self.rfd, |r, _| r.sq_pending()) > 0 {
            let _ = self.exec("sq enter");
            if simk::with_ring(self.rfd, |r, _| r.sqpoll_asleep) {
                self.oracle.push(("C04".into(), "C04/kernel-thread-not-woken".into(), "the SQPOLL kernel thread is idle (IORING_SQ_NEED_WAKEUP) with entries published and Ring::poll did not wake it: accepted submissions never reach the kernel".into()));
                simk::with_ring(self.rfd, |r, _| { r.sqpoll_asleep = false; r.set_sq_flags(0); });
            }
        }
        // Let every submitter finish, then let the kernel consume everything.
        let t0 = std::time::Instant::now();
        for _round in 0..10_000 {
            if _round == 9_999 && std::env::var_os("A10H_DEBUG").is_some() {
                eprintln!("finish: still running after 10000 rounds: {:?} {}", self.workers.iter().map(|w| (w.entry, self.pc_name(w), w.cancel_ud.is_some())).collect::<Vec<_>>(), self.state_line());
            }
            let running: Vec<usize> = (0..self.workers.len()).filter(|i| self.workers[*i].done.is_none()).collect();
            if running.is_empty() {
                break;
            }
            for i in running {
                self.note_fullness();
                sched::step(self.workers[i].sched_tid);
                self.after_step(i);
            }
            // make room so that spinning / full submitters can finish
            self.kernel_step();
        }
        loop {
            let l = self.kernel_step();
            if l == "idle" {
                break;
            }
        }
        let stuck = sched::finish_all();
        if std::env::var_os("A10H_DEBUG").is_some() && t0.elapsed().as_millis() > 200 {
            eprintln!("finish took {:?}", t0.elapsed());
        }
        if !stuck.is_empty() {
            self.oracle.push(("C04".into(), "C04/add-never-returns".into(), format!("{} submitter(s) did not return from Submissions::add within 100000 scheduling steps although the kernel consumed every entry", stuck.len())));
        }
        sched::uninstall();
        // Exactly once: every accepted entry was consumed exactly once, every
        // refused one never, and its descriptor was closed synchronously.
        let mut acc = self.accepted.clone();
        let mut con = self.consumed.clone();
        acc.sort();
        con.sort();
        if acc != con {
            self.oracle.push(("C04".into(), "C04/lost-or-duplicated".into(), format!("accepted entries {acc:?} but the kernel consumed {con:?}")));
        }
        let all: Vec<(u64, String)> = self.workers.iter().map(|w| (w.entry, w.done.clone().unwrap_or_default())).chain(self.retired.iter().cloned()).collect();
        for (entry, done) in &all {
            let w = (entry, done);
            if w.1 == "done-full" && self.consumed.contains(w.0) {
                self.oracle.push(("C04".into(), "C04/consumed-unpublished".into(), format!("entry {} was refused (QueueFull) yet consumed", w.0)));
            }
        }
        // the operations nobody dropped, then the descriptor they were started on
        self.pool.clear();
        if let Some(fd) = self.op_fd.take() {
            unsafe { drop(Box::from_raw(std::ptr::from_ref(fd).cast_mut())) };
        }
        let rfd = self.rfd;
        let kt = self.kt;
        let kthread = move || {
            // The (awake) kernel thread takes what the teardown queued — a real one does so on its
            // own; a10's last handle waits for it (fix 5ae3e32), the simulated one runs when told to.
            if kt {
                simk::with_ring(rfd, |r, ev| {
                    let n = r.sq_pending();
                    r.consume(n, ev);
                });
            }
        };
        kthread();
        drop(self.ring.take());
        kthread();
        drop(self.sq.take());
        simk::drain_events();
        util::drain_wakes();
        simk::reset();
        let mut features = std::mem::take(&mut self.feats);
        features.sort();
        features.dedup();
        let nontrivial = features.iter().any(|f| f == "two-in-check-window" || f == "tail-wrapped" || f == "lock-contended" || f == "queue-full");
        CaseReport { oracle: std::mem::take(&mut self.oracle), features, nontrivial }
    }
}

impl Comp for SqComp {
    fn name(&self) -> &'static str {
        "sq"
    }
    fn rule(&self) -> String {
        "each case = 2..4 real threads calling Submissions::add (via AsyncFd::drop, one identifiable CLOSE entry each, or — every third entry — via dropping an in-flight operation, one identifiable ASYNC_CANCEL entry through Submissions::cancel; re-armed with fresh entries) on a ring with 1/2/4/8 entries and an arbitrary initial 32-bit head/tail (0, 2^31, 2^32-k), interleaved at a10's scheduling points by a random schedule of ≤ 80 steps with the simulated kernel consuming entries in between; non-trivial = two submitters were simultaneously between the unlocked fullness check and the lock, or the lock was contended, or the tail wrapped past 2^32, or a QueueFull was answered; distinct = distinct schedules".into()
    }
    fn gen_header(&mut self, rng: &mut Rng, id: u64, _tier: &str) -> String {
        if rng.chance(1, 60) {
            return format!("sq begin {id} len=3 h0=0 n=2 steps=4"); // malformed: not a power of two
        }
        let len = *rng.pick(&[1u32, 1, 2, 2, 2, 4, 8]);
        let h0: u32 = match rng.below(5) {
            0 => 0,
            1 => 1 << 31,
            _ => u32::MAX - rng.below(2 * len as u64 + 2) as u32,
        };
        let n = rng.range(2, 4);
        let si = rng.chance(1, 4) as u8;
        let kt = (si == 0 && rng.chance(1, 4)) as u8;
        format!("sq begin {id} len={len} h0={h0} n={n} steps={} si={si} kt={kt}", rng.range(20, 80))
    }
    fn begin(&mut self, header: &str) -> Box<dyn Case> {
        Box::new(SqCase::new(header))
    }
}
