//! C13: each operation equals its POSIX call.
//!
//! Every op line creates one operation through the PUBLIC a10 API (arguments,
//! builder methods, regular or direct descriptor), polls it once and captures
//! the 64-byte submission entry the real code published. The entry is printed
//! with its pointers canonicalised (`buf<i>+off`, `state`, `heap`, `static`),
//! the memory it points to is dereferenced the way the kernel would (`mem`),
//! and it is decoded with the io_uring ABI table into the system call it
//! stands for (`call`). The property's own oracle compares that call with the
//! POSIX call the API call means. The operation is then completed with a
//! scripted result (the "kernel" writes out-parameters through the pointers of
//! the entry) and the decoded output is printed and checked.

use std::cell::RefCell;
use std::collections::HashMap;
use std::future::Future;
use std::net::{Ipv4Addr, Ipv6Addr, SocketAddr, SocketAddrV4, SocketAddrV6};
use std::os::fd::BorrowedFd;
use std::os::linux::net::SocketAddrExt;
use std::os::unix::ffi::OsStrExt;
use std::os::unix::net::SocketAddr as UnixAddr;
use std::os::unix::process::ExitStatusExt;
use std::path::PathBuf;
use std::pin::Pin;
use std::rc::Rc;
use std::task::{Context, Poll};
use std::time::{Duration, SystemTime, UNIX_EPOCH};

use a10::io::ReadBufPool;
use a10::{AsyncFd, Ring, SubmissionQueue};

use crate::comp::{Case, CaseReport, Comp};
use crate::simk::{self, PostSpec, Sqe, Target, CQE_F_MORE, CQE_F_NOTIF};
use crate::track;
use crate::util::{self, hex, Rng};

pub struct EncodeComp;

const NO_OFFSET: u64 = u64::MAX;
const ALLOC: u32 = u32::MAX;
const O_CLOEXEC: u32 = libc::O_CLOEXEC as u32;
const TMP_FD: i32 = 1001;
const POOL_BUF: usize = 64;

type Fails = Rc<RefCell<Vec<(String, String, String)>>>;

fn hexs(b: &[u8]) -> String {
    if b.is_empty() { "-".into() } else { hex(b) }
}

fn unhex(s: &str) -> Option<Vec<u8>> {
    if s == "-" {
        return Some(Vec::new());
    }
    if s.len() % 2 != 0 || !s.bytes().all(|c| c.is_ascii_digit() || (b'a'..=b'f').contains(&c)) {
        return None;
    }
    (0..s.len() / 2).map(|i| u8::from_str_radix(&s[2 * i..2 * i + 2], 16).ok()).collect()
}

/// Decimal natural number exactly as the Lean side parses it (`String.toNat?`).
fn nat(s: &str) -> Option<u128> {
    if s.is_empty() || !s.bytes().all(|c| c.is_ascii_digit()) || s.len() > 30 {
        return None;
    }
    s.parse().ok()
}

fn int(s: &str) -> Option<i128> {
    match s.strip_prefix('-') {
        Some(r) => nat(r).map(|v| -(v as i128)),
        None => nat(s).map(|v| v as i128),
    }
}

struct Kv<'a>(Vec<(&'a str, &'a str)>);

impl<'a> Kv<'a> {
    fn new(toks: &[&'a str]) -> Kv<'a> {
        Kv(toks
            .iter()
            .filter_map(|t| {
                let mut it = t.split('=');
                match (it.next(), it.next(), it.next()) {
                    (Some(k), Some(v), None) => Some((k, v)),
                    _ => None,
                }
            })
            .collect())
    }
    fn get(&self, k: &str) -> Option<&'a str> {
        self.0.iter().find(|(a, _)| *a == k).map(|(_, v)| *v)
    }
    fn nat(&self, k: &str) -> Option<u128> {
        self.get(k).and_then(nat)
    }
    fn int(&self, k: &str) -> Option<i128> {
        self.get(k).and_then(int)
    }
    fn u64(&self, k: &str) -> Option<u64> {
        self.nat(k).and_then(|v| u64::try_from(v).ok())
    }
    fn u32(&self, k: &str) -> Option<u32> {
        self.nat(k).and_then(|v| u32::try_from(v).ok())
    }
    /// `none` or a number.
    fn opt(&self, k: &str) -> Option<Option<u128>> {
        let v = self.get(k)?;
        if v == "none" { Some(None) } else { nat(v).map(Some) }
    }
}

// ---------------------------------------------------------------------------
// Addresses

#[derive(Clone, Debug)]
enum AddrSpec {
    None,
    V4(SocketAddrV4),
    V6(SocketAddrV6),
    Any(SocketAddr),
    Unix(UnixAddr),
}

fn parse_addr(s: &str) -> Option<AddrSpec> {
    let f: Vec<&str> = s.split(':').collect();
    match f.as_slice() {
        ["none"] => Some(AddrSpec::None),
        ["unnamed"] => Some(AddrSpec::Unix(UnixAddr::from_pathname("").ok()?)),
        ["path", h] => {
            let p = unhex(h)?;
            if p.is_empty() || p.len() > 107 || p.contains(&0) {
                return None;
            }
            Some(AddrSpec::Unix(UnixAddr::from_pathname(std::ffi::OsStr::from_bytes(&p)).ok()?))
        }
        ["abstract", h] => {
            let p = unhex(h)?;
            if p.len() > 107 {
                return None;
            }
            Some(AddrSpec::Unix(UnixAddr::from_abstract_name(&p).ok()?))
        }
        [t, ip, port] => {
            let ip: [u8; 4] = unhex(ip)?.try_into().ok()?;
            let port = u16::try_from(nat(port)?).ok()?;
            let a = SocketAddrV4::new(Ipv4Addr::from(ip), port);
            match *t {
                "v4" => Some(AddrSpec::V4(a)),
                "any4" => Some(AddrSpec::Any(SocketAddr::V4(a))),
                _ => None,
            }
        }
        [t, ip, port, flow, scope] => {
            let ip: [u8; 16] = unhex(ip)?.try_into().ok()?;
            let port = u16::try_from(nat(port)?).ok()?;
            let flow = u32::try_from(nat(flow)?).ok()?;
            let scope = u32::try_from(nat(scope)?).ok()?;
            let a = SocketAddrV6::new(Ipv6Addr::from(ip), port, flow, scope);
            match *t {
                "v6" => Some(AddrSpec::V6(a)),
                "any6" => Some(AddrSpec::Any(SocketAddr::V6(a))),
                _ => None,
            }
        }
        _ => None,
    }
}

fn show_unix(a: &UnixAddr) -> String {
    if let Some(p) = a.as_pathname() {
        format!("path:{}", hexs(p.as_os_str().as_bytes()))
    } else if let Some(n) = a.as_abstract_name() {
        format!("abstract:{}", hexs(n))
    } else {
        "unnamed".into()
    }
}

fn show_ip(a: &SocketAddr) -> String {
    match a {
        SocketAddr::V4(a) => format!("v4:{}:{}", hexs(&a.ip().octets()), a.port()),
        SocketAddr::V6(a) => {
            format!("v6:{}:{}:{}:{}", hexs(&a.ip().octets()), a.port(), a.flowinfo(), a.scope_id())
        }
    }
}

fn show_spec(a: &AddrSpec) -> String {
    match a {
        AddrSpec::None => "none".into(),
        AddrSpec::V4(a) => show_ip(&SocketAddr::V4(*a)),
        AddrSpec::V6(a) => show_ip(&SocketAddr::V6(*a)),
        AddrSpec::Any(a) => show_ip(a),
        AddrSpec::Unix(a) => show_unix(a),
    }
}

/// The kernel's own representation of an address (what getsockname/accept
/// write): built from the libc structures, independently of a10.
fn kernel_bytes(a: &AddrSpec) -> Vec<u8> {
    fn v4(a: &SocketAddrV4) -> Vec<u8> {
        let mut b = vec![0u8; 16];
        b[0..2].copy_from_slice(&(libc::AF_INET as u16).to_ne_bytes());
        b[2..4].copy_from_slice(&a.port().to_be_bytes());
        b[4..8].copy_from_slice(&a.ip().octets());
        b
    }
    fn v6(a: &SocketAddrV6) -> Vec<u8> {
        let mut b = vec![0u8; 28];
        b[0..2].copy_from_slice(&(libc::AF_INET6 as u16).to_ne_bytes());
        b[2..4].copy_from_slice(&a.port().to_be_bytes());
        b[4..8].copy_from_slice(&a.flowinfo().to_ne_bytes());
        b[8..24].copy_from_slice(&a.ip().octets());
        b[24..28].copy_from_slice(&a.scope_id().to_ne_bytes());
        b
    }
    match a {
        AddrSpec::None => Vec::new(),
        AddrSpec::V4(a) => v4(a),
        AddrSpec::V6(a) => v6(a),
        AddrSpec::Any(SocketAddr::V4(a)) => v4(a),
        AddrSpec::Any(SocketAddr::V6(a)) => v6(a),
        AddrSpec::Unix(a) => {
            let mut b = vec![0u8; 110];
            b[0..2].copy_from_slice(&(libc::AF_UNIX as u16).to_ne_bytes());
            if let Some(p) = a.as_pathname() {
                let p = p.as_os_str().as_bytes();
                b[2..2 + p.len()].copy_from_slice(p);
            } else if let Some(n) = a.as_abstract_name() {
                b[3..3 + n.len()].copy_from_slice(n);
            }
            b
        }
    }
}

/// How the kernel reads a socket address argument of `b.len()` bytes
/// (inet_bind / inet6_bind length checks, unix_validate_addr, unix_mkname_bsd,
/// autobind for a bare family).
fn kernel_addr(b: &[u8]) -> String {
    if b.len() < 2 {
        return "invalid".into();
    }
    let fam = u16::from_ne_bytes([b[0], b[1]]) as i32;
    if fam == libc::AF_INET {
        if b.len() < 16 {
            return "invalid".into();
        }
        let port = u16::from_be_bytes([b[2], b[3]]);
        format!("v4:{}:{}", hexs(&b[4..8]), port)
    } else if fam == libc::AF_INET6 {
        if b.len() < 28 {
            return "invalid".into();
        }
        let port = u16::from_be_bytes([b[2], b[3]]);
        let flow = u32::from_ne_bytes([b[4], b[5], b[6], b[7]]);
        let scope = u32::from_ne_bytes([b[24], b[25], b[26], b[27]]);
        format!("v6:{}:{}:{}:{}", hexs(&b[8..24]), port, flow, scope)
    } else if fam == libc::AF_UNIX {
        if b.len() > 110 {
            return "invalid".into();
        }
        let p = &b[2..];
        if p.is_empty() {
            "unnamed".into()
        } else if p[0] == 0 {
            format!("abstract:{}", hexs(&p[1..]))
        } else {
            let end = p.iter().position(|c| *c == 0).unwrap_or(p.len());
            format!("path:{}", hexs(&p[..end]))
        }
    } else {
        "invalid".into()
    }
}

fn mut_len(at: &str) -> Option<u32> {
    Some(match at {
        "none" => 0,
        "v4" => 16,
        "v6" => 28,
        "any" => 28,
        "unix" => 110,
        _ => return None,
    })
}

// ---------------------------------------------------------------------------
// Flag tables: script numbers (libc values) -> a10's public constants.

fn or_flags<T: Copy + std::ops::BitOr<Output = T>>(n: u128, table: &[(u128, T)]) -> Option<T> {
    let mut acc: Option<T> = None;
    let mut rest = n;
    for (bit, c) in table {
        if n & bit == *bit && *bit != 0 {
            acc = Some(match acc {
                Some(a) => a | *c,
                None => *c,
            });
            rest &= !bit;
        }
    }
    if rest != 0 { None } else { acc }
}

fn one_of<T: Copy>(n: i128, table: &[(i128, T)]) -> Option<T> {
    table.iter().find(|(v, _)| *v == n).map(|(_, c)| *c)
}

fn splice_flags(n: u128) -> Option<a10::io::SpliceFlag> {
    use a10::io::SpliceFlag as F;
    or_flags(n, &[(libc::SPLICE_F_MOVE as u128, F::MOVE), (libc::SPLICE_F_MORE as u128, F::MORE)])
}

const RECV_BITS: [u32; 5] = [
    libc::MSG_CMSG_CLOEXEC as u32,
    libc::MSG_ERRQUEUE as u32,
    libc::MSG_OOB as u32,
    libc::MSG_PEEK as u32,
    libc::MSG_WAITALL as u32,
];

fn recv_flags(n: u128) -> Option<a10::net::RecvFlag> {
    use a10::net::RecvFlag as F;
    or_flags(
        n,
        &[
            (RECV_BITS[0] as u128, F::CMSG_CLOEXEC),
            (RECV_BITS[1] as u128, F::ERR_QUEUE),
            (RECV_BITS[2] as u128, F::OOB),
            (RECV_BITS[3] as u128, F::PEEK),
            (RECV_BITS[4] as u128, F::WAIT_ALL),
        ],
    )
}

const SEND_BITS: [u32; 6] = [
    libc::MSG_CONFIRM as u32,
    libc::MSG_DONTROUTE as u32,
    libc::MSG_EOR as u32,
    libc::MSG_MORE as u32,
    libc::MSG_OOB as u32,
    libc::MSG_FASTOPEN as u32,
];

fn send_flags(n: u128) -> Option<a10::net::SendFlag> {
    use a10::net::SendFlag as F;
    or_flags(
        n,
        &[
            (SEND_BITS[0] as u128, F::CONFIRM),
            (SEND_BITS[1] as u128, F::DONT_ROUTE),
            (SEND_BITS[2] as u128, F::EOR),
            (SEND_BITS[3] as u128, F::MORE),
            (SEND_BITS[4] as u128, F::OOB),
            (SEND_BITS[5] as u128, F::FAST_OPEN),
        ],
    )
}

const ALLOC_BITS: [u32; 6] = [
    libc::FALLOC_FL_KEEP_SIZE as u32,
    libc::FALLOC_FL_UNSHARE_RANGE as u32,
    libc::FALLOC_FL_PUNCH_HOLE as u32,
    libc::FALLOC_FL_COLLAPSE_RANGE as u32,
    libc::FALLOC_FL_ZERO_RANGE as u32,
    libc::FALLOC_FL_INSERT_RANGE as u32,
];

fn alloc_mode(n: u128) -> Option<a10::fs::AllocateMode> {
    use a10::fs::AllocateMode as F;
    or_flags(
        n,
        &[
            (ALLOC_BITS[0] as u128, F::KEEP_SIZE),
            (ALLOC_BITS[1] as u128, F::UNSHARE_RANGE),
            (ALLOC_BITS[2] as u128, F::PUNCH_HOLE),
            (ALLOC_BITS[3] as u128, F::COLLAPSE_RANGE),
            (ALLOC_BITS[4] as u128, F::ZERO_RANGE),
            (ALLOC_BITS[5] as u128, F::INSERT_RANGE),
        ],
    )
}

const STATX_BITS: [u32; 7] = [
    libc::STATX_TYPE,
    libc::STATX_SIZE,
    libc::STATX_BLOCKS,
    libc::STATX_MODE,
    libc::STATX_MTIME,
    libc::STATX_ATIME,
    libc::STATX_BTIME,
];

fn statx_mask(n: u128) -> Option<a10::fs::MetadataInterest> {
    use a10::fs::MetadataInterest as F;
    or_flags(
        n,
        &[
            (STATX_BITS[0] as u128, F::TYPE),
            (STATX_BITS[1] as u128, F::SIZE),
            (STATX_BITS[2] as u128, F::BLOCKS),
            (STATX_BITS[3] as u128, F::MODE),
            (STATX_BITS[4] as u128, F::MODIFIED_TIME),
            (STATX_BITS[5] as u128, F::ACCESSED_TIME),
            (STATX_BITS[6] as u128, F::CREATED_TIME),
        ],
    )
}

fn fadvise_flag(n: i128) -> Option<a10::fs::AdviseFlag> {
    use a10::fs::AdviseFlag as F;
    one_of(
        n,
        &[
            (libc::POSIX_FADV_NORMAL as i128, F::NORMAL),
            (libc::POSIX_FADV_SEQUENTIAL as i128, F::SEQUENTIAL),
            (libc::POSIX_FADV_RANDOM as i128, F::RANDOM),
            (libc::POSIX_FADV_NOREUSE as i128, F::NO_REUSE),
            (libc::POSIX_FADV_WILLNEED as i128, F::WILL_NEED),
            (libc::POSIX_FADV_DONTNEED as i128, F::DONT_NEED),
        ],
    )
}

fn madvise_table() -> Vec<(i128, a10::mem::AdviseFlag)> {
    use a10::mem::AdviseFlag as F;
    vec![
        (libc::MADV_NORMAL as i128, F::NORMAL),
        (libc::MADV_RANDOM as i128, F::RANDOM),
        (libc::MADV_SEQUENTIAL as i128, F::SEQUENTIAL),
        (libc::MADV_WILLNEED as i128, F::WILL_NEED),
        (libc::MADV_DONTNEED as i128, F::DONT_NEED),
        (libc::MADV_REMOVE as i128, F::REMOVE),
        (libc::MADV_DONTFORK as i128, F::DONT_FORK),
        (libc::MADV_DOFORK as i128, F::DO_FORK),
        (libc::MADV_HWPOISON as i128, F::HW_POISON),
        (libc::MADV_MERGEABLE as i128, F::MERGEABLE),
        (libc::MADV_UNMERGEABLE as i128, F::UNMERGEABLE),
        (libc::MADV_SOFT_OFFLINE as i128, F::SOFT_OFFLINE),
        (libc::MADV_HUGEPAGE as i128, F::HUGE_PAGE),
        (libc::MADV_NOHUGEPAGE as i128, F::NO_HUGE_PAGE),
        (libc::MADV_COLLAPSE as i128, F::COLLAPSE),
        (libc::MADV_DONTDUMP as i128, F::DONT_DUMP),
        (libc::MADV_DODUMP as i128, F::DO_DUMP),
        (libc::MADV_FREE as i128, F::FREE),
        (libc::MADV_WIPEONFORK as i128, F::WIPE_ON_FORK),
        (libc::MADV_KEEPONFORK as i128, F::KEEP_ON_FORK),
        (libc::MADV_COLD as i128, F::COLD),
        (libc::MADV_PAGEOUT as i128, F::PAGE_OUT),
        (libc::MADV_POPULATE_READ as i128, F::POPULATE_READ),
        (libc::MADV_POPULATE_WRITE as i128, F::POPULATE_WRITE),
    ]
}

fn wait_table() -> Vec<(i128, a10::process::WaitOption)> {
    use a10::process::WaitOption as F;
    vec![
        (libc::WUNTRACED as i128, F::UNTRACED),
        (libc::WSTOPPED as i128, F::STOPPED),
        (libc::WEXITED as i128, F::EXITED),
        (libc::WCONTINUED as i128, F::CONTINUED),
        (libc::WNOWAIT as i128, F::NO_WAIT),
    ]
}

fn domain_table() -> Vec<(i128, a10::net::Domain)> {
    use a10::net::Domain as D;
    vec![
        (libc::AF_INET as i128, D::IPV4),
        (libc::AF_INET6 as i128, D::IPV6),
        (libc::AF_UNIX as i128, D::UNIX),
        (libc::AF_PACKET as i128, D::PACKET),
        (libc::AF_VSOCK as i128, D::VSOCK),
    ]
}

fn type_table() -> Vec<(i128, a10::net::Type)> {
    use a10::net::Type as T;
    vec![
        (libc::SOCK_STREAM as i128, T::STREAM),
        (libc::SOCK_DGRAM as i128, T::DGRAM),
        (libc::SOCK_RAW as i128, T::RAW),
        (libc::SOCK_RDM as i128, T::RDM),
        (libc::SOCK_SEQPACKET as i128, T::SEQPACKET),
        (libc::SOCK_DCCP as i128, T::DCCP),
    ]
}

fn proto_table() -> Vec<(i128, a10::net::Protocol)> {
    use a10::net::Protocol as P;
    vec![
        (libc::IPPROTO_ICMP as i128, P::ICMPV4),
        (libc::IPPROTO_ICMPV6 as i128, P::ICMPV6),
        (libc::IPPROTO_TCP as i128, P::TCP),
        (libc::IPPROTO_UDP as i128, P::UDP),
        (libc::IPPROTO_DCCP as i128, P::DCCP),
        (libc::IPPROTO_SCTP as i128, P::SCTP),
        (libc::IPPROTO_UDPLITE as i128, P::UDPLITE),
        (libc::IPPROTO_RAW as i128, P::RAW),
        (libc::IPPROTO_MPTCP as i128, P::MPTCP),
    ]
}

/// Names printed by the `Debug` impls of a10's `new_flag!` types -> numbers.
fn dbg_num(s: &str) -> i64 {
    if let Ok(n) = s.parse::<i64>() {
        return n;
    }
    let table: &[(&str, i64)] = &[
        ("SIGHUP", libc::SIGHUP as i64),
        ("SIGINT", libc::SIGINT as i64),
        ("SIGQUIT", libc::SIGQUIT as i64),
        ("SIGILL", libc::SIGILL as i64),
        ("SIGTRAP", libc::SIGTRAP as i64),
        ("SIGABRT", libc::SIGABRT as i64),
        ("SIGIOT", libc::SIGIOT as i64),
        ("SIGBUS", libc::SIGBUS as i64),
        ("SIGFPE", libc::SIGFPE as i64),
        ("SIGKILL", libc::SIGKILL as i64),
        ("SIGUSR1", libc::SIGUSR1 as i64),
        ("SIGSEGV", libc::SIGSEGV as i64),
        ("SIGUSR2", libc::SIGUSR2 as i64),
        ("SIGPIPE", libc::SIGPIPE as i64),
        ("SIGALRM", libc::SIGALRM as i64),
        ("SIGTERM", libc::SIGTERM as i64),
        ("SIGSTKFLT", libc::SIGSTKFLT as i64),
        ("SIGCHLD", libc::SIGCHLD as i64),
        ("SIGCONT", libc::SIGCONT as i64),
        ("SIGSTOP", libc::SIGSTOP as i64),
        ("SIGTSTP", libc::SIGTSTP as i64),
        ("SIGTTIN", libc::SIGTTIN as i64),
        ("SIGTTOU", libc::SIGTTOU as i64),
        ("SIGURG", libc::SIGURG as i64),
        ("SIGXCPU", libc::SIGXCPU as i64),
        ("SIGXFSZ", libc::SIGXFSZ as i64),
        ("SIGVTALRM", libc::SIGVTALRM as i64),
        ("SIGPROF", libc::SIGPROF as i64),
        ("SIGWINCH", libc::SIGWINCH as i64),
        ("SIGIO", libc::SIGIO as i64),
        ("SIGPOLL", libc::SIGPOLL as i64),
        ("SIGPWR", libc::SIGPWR as i64),
        ("SIGSYS", libc::SIGSYS as i64),
        ("CLD_EXITED", libc::CLD_EXITED as i64),
        ("CLD_KILLED", libc::CLD_KILLED as i64),
        ("CLD_DUMPED", libc::CLD_DUMPED as i64),
        ("CLD_STOPPED", libc::CLD_STOPPED as i64),
        ("CLD_TRAPPED", libc::CLD_TRAPPED as i64),
        ("CLD_CONTINUED", libc::CLD_CONTINUED as i64),
        ("AF_INET", libc::AF_INET as i64),
        ("AF_INET6", libc::AF_INET6 as i64),
        ("AF_UNIX", libc::AF_UNIX as i64),
        ("AF_PACKET", libc::AF_PACKET as i64),
        ("AF_VSOCK", libc::AF_VSOCK as i64),
        ("SOCK_STREAM", libc::SOCK_STREAM as i64),
        ("SOCK_DGRAM", libc::SOCK_DGRAM as i64),
        ("SOCK_RAW", libc::SOCK_RAW as i64),
        ("SOCK_RDM", libc::SOCK_RDM as i64),
        ("SOCK_SEQPACKET", libc::SOCK_SEQPACKET as i64),
        ("SOCK_DCCP", libc::SOCK_DCCP as i64),
        ("IPPROTO_ICMP", libc::IPPROTO_ICMP as i64),
        ("IPPROTO_ICMPV6", libc::IPPROTO_ICMPV6 as i64),
        ("IPPROTO_TCP", libc::IPPROTO_TCP as i64),
        ("IPPROTO_UDP", libc::IPPROTO_UDP as i64),
        ("IPPROTO_DCCP", libc::IPPROTO_DCCP as i64),
        ("IPPROTO_SCTP", libc::IPPROTO_SCTP as i64),
        ("IPPROTO_UDPLITE", libc::IPPROTO_UDPLITE as i64),
        ("IPPROTO_RAW", libc::IPPROTO_RAW as i64),
        ("IPPROTO_MPTCP", libc::IPPROTO_MPTCP as i64),
    ];
    table.iter().find(|(n, _)| *n == s).map(|(_, v)| *v).unwrap_or(i64::MIN)
}

/// Socket options: name -> (level, optname, type, readable, writable).
#[derive(Copy, Clone, PartialEq)]
enum OptTy {
    Errno,
    Bool,
    Linger,
    U32,
    I32,
    Cpu,
}

fn opt_info(name: &str) -> Option<(u32, u32, OptTy, bool, bool)> {
    let s = libc::SOL_SOCKET as u32;
    let t = libc::IPPROTO_TCP as u32;
    Some(match name {
        "error" => (s, libc::SO_ERROR as u32, OptTy::Errno, true, false),
        "keepalive" => (s, libc::SO_KEEPALIVE as u32, OptTy::Bool, true, true),
        "linger" => (s, libc::SO_LINGER as u32, OptTy::Linger, true, true),
        "reuseaddr" => (s, libc::SO_REUSEADDR as u32, OptTy::Bool, true, true),
        "reuseport" => (s, libc::SO_REUSEPORT as u32, OptTy::Bool, true, true),
        "type" => (s, libc::SO_TYPE as u32, OptTy::U32, true, false),
        "recvbuf" => (s, libc::SO_RCVBUF as u32, OptTy::U32, true, true),
        "sendbuf" => (s, libc::SO_SNDBUF as u32, OptTy::U32, true, true),
        "recvlowat" => (s, libc::SO_RCVLOWAT as u32, OptTy::U32, true, true),
        "sendlowat" => (s, libc::SO_SNDLOWAT as u32, OptTy::U32, true, false),
        "nodelay" => (t, libc::TCP_NODELAY as u32, OptTy::Bool, true, true),
        "keepcnt" => (t, libc::TCP_KEEPCNT as u32, OptTy::U32, true, true),
        "keepintvl" => (t, libc::TCP_KEEPINTVL as u32, OptTy::U32, true, true),
        "domain" => (s, libc::SO_DOMAIN as u32, OptTy::I32, true, false),
        "protocol" => (s, libc::SO_PROTOCOL as u32, OptTy::U32, true, false),
        "acceptconn" => (s, libc::SO_ACCEPTCONN as u32, OptTy::Bool, true, false),
        "keepidle" => (t, libc::TCP_KEEPIDLE as u32, OptTy::U32, true, true),
        "incomingcpu" => (s, libc::SO_INCOMING_CPU as u32, OptTy::Cpu, true, true),
        "cork" => (t, libc::TCP_CORK as u32, OptTy::Bool, true, true),
        _ => return None,
    })
}

fn opt_size(t: OptTy) -> u32 {
    if t == OptTy::Linger { 8 } else { 4 }
}

// ---------------------------------------------------------------------------
// Type-erased operations

trait Erased {
    /// `None` = Pending, otherwise the decoded output (without the `out ` prefix).
    fn poll(&mut self, cx: &mut Context<'_>) -> Option<String>;
    /// Apply the operation's builder methods again (after the first poll).
    fn late(&mut self);
}

struct Fut<F, T> {
    fut: Option<F>,
    late: Option<Box<dyn FnOnce(F) -> F>>,
    canon: Box<dyn FnMut(std::io::Result<T>) -> String>,
}

impl<F: Future<Output = std::io::Result<T>> + Unpin, T> Erased for Fut<F, T> {
    fn poll(&mut self, cx: &mut Context<'_>) -> Option<String> {
        match Pin::new(self.fut.as_mut().unwrap()).poll(cx) {
            Poll::Pending => None,
            Poll::Ready(r) => Some((self.canon)(r)),
        }
    }
    fn late(&mut self) {
        if let Some(l) = self.late.take() {
            let f = self.fut.take().unwrap();
            self.fut = Some(l(f));
        }
    }
}

fn fut<F, T>(f: F, canon: impl FnMut(std::io::Result<T>) -> String + 'static) -> Box<dyn Erased>
where
    F: Future<Output = std::io::Result<T>> + Unpin + 'static,
    T: 'static,
{
    Box::new(Fut { fut: Some(f), late: None, canon: Box::new(canon) })
}

fn fut_late<F, T>(
    f: F,
    late: impl FnOnce(F) -> F + 'static,
    canon: impl FnMut(std::io::Result<T>) -> String + 'static,
) -> Box<dyn Erased>
where
    F: Future<Output = std::io::Result<T>> + Unpin + 'static,
    T: 'static,
{
    Box::new(Fut { fut: Some(f), late: Some(Box::new(late)), canon: Box::new(canon) })
}

/// Multishot iterators: `poll_next` is an inherent method, passed as a fn.
struct Iter<I, T> {
    it: Option<I>,
    next: fn(Pin<&mut I>, &mut Context<'_>) -> Poll<Option<std::io::Result<T>>>,
    late: Option<Box<dyn FnOnce(I) -> I>>,
    canon: Box<dyn FnMut(std::io::Result<T>) -> String>,
}

impl<I: Unpin, T> Erased for Iter<I, T> {
    fn poll(&mut self, cx: &mut Context<'_>) -> Option<String> {
        match (self.next)(Pin::new(self.it.as_mut().unwrap()), cx) {
            Poll::Pending => None,
            Poll::Ready(None) => Some("none".into()),
            Poll::Ready(Some(r)) => Some((self.canon)(r)),
        }
    }
    fn late(&mut self) {
        if let Some(l) = self.late.take() {
            let f = self.it.take().unwrap();
            self.it = Some(l(f));
        }
    }
}

/// Error part of an output line; `expect` = the errno the kernel reported.
fn show_err(e: &std::io::Error) -> String {
    match e.raw_os_error() {
        Some(n) => format!("err {n}"),
        None if e.kind() == std::io::ErrorKind::Unsupported => "err unsupported".into(),
        None => format!("err kind:{:?}", e.kind()),
    }
}

// ---------------------------------------------------------------------------
// Memory context and canonical forms

struct Ctx {
    /// the operation's state box (`user_data & !1`)
    state: Option<track::Block>,
    /// caller buffers: (base, size)
    bufs: Vec<(usize, usize)>,
    pool_gid: Option<u16>,
}

impl Ctx {
    fn in_state(&self, p: usize, n: usize) -> bool {
        self.state.is_some_and(|b| p >= b.base && p + n <= b.base + b.size)
    }
    fn in_buf(&self, p: usize, n: usize) -> Option<(usize, usize)> {
        self.bufs
            .iter()
            .enumerate()
            .find(|(_, (b, s))| p >= *b && p + n <= *b + *s)
            .map(|(i, (b, _))| (i, p - *b))
    }
    /// Canonical form of the base of the `i`-th iovec: empty `Vec`s all share
    /// the dangling pointer, so the buffer at the same position is preferred.
    fn ptr_at(&self, p: u64, i: usize) -> String {
        if let Some((b, s)) = self.bufs.get(i) {
            let q = p as usize;
            if p != 0 && q >= *b && q <= *b + *s {
                return format!("buf{i}+{}", q - *b);
            }
        }
        self.ptr(p)
    }
    /// Canonical form of a pointer-typed field.
    fn ptr(&self, p: u64) -> String {
        let p = p as usize;
        if p == 0 {
            return "0".into();
        }
        if let Some((i, o)) = self.in_buf(p, 0) {
            return format!("buf{i}+{o}");
        }
        if self.in_state(p, 1) {
            return "state".into();
        }
        if track::block_of(p).is_some() {
            return "heap".into();
        }
        if safe_read(p, 1).is_some() {
            return "static".into();
        }
        format!("bad:{p:#x}")
    }
    /// Read `n` bytes the request points to; only inside one live heap block.
    fn peek(&self, p: u64, n: usize) -> Option<Vec<u8>> {
        let p = p as usize;
        let b = track::block_of(p)?;
        if p + n > b.base + b.size {
            return None;
        }
        Some(unsafe { std::slice::from_raw_parts(p as *const u8, n) }.to_vec())
    }
    /// NUL-terminated string inside one live heap block.
    fn cstr(&self, p: u64) -> Option<Vec<u8>> {
        let p = p as usize;
        let b = track::block_of(p)?;
        let max = b.base + b.size - p;
        let s = unsafe { std::slice::from_raw_parts(p as *const u8, max) };
        let end = s.iter().position(|c| *c == 0)?;
        Some(s[..end].to_vec())
    }
    /// The "kernel" writes an out-parameter: only into the operation's own
    /// state box or a caller buffer.
    fn poke(&self, p: u64, bytes: &[u8]) -> bool {
        let p = p as usize;
        if bytes.is_empty() {
            return true;
        }
        if p != 0 && (self.in_state(p, bytes.len()) || self.in_buf(p, bytes.len()).is_some()) {
            unsafe { std::ptr::copy_nonoverlapping(bytes.as_ptr(), p as *mut u8, bytes.len()) };
            true
        } else {
            false
        }
    }
}

/// Read memory that may not be mapped: let the kernel copy it into a pipe.
fn safe_read(p: usize, n: usize) -> Option<Vec<u8>> {
    let mut fds = [0i32; 2];
    // the harness's own pipe: not through the (trapped) `pipe2` symbol
    if unsafe { simk::raw_syscall(libc::SYS_pipe2, fds.as_mut_ptr() as i64, (libc::O_CLOEXEC | libc::O_NONBLOCK) as i64, 0, 0, 0, 0) } != 0 {
        return None;
    }
    let w = unsafe { libc::write(fds[1], p as *const libc::c_void, n) };
    let mut out = vec![0u8; n];
    let ok = w == n as isize && unsafe { libc::read(fds[0], out.as_mut_ptr().cast(), n) } == n as isize;
    unsafe {
        libc::close(fds[0]);
        libc::close(fds[1]);
    }
    if ok { Some(out) } else { None }
}

/// Which 64-bit fields of the entry carry pointers (per the ABI table).
fn ptr_fields(op: &str, s: &Sqe) -> (bool, bool, bool) {
    match op {
        "read" | "write" | "send" | "recv" | "sigrecv" => (false, true, false),
        "sendto" => (true, true, false),
        "readv" | "writev" | "recvv" | "recvfrom" | "recvfromv" | "sendmsg" => (false, true, false),
        "open" | "mkdir" | "unlink" => (false, true, false),
        "rename" | "statx" => (true, true, false),
        "bind" | "connect" | "todirect" | "pipe" => (false, true, false),
        "accept" => (true, true, false),
        "sockname" => (false, true, true),
        "getsockopt" | "setsockopt" => (false, false, true),
        "waitid" => (true, false, false),
        _ => {
            let _ = s;
            (false, false, false)
        }
    }
}

fn show_sqe(tag: &str, op: &str, s: &Sqe, cx: &Ctx) -> String {
    let (po, pa, p3) = ptr_fields(op, s);
    let val = |is_ptr: bool, v: u64| if is_ptr { cx.ptr(v) } else { v.to_string() };
    let bidx = if cx.pool_gid == Some(s.buf_index) && s.flags & simk::IOSQE_BUFFER_SELECT != 0 {
        "pool".to_string()
    } else {
        s.buf_index.to_string()
    };
    let ud = if s.user_data <= 3 {
        s.user_data.to_string()
    } else if cx.state.is_some_and(|b| b.base == (s.user_data & !1) as usize) {
        if s.user_data & 1 == 1 { "multi".into() } else { "single".into() }
    } else {
        format!("bad:{:#x}", s.user_data)
    };
    format!(
        "{tag} op={} fl={} prio={} fd={} off={} addr={} len={} opfl={} bidx={} pers={} fidx={} addr3={} ud={}",
        s.opcode,
        s.flags,
        s.ioprio,
        s.fd,
        val(po, s.off),
        val(pa, s.addr),
        s.len,
        s.op_flags,
        bidx,
        s.personality,
        s.file_index,
        val(p3, s.addr3),
        ud
    )
}

/// What the request points to, read the way the kernel would.
#[derive(Default)]
struct MemV {
    iov: Option<String>,
    iov_n: usize,
    msg: Option<(String, u32, usize, u64, usize, i32)>,
    addr: Option<Vec<u8>>,
    alen: Option<u32>,
    path: Option<Vec<u8>>,
    path2: Option<Vec<u8>>,
    optval: Option<Vec<u8>>,
    fds: Option<Vec<i32>>,
    /// raw pointers for the completion writer
    msg_name: u64,
    iovecs: Vec<(u64, usize)>,
}

fn rd_u32(b: &[u8], o: usize) -> u32 {
    u32::from_ne_bytes(b[o..o + 4].try_into().unwrap())
}
fn rd_u64(b: &[u8], o: usize) -> u64 {
    u64::from_ne_bytes(b[o..o + 8].try_into().unwrap())
}

fn read_iov(cx: &Ctx, p: u64, n: usize, m: &mut MemV) {
    let n = n.min(64);
    let Some(raw) = cx.peek(p, n * 16) else {
        m.iov = Some("unreadable".into());
        return;
    };
    let mut parts = Vec::new();
    for i in 0..n {
        let base = rd_u64(&raw, i * 16);
        let len = rd_u64(&raw, i * 16 + 8) as usize;
        parts.push(format!("{}:{}", cx.ptr_at(base, i), len));
        m.iovecs.push((base, len));
    }
    m.iov_n = n;
    m.iov = Some(if parts.is_empty() { "-".into() } else { parts.join(",") });
}

fn read_mem(op: &str, s: &Sqe, cx: &Ctx) -> MemV {
    let mut m = MemV::default();
    match op {
        "readv" | "writev" => read_iov(cx, s.addr, s.len as usize, &mut m),
        "recvv" | "recvfrom" | "recvfromv" | "sendmsg" => {
            if let Some(h) = cx.peek(s.addr, 56) {
                let name = rd_u64(&h, 0);
                let namelen = rd_u32(&h, 8);
                let iov = rd_u64(&h, 16);
                let iovlen = rd_u64(&h, 24) as usize;
                let ctl = rd_u64(&h, 32);
                let ctllen = rd_u64(&h, 40) as usize;
                let flags = rd_u32(&h, 48) as i32;
                m.msg = Some((cx.ptr(name), namelen, iovlen, ctl, ctllen, flags));
                m.msg_name = name;
                read_iov(cx, iov, iovlen, &mut m);
                if op == "sendmsg" {
                    m.addr = Some(if name == 0 { Vec::new() } else { cx.peek(name, namelen.min(128) as usize).unwrap_or_default() });
                }
            }
        }
        "bind" | "connect" => m.addr = cx.peek(s.addr, (s.off as usize).min(128)),
        "sendto" => {
            let n = (s.file_index & 0xffff) as usize;
            m.addr = Some(if s.off == 0 { Vec::new() } else { cx.peek(s.off, n.min(128)).unwrap_or_default() });
        }
        "accept" => m.alen = cx.peek(s.off, 4).map(|b| rd_u32(&b, 0)),
        "sockname" => m.alen = cx.peek(s.addr3, 4).map(|b| rd_u32(&b, 0)),
        "open" | "mkdir" | "unlink" => m.path = cx.cstr(s.addr),
        "rename" => {
            m.path = cx.cstr(s.addr);
            m.path2 = cx.cstr(s.off);
        }
        "statx" => {
            // a static string: read it byte-wise until the NUL (at most 16 bytes)
            let mut v = Vec::new();
            let mut ok = false;
            for i in 0..16 {
                match safe_read(s.addr as usize + i, 1) {
                    Some(b) if b[0] == 0 => {
                        ok = true;
                        break;
                    }
                    Some(b) => v.push(b[0]),
                    None => break,
                }
            }
            if ok && track::block_of(s.addr as usize).is_none() {
                m.path = Some(v);
            }
        }
        "setsockopt" => m.optval = cx.peek(s.addr3, (s.file_index as usize).min(64)),
        "todirect" => {
            m.fds = cx.peek(s.addr, (s.len as usize).min(16) * 4).map(|b| (0..b.len() / 4).map(|i| rd_u32(&b, i * 4) as i32).collect())
        }
        "pipe" => m.fds = cx.peek(s.addr, 8).map(|b| vec![rd_u32(&b, 0) as i32, rd_u32(&b, 4) as i32]),
        _ => {}
    }
    m
}

fn show_ints(v: &[i32]) -> String {
    if v.is_empty() { "-".into() } else { v.iter().map(|x| x.to_string()).collect::<Vec<_>>().join(",") }
}

fn show_mem(m: &MemV) -> Option<String> {
    let mut p: Vec<String> = Vec::new();
    if let Some(i) = &m.iov {
        p.push(format!("iov={i}"));
    }
    if let Some((name, nl, il, ctl, cl, fl)) = &m.msg {
        p.push(format!("msgname={name}"));
        p.push(format!("msgnamelen={nl}"));
        p.push(format!("msgiovlen={il}"));
        p.push(format!("msgctl={ctl}:{cl}"));
        p.push(format!("msgflags={fl}"));
    }
    if let Some(a) = &m.addr {
        p.push(format!("addr={}", hexs(a)));
    }
    if let Some(a) = &m.alen {
        p.push(format!("alen={a}"));
    }
    if let Some(a) = &m.path {
        p.push(format!("path={}", hexs(a)));
    }
    if let Some(a) = &m.path2 {
        p.push(format!("path2={}", hexs(a)));
    }
    if let Some(a) = &m.optval {
        p.push(format!("optval={}", hexs(a)));
    }
    if let Some(a) = &m.fds {
        p.push(format!("fds={}", show_ints(a)));
    }
    if p.is_empty() { None } else { Some(format!("mem {}", p.join(" "))) }
}

// ---------------------------------------------------------------------------
// The io_uring ABI table (oracle side): the system call an entry stands for.
// Written from io_uring_enter(2) / liburing's io_uring_prep_* helpers,
// independently of the Lean model.

const F_FIXED: u8 = simk::IOSQE_FIXED_FILE;
const F_ASYNC: u8 = 1 << 4;
const F_BUFSEL: u8 = simk::IOSQE_BUFFER_SELECT;
const F_SKIP: u8 = simk::IOSQE_CQE_SKIP_SUCCESS;

fn fdargs(s: &Sqe) -> String {
    format!("fd={} fixed={}", s.fd, u8::from(s.flags & F_FIXED != 0))
}

fn abi_call(op: &str, s: &Sqe, m: &MemV, cx: &Ctx) -> String {
    let rej = || "call rejected".to_string();
    let only = |allowed: u8| s.flags & !allowed == 0;
    let f = F_FIXED | F_ASYNC;
    let pool = cx.pool_gid == Some(s.buf_index);
    let st = |p: u64| p != 0 && cx.in_state(p as usize, 1);
    let heap = |p: u64| cx.ptr(p) == "heap";
    match op {
        "read" | "sigrecv" | "write" => {
            let want = if op == "write" { simk::OP_WRITE } else { simk::OP_READ };
            if s.opcode != want || !only(f) || s.buf_index != 0 {
                return rej();
            }
            format!("call {} {} buf={} count={} off={}", if op == "write" { "write" } else { "read" }, fdargs(s), cx.ptr(s.addr), s.len, s.off)
        }
        "readp" => {
            if s.opcode != simk::OP_READ || !only(f | F_BUFSEL) || s.flags & F_BUFSEL == 0 || !pool || s.addr != 0 {
                return rej();
            }
            format!("call read {} bufgroup=1 count={} off={}", fdargs(s), s.len, s.off)
        }
        "mread" => {
            if s.opcode != simk::OP_READ_MULTISHOT || !only(f | F_BUFSEL) || s.flags & F_BUFSEL == 0 || !pool || s.addr != 0 || s.len != 0 || s.user_data & 1 == 0 {
                return rej();
            }
            format!("call read_multishot {} bufgroup=1", fdargs(s))
        }
        "readv" | "writev" => {
            let want = if op == "readv" { simk::OP_READV } else { simk::OP_WRITEV };
            let Some(iov) = &m.iov else { return rej() };
            if s.opcode != want || !only(f) || !st(s.addr) || s.len as usize != m.iov_n || s.op_flags != 0 {
                return rej();
            }
            format!("call {op} {} iov={iov} off={}", fdargs(s), s.off)
        }
        "splice" => {
            if s.opcode != simk::OP_SPLICE || !only(f) {
                return rej();
            }
            format!(
                "call splice fd_in={} in_fixed={} off_in={} fd_out={} out_fixed={} off_out={} len={} flags={}",
                s.file_index,
                u8::from(s.op_flags & (1 << 31) != 0),
                s.addr,
                s.fd,
                u8::from(s.flags & F_FIXED != 0),
                s.off,
                s.len,
                s.op_flags & !(1 << 31)
            )
        }
        "close" | "dropfd" => {
            if s.opcode != simk::OP_CLOSE || !only(F_SKIP) || s.off != 0 || s.addr != 0 || s.len != 0 || s.op_flags != 0 || s.buf_index != 0 || (s.file_index != 0 && s.fd != 0) {
                return rej();
            }
            if s.file_index == 0 {
                format!("call close fd={} fixed=0", s.fd)
            } else {
                format!("call close fd={} fixed=1", s.file_index - 1)
            }
        }
        "open" => {
            let Some(p) = &m.path else { return rej() };
            if s.opcode != simk::OP_OPENAT || s.flags != 0 || !heap(s.addr) || s.off != 0 || s.buf_index != 0 {
                return rej();
            }
            format!("call openat dirfd={} path={} flags={} mode={} slot={}", s.fd, hexs(p), s.op_flags, s.len, s.file_index)
        }
        "mkdir" => {
            let Some(p) = &m.path else { return rej() };
            if s.opcode != simk::OP_MKDIRAT || s.flags != 0 || !heap(s.addr) || s.off != 0 || s.op_flags != 0 || s.file_index != 0 {
                return rej();
            }
            format!("call mkdirat dirfd={} path={} mode={}", s.fd, hexs(p), s.len)
        }
        "rename" => {
            let (Some(p), Some(p2)) = (&m.path, &m.path2) else { return rej() };
            if s.opcode != simk::OP_RENAMEAT || s.flags != 0 || !heap(s.addr) || !heap(s.off) || s.file_index != 0 {
                return rej();
            }
            format!("call renameat olddirfd={} oldpath={} newdirfd={} newpath={} flags={}", s.fd, hexs(p), s.len as i32, hexs(p2), s.op_flags)
        }
        "unlink" => {
            let Some(p) = &m.path else { return rej() };
            if s.opcode != simk::OP_UNLINKAT || s.flags != 0 || !heap(s.addr) || s.off != 0 || s.len != 0 || s.file_index != 0 {
                return rej();
            }
            format!("call unlinkat dirfd={} path={} flags={}", s.fd, hexs(p), s.op_flags)
        }
        "fsync" => {
            if s.opcode != simk::OP_FSYNC || !only(f) || s.addr != 0 || s.buf_index != 0 || s.file_index != 0 || s.off != 0 || s.len != 0 || s.op_flags >= 2 {
                return rej();
            }
            format!("call fsync {} datasync={}", fdargs(s), s.op_flags)
        }
        "statx" => {
            let Some(p) = &m.path else { return rej() };
            // never a registered file: io_statx_prep answers -EBADF to IOSQE_FIXED_FILE
            if s.opcode != simk::OP_STATX || !only(F_ASYNC) || cx.ptr(s.addr) != "static" || s.buf_index != 0 || s.file_index != 0 {
                return rej();
            }
            format!("call statx {} path={} flags={} mask={} buf={}", fdargs(s), hexs(p), s.op_flags, s.len, cx.ptr(s.off))
        }
        "fadvise" => {
            if s.opcode != simk::OP_FADVISE || !only(f) || s.addr != 0 || s.buf_index != 0 || s.file_index != 0 {
                return rej();
            }
            format!("call fadvise {} off={} len={} advice={}", fdargs(s), s.off, s.len, s.op_flags)
        }
        "fallocate" => {
            if s.opcode != simk::OP_FALLOCATE || !only(f) || s.op_flags != 0 || s.buf_index != 0 || s.file_index != 0 {
                return rej();
            }
            format!("call fallocate {} mode={} off={} len={}", fdargs(s), s.len, s.off, s.addr)
        }
        "ftruncate" => {
            if s.opcode != simk::OP_FTRUNCATE || !only(f) || s.addr != 0 || s.len != 0 || s.op_flags != 0 || s.buf_index != 0 || s.file_index != 0 || s.addr3 != 0 {
                return rej();
            }
            format!("call ftruncate {} len={}", fdargs(s), s.off)
        }
        "socket" => {
            if s.opcode != simk::OP_SOCKET || s.flags != 0 || s.addr != 0 || s.op_flags != 0 {
                return rej();
            }
            format!("call socket domain={} type={} protocol={} flags={} slot={}", s.fd, s.off, s.len, s.op_flags, s.file_index)
        }
        "bind" | "connect" => {
            let want = if op == "bind" { simk::OP_BIND } else { simk::OP_CONNECT };
            let Some(b) = &m.addr else { return rej() };
            if s.opcode != want || !only(f) || !st(s.addr) || s.off != b.len() as u64 || s.len != 0 || s.op_flags != 0 || s.buf_index != 0 || s.file_index != 0 {
                return rej();
            }
            format!("call {op} {} addr={}", fdargs(s), kernel_addr(b))
        }
        "listen" => {
            if s.opcode != simk::OP_LISTEN || !only(f) || s.addr != 0 || s.off != 0 || s.op_flags != 0 || s.file_index != 0 {
                return rej();
            }
            format!("call listen {} backlog={}", fdargs(s), s.len)
        }
        "sockname" => {
            let Some(l) = m.alen else { return rej() };
            if s.opcode != simk::OP_URING_CMD || !only(f) || s.off != 5 || !st(s.addr) || !st(s.addr3) || s.file_index >= 2 || s.len != 0 || s.op_flags != 0 {
                return rej();
            }
            format!("call {} {} addr={} addrlen={l}", if s.file_index == 0 { "getsockname" } else { "getpeername" }, fdargs(s), cx.ptr(s.addr))
        }
        "recv" => {
            if s.opcode != simk::OP_RECV || !only(f) || s.off != 0 || s.ioprio != 0 || s.buf_index != 0 {
                return rej();
            }
            format!("call recv {} buf={} count={} flags={}", fdargs(s), cx.ptr(s.addr), s.len, s.op_flags)
        }
        "recvp" => {
            if s.opcode != simk::OP_RECV || !only(f | F_BUFSEL) || s.flags & F_BUFSEL == 0 || s.off != 0 || s.ioprio != 0 || !pool || s.addr != 0 {
                return rej();
            }
            format!("call recv {} bufgroup=1 count={} flags={}", fdargs(s), s.len, s.op_flags)
        }
        "mrecv" => {
            if s.opcode != simk::OP_RECV || !only(f | F_BUFSEL) || s.flags & F_BUFSEL == 0 || s.off != 0 || s.ioprio != 2 || !pool || s.addr != 0 || s.len != 0 || s.user_data & 1 == 0 {
                return rej();
            }
            format!("call recv_multishot {} bufgroup=1 flags={}", fdargs(s), s.op_flags)
        }
        "recvv" | "recvfrom" | "recvfromv" => {
            let (Some(g), Some(iov)) = (&m.msg, &m.iov) else { return rej() };
            if s.opcode != simk::OP_RECVMSG || !only(f) || !st(s.addr) || s.len != 1 || s.off != 0 || s.ioprio != 0 || g.2 != m.iov_n || s.buf_index != 0 {
                return rej();
            }
            format!("call recvmsg {} name={} namelen={} iov={iov} control={} flags={}", fdargs(s), g.0, g.1, g.4, s.op_flags)
        }
        "send" => {
            if (s.opcode != simk::OP_SEND && s.opcode != simk::OP_SEND_ZC) || !only(f) || s.off != 0 || s.ioprio != 0 || s.file_index != 0 || s.buf_index != 0 {
                return rej();
            }
            format!("call send {} buf={} count={} flags={} zc={}", fdargs(s), cx.ptr(s.addr), s.len, s.op_flags, u8::from(s.opcode == simk::OP_SEND_ZC))
        }
        "sendto" => {
            let Some(b) = &m.addr else { return rej() };
            if (s.opcode != simk::OP_SEND && s.opcode != simk::OP_SEND_ZC) || !only(f) || s.ioprio != 0 || s.file_index as usize != b.len() || s.buf_index != 0 || !(st(s.off) || (s.off == 0 && b.is_empty())) {
                return rej();
            }
            let a = if b.is_empty() { "0".to_string() } else { kernel_addr(b) };
            format!("call sendto {} buf={} count={} flags={} addr={a} zc={}", fdargs(s), cx.ptr(s.addr), s.len, s.op_flags, u8::from(s.opcode == simk::OP_SEND_ZC))
        }
        "sendmsg" => {
            let (Some(g), Some(iov), Some(b)) = (&m.msg, &m.iov, &m.addr) else { return rej() };
            if (s.opcode != simk::OP_SENDMSG && s.opcode != simk::OP_SENDMSG_ZC) || !only(f) || !st(s.addr) || s.len != 1 || s.off != 0 || s.ioprio != 0 || g.2 != m.iov_n || g.1 as usize != b.len() || !(g.0 == "state" || (g.0 == "0" && b.is_empty())) {
                return rej();
            }
            let a = if b.is_empty() { "0".to_string() } else { kernel_addr(b) };
            format!("call sendmsg {} addr={a} iov={iov} control={} flags={} zc={}", fdargs(s), g.4, s.op_flags, u8::from(s.opcode == simk::OP_SENDMSG_ZC))
        }
        "accept" => {
            let Some(l) = m.alen else { return rej() };
            if s.opcode != simk::OP_ACCEPT || !only(f) || !st(s.off) || s.len != 0 || s.ioprio != 0 || (s.file_index != 0 && s.op_flags & O_CLOEXEC != 0) {
                return rej();
            }
            format!("call accept4 {} addr={} addrlen={l} flags={} slot={}", fdargs(s), cx.ptr(s.addr), s.op_flags, s.file_index)
        }
        "maccept" => {
            if s.opcode != simk::OP_ACCEPT || !only(f) || s.off != 0 || s.addr != 0 || s.len != 0 || s.ioprio != 1 || s.user_data & 1 == 0 || (s.file_index != 0 && s.op_flags & O_CLOEXEC != 0) {
                return rej();
            }
            format!("call accept4_multishot {} flags={} slot={}", fdargs(s), s.op_flags, s.file_index)
        }
        "getsockopt" => {
            if s.opcode != simk::OP_URING_CMD || !only(f) || s.off != 2 || !st(s.addr3) || s.len != 0 || s.op_flags != 0 {
                return rej();
            }
            format!("call getsockopt {} level={} optname={} optval={} optlen={}", fdargs(s), s.addr & 0xffff_ffff, s.addr >> 32, cx.ptr(s.addr3), s.file_index)
        }
        "setsockopt" => {
            let Some(v) = &m.optval else { return rej() };
            if s.opcode != simk::OP_URING_CMD || !only(f) || s.off != 3 || !st(s.addr3) || s.len != 0 || s.op_flags != 0 || s.file_index as usize != v.len() {
                return rej();
            }
            format!("call setsockopt {} level={} optname={} optval={} optlen={}", fdargs(s), s.addr & 0xffff_ffff, s.addr >> 32, hexs(v), s.file_index)
        }
        "shutdown" => {
            if s.opcode != simk::OP_SHUTDOWN || !only(f) || s.off != 0 || s.addr != 0 || s.op_flags != 0 || s.buf_index != 0 || s.file_index != 0 {
                return rej();
            }
            format!("call shutdown {} how={}", fdargs(s), s.len)
        }
        "waitid" => {
            if s.opcode != simk::OP_WAITID || s.flags != 0 || s.addr != 0 || s.op_flags != 0 || s.buf_index != 0 {
                return rej();
            }
            format!("call waitid idtype={} id={} info={} options={}", s.len, s.fd, cx.ptr(s.off), s.file_index)
        }
        "todirect" => {
            let Some(fds) = &m.fds else { return rej() };
            if s.opcode != simk::OP_FILES_UPDATE || s.flags != 0 || !st(s.addr) || s.len as usize != fds.len() || s.op_flags != 0 {
                return rej();
            }
            format!("call files_update offset={} fds={} nr={}", s.off, show_ints(fds), s.len)
        }
        "tofd" => {
            if s.opcode != simk::OP_FIXED_FD_INSTALL || s.flags != F_FIXED || s.off != 0 || s.addr != 0 || s.len != 0 || s.buf_index != 0 || s.file_index != 0 {
                return rej();
            }
            format!("call fixed_fd_install {} flags={}", fdargs(s), s.op_flags)
        }
        "pipe" => {
            if m.fds.is_none() || s.opcode != simk::OP_PIPE || s.flags != 0 || !st(s.addr) || s.off != 0 || s.len != 0 || s.buf_index != 0 || s.fd != 0 {
                return rej();
            }
            format!("call pipe2 fds={} flags={} slot={}", cx.ptr(s.addr), s.op_flags, s.file_index)
        }
        "madvise" => {
            if s.opcode != simk::OP_MADVISE || s.flags != 0 || s.off != 0 || s.buf_index != 0 || s.file_index != 0 {
                return rej();
            }
            format!("call madvise addr={} len={} advice={}", s.addr, s.len, s.op_flags)
        }
        "pollable" => {
            // io_poll_add_prep: buf_index, off, addr must be zero, `len` holds the poll flags
            // (only IORING_POLL_ADD_MULTI known here); a10 tags multishot requests in user_data
            if s.opcode != simk::OP_POLL_ADD || s.flags != 0 || s.off != 0 || s.addr != 0 || s.buf_index != 0 || s.len > 1 || ((s.user_data & 1 == 1) != (s.len == 1)) {
                return rej();
            }
            format!("call poll fd={} events={} multi={}", s.fd, s.op_flags, s.len)
        }
        _ => rej(),
    }
}

// ---------------------------------------------------------------------------
// Building operations through the public API

fn pattern(n: usize) -> Vec<u8> {
    (0..n).map(|i| (i * 7 + 3) as u8).collect()
}

fn show_fd(fd: &AsyncFd) -> String {
    // `AsyncFd { fd: 5, kind: Direct }`
    let d = format!("{fd:?}");
    let num = d.split("fd: ").nth(1).and_then(|r| r.split(',').next()).unwrap_or("?").to_string();
    let kind = if d.contains("Direct") { "d" } else if d.contains("File") { "f" } else { "?" };
    format!("fd={num} kind={kind}")
}

trait ShowAddr {
    fn show(&self) -> String;
}
impl ShowAddr for SocketAddrV4 {
    fn show(&self) -> String {
        show_ip(&SocketAddr::V4(*self))
    }
}
impl ShowAddr for SocketAddrV6 {
    fn show(&self) -> String {
        show_ip(&SocketAddr::V6(*self))
    }
}
impl ShowAddr for SocketAddr {
    fn show(&self) -> String {
        show_ip(self)
    }
}
impl ShowAddr for UnixAddr {
    fn show(&self) -> String {
        show_unix(self)
    }
}
impl ShowAddr for a10::net::NoAddress {
    fn show(&self) -> String {
        "none".into()
    }
}

/// Is `klen` a length the kernel reports for `peer` read as address type `at`?
fn legit_peer(at: &str, peer: &AddrSpec, klen: u32) -> bool {
    match (at, peer) {
        ("v4", AddrSpec::V4(_)) | ("any", AddrSpec::V4(_)) => klen == 16,
        ("v6", AddrSpec::V6(_)) | ("any", AddrSpec::V6(_)) => klen == 28,
        ("unix", AddrSpec::Unix(a)) => {
            if let Some(p) = a.as_pathname() {
                let n = p.as_os_str().len() as u32;
                klen == 2 + n + 1 || klen == 2 + n
            } else if let Some(n) = a.as_abstract_name() {
                klen == 3 + n.len() as u32
            } else {
                // getsockname & co report 2, recvmsg reports 0 for an unbound sender
                klen == 2 || klen == 0
            }
        }
        ("none", _) => klen == 0,
        _ => false,
    }
}

struct Built {
    /// (actual descriptor number, number the script uses for it)
    fd_alias: Option<(i32, i32)>,
    obj: Box<dyn Erased>,
    bufs: Vec<(usize, usize)>,
    posix: String,
    cleanup: Option<Box<dyn FnOnce()>>,
    /// the decoded output a successful call must produce, where the harness
    /// can tell (socket names with a length the kernel reports, full-size options)
    expect_ok: Option<String>,
}

macro_rules! dispatch_n {
    ($n:expr, $f:ident [$($g:ty),*] ( $($a:expr),* )) => {
        match $n {
            1 => $f::<$($g,)* 1>($($a),*),
            2 => $f::<$($g,)* 2>($($a),*),
            3 => $f::<$($g,)* 3>($($a),*),
            4 => $f::<$($g,)* 4>($($a),*),
            5 => $f::<$($g,)* 5>($($a),*),
            6 => $f::<$($g,)* 6>($($a),*),
            7 => $f::<$($g,)* 7>($($a),*),
            _ => $f::<$($g,)* 8>($($a),*),
        }
    };
}

/// Expands `$body` with `$a` bound to the address value of its concrete type.
macro_rules! with_addr {
    ($spec:expr, $a:ident => $body:expr) => {
        match $spec {
            AddrSpec::None => {
                let $a = a10::net::NoAddress;
                $body
            }
            AddrSpec::V4($a) => $body,
            AddrSpec::V6($a) => $body,
            AddrSpec::Any($a) => $body,
            AddrSpec::Unix($a) => $body,
        }
    };
}

/// Expands `$body` with type alias `$A` = the address type named by `at`.
macro_rules! with_at {
    ($at:expr, $A:ident => $body:expr) => {
        match $at {
            "v4" => {
                type $A = SocketAddrV4;
                $body
            }
            "v6" => {
                type $A = SocketAddrV6;
                $body
            }
            "any" => {
                type $A = SocketAddr;
                $body
            }
            "unix" => {
                type $A = UnixAddr;
                $body
            }
            _ => {
                type $A = a10::net::NoAddress;
                $body
            }
        }
    };
}

fn check(fails: &Fails, cond: bool, sig: &str, what: String) {
    if !cond {
        fails.borrow_mut().push(("C13".into(), sig.into(), what));
    }
}

/// Vec buffers for a read: capacity `cap`, `len` initialised bytes (0xEE).
fn read_vec(cap: usize, len: usize) -> Vec<u8> {
    let mut v = Vec::with_capacity(cap);
    v.resize(len, 0xEE);
    v
}

/// Distribution of `n` received bytes over vectored buffers (cap, len), as
/// readv(2)/recvmsg(2) fill them: in order.
fn spread(bufs: &[(usize, usize)], n: usize) -> Option<Vec<usize>> {
    let mut left = n;
    let mut out = Vec::new();
    for (cap, len) in bufs {
        let k = left.min(cap - len);
        out.push(len + k);
        left -= k;
    }
    if left > 0 { None } else { Some(out) }
}

fn mk_readv<const N: usize>(
    fd: &'static AsyncFd,
    vecs: Vec<Vec<u8>>,
    off: Option<u64>,
    shape: Vec<(usize, usize)>,
    n: i64,
    fails: Fails,
) -> Box<dyn Erased> {
    let arr: [Vec<u8>; N] = vecs.try_into().unwrap();
    let mut f = fd.read_vectored(arr);
    if let Some(o) = off {
        f = f.from(o);
    }
    fut_late(f, move |f| f.from(off.unwrap_or(7) ^ 0x55), move |r: std::io::Result<[Vec<u8>; N]>| match r {
        Ok(bufs) => {
            vec_out_check(&bufs[..], &shape, n, &fails);
            format!("ok lens={}", bufs.iter().map(|b| b.len().to_string()).collect::<Vec<_>>().join(","))
        }
        Err(e) => show_err(&e),
    })
}

/// Oracle for vectored reads: lengths and bytes are those readv(2) produces.
fn vec_out_check(bufs: &[Vec<u8>], shape: &[(usize, usize)], n: i64, fails: &Fails) {
    if n < 0 {
        return;
    }
    let Some(exp) = spread(shape, n as usize) else { return };
    let got: Vec<usize> = bufs.iter().map(|b| b.len()).collect();
    check(fails, got == exp, "C13/decode/readv-lens", format!("vectored read of {n} bytes into {shape:?}: buffer lengths {got:?}, readv(2) gives {exp:?}"));
    let pat = pattern(n as usize);
    let mut pos = 0;
    for (b, (_, len0)) in bufs.iter().zip(shape) {
        if b.len() < *len0 {
            continue;
        }
        let k = b.len() - len0;
        if pos + k <= pat.len() {
            check(fails, b[*len0..] == pat[pos..pos + k], "C13/decode/readv-bytes", "bytes of a vectored read are not at the offsets readv(2) puts them".into());
        }
        pos += k;
    }
}

fn mk_writev<const N: usize>(fd: &'static AsyncFd, vecs: Vec<Vec<u8>>, off: Option<u64>, n: i64, fails: Fails) -> Box<dyn Erased> {
    let arr: [Vec<u8>; N] = vecs.try_into().unwrap();
    let mut f = fd.write_vectored(arr);
    if let Some(o) = off {
        f = f.at(o);
    }
    fut_late(f, move |f| f.at(off.unwrap_or(7) ^ 0x55), move |r: std::io::Result<usize>| scalar_out(r, n, &fails))
}

fn scalar_out(r: std::io::Result<usize>, n: i64, fails: &Fails) -> String {
    match r {
        Ok(v) => {
            check(fails, n >= 0 && v as i64 == n, "C13/decode/count", format!("the call returned {n}, the operation returned Ok({v})"));
            format!("ok n={v}")
        }
        Err(e) => show_err(&e),
    }
}

fn unit_out(r: std::io::Result<()>) -> String {
    match r {
        Ok(()) => "ok".into(),
        Err(e) => show_err(&e),
    }
}

fn mk_recvv<const N: usize>(
    fd: &'static AsyncFd,
    vecs: Vec<Vec<u8>>,
    rfl: Option<a10::net::RecvFlag>,
    shape: Vec<(usize, usize)>,
    n: i64,
    fails: Fails,
) -> Box<dyn Erased> {
    let arr: [Vec<u8>; N] = vecs.try_into().unwrap();
    let mut f = fd.recv_vectored(arr);
    if let Some(fl) = rfl {
        f = f.flags(fl);
    }
    fut_late(f, |f| f.flags(a10::net::RecvFlag::OOB | a10::net::RecvFlag::WAIT_ALL), move |r: std::io::Result<([Vec<u8>; N], i32)>| match r {
        Ok((bufs, mf)) => {
            vec_out_check(&bufs[..], &shape, n, &fails);
            format!("ok lens={} mflags={mf}", bufs.iter().map(|b| b.len().to_string()).collect::<Vec<_>>().join(","))
        }
        Err(e) => show_err(&e),
    })
}

fn mk_recvfromv<A: a10::net::SocketAddress + ShowAddr + 'static, const N: usize>(
    fd: &'static AsyncFd,
    vecs: Vec<Vec<u8>>,
    rfl: Option<a10::net::RecvFlag>,
    shape: Vec<(usize, usize)>,
    n: i64,
    expect_addr: Option<String>,
    fails: Fails,
) -> Box<dyn Erased>
where
    A::Storage: 'static,
{
    let arr: [Vec<u8>; N] = vecs.try_into().unwrap();
    let mut f = fd.recv_from_vectored::<_, A, N>(arr);
    if let Some(fl) = rfl {
        f = f.flags(fl);
    }
    fut_late(f, |f| f.flags(a10::net::RecvFlag::OOB | a10::net::RecvFlag::WAIT_ALL), move |r: std::io::Result<([Vec<u8>; N], A, i32)>| match r {
        Ok((bufs, a, mf)) => {
            vec_out_check(&bufs[..], &shape, n, &fails);
            addr_check(&a.show(), &expect_addr, &fails);
            format!("ok lens={} addr={} mflags={mf}", bufs.iter().map(|b| b.len().to_string()).collect::<Vec<_>>().join(","), a.show())
        }
        Err(e) => show_err(&e),
    })
}

fn addr_check(got: &str, expect: &Option<String>, fails: &Fails) {
    if let Some(e) = expect {
        check(fails, got == e, "C13/decode/address", format!("the kernel reported address {e}, the operation returned {got}"));
    }
}

fn mk_sendmsg<A: a10::net::SocketAddress + 'static, const N: usize>(
    fd: &'static AsyncFd,
    vecs: Vec<Vec<u8>>,
    addr: A,
    sfl: Option<a10::net::SendFlag>,
    zc: bool,
    n: i64,
    fails: Fails,
) -> Box<dyn Erased>
where
    A::Storage: 'static,
{
    let arr: [Vec<u8>; N] = vecs.try_into().unwrap();
    let mut f = fd.send_to_vectored(arr, addr);
    if let Some(fl) = sfl {
        f = f.flags(fl);
    }
    if zc {
        f = f.zc();
    }
    fut_late(f, move |f| { let f = f.flags(a10::net::SendFlag::OOB | a10::net::SendFlag::EOR); if zc { f } else { f.zc() } }, move |r: std::io::Result<usize>| scalar_out(r, n, &fails))
}

fn late_send_flags() -> a10::net::SendFlag {
    a10::net::SendFlag::OOB | a10::net::SendFlag::EOR
}

// ---------------------------------------------------------------------------
// The case

struct EncCase {
    ring: Option<Ring>,
    sq: Option<SubmissionQueue>,
    ring_fd: i32,
    rfd: i32,
    dfd: u32,
    tfd: i32,
    file: Option<&'static AsyncFd>,
    direct: Option<&'static AsyncFd>,
    pool: Option<ReadBufPool>,
    /// a second ring, the subject of `pollable` lines (created at the first one)
    other: Option<(Ring, i32)>,
    ok: bool,
    left: u32,
    feats: Vec<String>,
    fails: Fails,
}

fn reg_ok(rfd: i32, tfd: i32, n: i128) -> bool {
    (600..1000).contains(&n) && n != rfd as i128 && n != tfd as i128
}

/// Put an open descriptor (on /dev/null) at exactly number `n`.
fn place_fd(n: i32) -> bool {
    let fd = unsafe { libc::open(c"/dev/null".as_ptr(), libc::O_RDWR | libc::O_CLOEXEC) };
    if fd < 0 {
        return false;
    }
    let ok = if fd == n { true } else { unsafe { libc::dup3(fd, n, libc::O_CLOEXEC) == n } };
    if fd != n {
        unsafe { libc::close(fd) };
    }
    ok
}

fn noop_cx() -> (std::task::Waker, ()) {
    (util::waker(0), ())
}

impl EncCase {
    fn dead() -> EncCase {
        EncCase {
            ring: None,
            sq: None,
            ring_fd: -1,
            rfd: 0,
            dfd: 0,
            tfd: 0,
            file: None,
            direct: None,
            pool: None,
            other: None,
            ok: false,
            left: 0,
            feats: Vec::new(),
            fails: Rc::new(RefCell::new(Vec::new())),
        }
    }

    fn new(header: &str) -> EncCase {
        let t: Vec<&str> = header.split(' ').collect();
        let kv = Kv::new(t.get(3..).unwrap_or(&[]));
        let (Some(rfd), Some(dfd), Some(tfd)) = (kv.nat("rfd"), kv.nat("dfd"), kv.nat("tfd")) else {
            return EncCase::dead();
        };
        if !(600..1000).contains(&rfd) || !(600..1000).contains(&tfd) || rfd == tfd || dfd >= 2147483647 {
            return EncCase::dead();
        }
        let (rfd, tfd, dfd) = (rfd as i32, tfd as i32, dfd as u32);
        simk::reset();
        simk::activate(simk::SetupCfg::default());
        let ring = Ring::config()
            .with_submission_queue_size(32)
            .with_direct_descriptors(64)
            .build()
            .expect("ring build");
        let sq = ring.sq();
        let ring_fd = simk::with_sim(|s| *s.rings.keys().next().unwrap());
        assert!(place_fd(rfd) && place_fd(tfd));
        let file: &'static AsyncFd = Box::leak(Box::new(unsafe { AsyncFd::from_raw_fd(rfd, sq.clone()) }));
        let pool = ReadBufPool::new(sq.clone(), 8, POOL_BUF as u32).expect("pool");
        let mut c = EncCase {
            ring: Some(ring),
            sq: Some(sq),
            ring_fd,
            rfd,
            dfd,
            tfd,
            file: Some(file),
            direct: None,
            pool: Some(pool),
            other: None,
            ok: true,
            left: 0,
            feats: Vec::new(),
            fails: Rc::new(RefCell::new(Vec::new())),
        };
        let d = c.make_direct(dfd).expect("direct descriptor");
        c.direct = Some(Box::leak(Box::new(d)));
        simk::drain_events();
        util::drain_wakes();
        c
    }

    fn sq(&self) -> SubmissionQueue {
        self.sq.as_ref().unwrap().clone()
    }

    fn sq_tail(&self) -> u32 {
        simk::with_ring(self.ring_fd, |r, _| r.sq_tail())
    }

    fn new_sqes(&self, old_tail: u32) -> Vec<Sqe> {
        simk::with_ring(self.ring_fd, |r, _| {
            let tail = r.sq_tail();
            let mut v = Vec::new();
            let mut t = old_tail;
            while t != tail {
                v.push(r.sqe_at(t));
                t = t.wrapping_add(1);
            }
            v
        })
    }

    /// `Ring::poll` with the given completions posted during the enter call.
    fn rpoll(&mut self, posts: Vec<PostSpec>) {
        simk::with_ring(self.ring_fd, |r, _| {
            r.enter_scripts.clear();
            r.enter_scripts.push_back(simk::EnterScript { post: posts, ..Default::default() });
        });
        let mut ring = self.ring.take().unwrap();
        let _ = util::catch(|| ring.poll(Some(Duration::ZERO)));
        self.ring = Some(ring);
        simk::with_ring(self.ring_fd, |r, _| r.enter_scripts.clear());
        simk::drain_events();
        util::drain_wakes();
    }

    /// Finish whatever is still in flight (dropped operations) and flush closes.
    fn settle(&mut self) {
        for _ in 0..4 {
            self.rpoll(Vec::new());
            let uds: Vec<u64> = simk::with_ring(self.ring_fd, |r, _| r.inflight.iter().filter(|i| i.sqe.user_data > 3).map(|i| i.sqe.user_data).collect());
            if uds.is_empty() && simk::with_ring(self.ring_fd, |r, _| r.sq_pending() == 0) {
                break;
            }
            let posts = uds.into_iter().map(|u| PostSpec::new(Target::UserData(u), -libc::ECANCELED, 0)).collect();
            self.rpoll(posts);
        }
    }

    /// A direct descriptor with index `idx`, made the public way:
    /// `to_direct_descriptor` on a regular descriptor, the simulated kernel
    /// answering with `idx`.
    fn make_direct(&mut self, idx: u32) -> Option<AsyncFd> {
        if !place_fd(TMP_FD) {
            return None;
        }
        let reg = unsafe { AsyncFd::from_raw_fd(TMP_FD, self.sq()) };
        let old = self.sq_tail();
        let w = util::waker(0);
        let mut cx = Context::from_waker(&w);
        let out = {
            let mut f = reg.to_direct_descriptor();
            if Pin::new(&mut f).poll(&mut cx).is_ready() {
                return None;
            }
            let sqes = self.new_sqes(old);
            let s = sqes.first()?;
            let st = track::block_of((s.user_data & !1) as usize)?;
            if (s.addr as usize) < st.base || s.addr as usize + 4 > st.base + st.size {
                return None;
            }
            unsafe { *(s.addr as *mut i32) = idx as i32 };
            if (idx as usize) < 64 {
                simk::with_ring(self.ring_fd, |r, _| {
                    if let Some(f) = r.files.as_mut() {
                        f[idx as usize] = Some(1);
                    }
                });
            }
            let ud = s.user_data;
            self.rpoll(vec![PostSpec::new(Target::UserData(ud), 1, 0)]);
            match Pin::new(&mut f).poll(&mut cx) {
                Poll::Ready(Ok(d)) => Some(d),
                _ => None,
            }
        };
        drop(reg);
        self.rpoll(Vec::new());
        out
    }
}

fn pairs(s: &str) -> Option<Vec<(usize, usize)>> {
    if s == "-" || s.is_empty() {
        return Some(Vec::new());
    }
    s.split(',')
        .map(|p| {
            let f: Vec<&str> = p.split(':').collect();
            if f.len() != 2 {
                return None;
            }
            Some((usize::try_from(nat(f[0])?).ok()?, usize::try_from(nat(f[1])?).ok()?))
        })
        .collect()
}

fn nat_list(s: &str) -> Option<Vec<usize>> {
    if s == "-" || s.is_empty() {
        return Some(Vec::new());
    }
    s.split(',').map(|p| usize::try_from(nat(p)?).ok()).collect()
}

const MAXBUF: usize = 4096;

fn show_iov(bufs: &[(usize, usize)]) -> String {
    bufs.iter().enumerate().map(|(i, (o, n))| format!("buf{i}+{o}:{n}")).collect::<Vec<_>>().join(",")
}

impl EncCase {
    /// Create the operation named by the op line through the public API.
    /// `None` = malformed line.
    #[allow(clippy::too_many_lines)]
    fn build(&mut self, op: &str, kv: &Kv, res: i64) -> Option<Built> {
        let fails = self.fails.clone();
        let k = kv.get("k")?;
        let (fd, fdnum, fixed): (&'static AsyncFd, i64, u8) = match k {
            "f" => (self.file?, self.rfd as i64, 0),
            "d" => (self.direct?, self.dfd as i64, 1),
            _ => return None,
        };
        let pfd = format!("fd={fdnum} fixed={fixed}");
        let cloexec_k = if k == "f" { O_CLOEXEC } else { 0 };
        let slot_k = if k == "f" { 0 } else { ALLOC };
        let okn = res >= 0;
        let n = res;
        // a line whose completion carries a special error scripts the system call
        // the fallback may issue (`sys=`): its out-parameters are parsed like those
        // of a successful completion
        let fbk = res < 0 && special_err(op, -(res as i128)) && kv.get("sys").is_some();
        let off_opt = |key: &str| -> Option<Option<u64>> {
            match kv.opt(key)? {
                None => Some(None),
                Some(v) => u64::try_from(v).ok().map(Some),
            }
        };
        let new_fd_ok = |kind: &str, v: i64| -> bool {
            if kind == "f" { reg_ok(self.rfd, self.tfd, v as i128) } else { (0..2147483647).contains(&v) }
        };
        let sq = self.sq();
        let built = |obj: Box<dyn Erased>, bufs: Vec<(usize, usize)>, posix: String| Some(Built { fd_alias: None, obj, bufs, posix, cleanup: None, expect_ok: None });
        match op {
            "read" | "recv" => {
                let cap = usize::try_from(kv.nat("cap")?).ok()?;
                let len = usize::try_from(kv.nat("len")?).ok()?;
                if len > cap || cap > MAXBUF || (okn && n as usize > cap - len) {
                    return None;
                }
                let v = read_vec(cap, len);
                let base = v.as_ptr() as usize;
                let f2 = fails.clone();
                let canon = move |r: std::io::Result<Vec<u8>>| match r {
                    Ok(b) => {
                        if n >= 0 {
                            check(&f2, b.len() == len + n as usize, "C13/decode/read-len", format!("read returned {n} into a buffer of length {len}: new length {}", b.len()));
                            if b.len() == len + n as usize {
                                check(&f2, b[len..] == pattern(n as usize)[..] && b[..len].iter().all(|c| *c == 0xEE), "C13/decode/read-bytes", "the bytes read are not where read(2) puts them".into());
                            }
                        }
                        format!("ok len={}", b.len())
                    }
                    Err(e) => show_err(&e),
                };
                if op == "read" {
                    let off = off_opt("off")?;
                    let mut f = fd.read(v);
                    if let Some(o) = off {
                        f = f.from(o);
                    }
                    let posix = format!("call read {pfd} buf=buf0+{len} count={} off={}", cap - len, off.unwrap_or(NO_OFFSET));
                    built(fut_late(f, move |f| f.from(off.unwrap_or(9) ^ 0x33), canon), vec![(base, cap)], posix)
                } else {
                    let rfl = kv.opt("rfl")?;
                    let fl = match rfl {
                        Some(v) => Some(recv_flags(v)?),
                        None => None,
                    };
                    let mut f = fd.recv(v);
                    if let Some(x) = fl {
                        f = f.flags(x);
                    }
                    let posix = format!("call recv {pfd} buf=buf0+{len} count={} flags={}", cap - len, rfl.unwrap_or(0));
                    built(fut_late(f, |f| f.flags(a10::net::RecvFlag::OOB | a10::net::RecvFlag::WAIT_ALL), canon), vec![(base, cap)], posix)
                }
            }
            "readp" | "recvp" => {
                if okn && n as usize > POOL_BUF {
                    return None;
                }
                let buf = self.pool.as_ref()?.get();
                let f2 = fails.clone();
                let canon = move |r: std::io::Result<a10::io::ReadBuf>| match r {
                    Ok(b) => {
                        if n >= 0 {
                            check(&f2, b.len() == n as usize && b.as_slice() == &pattern(n as usize)[..], "C13/decode/pool-read", format!("read of {n} bytes into a pool buffer returned {} bytes / wrong bytes", b.len()));
                        }
                        format!("ok len={}", b.len())
                    }
                    Err(e) => show_err(&e),
                };
                if op == "readp" {
                    let off = off_opt("off")?;
                    let mut f = fd.read(buf);
                    if let Some(o) = off {
                        f = f.from(o);
                    }
                    let posix = format!("call read {pfd} bufgroup=1 count=0 off={}", off.unwrap_or(NO_OFFSET));
                    built(fut_late(f, move |f| f.from(off.unwrap_or(9) ^ 0x33), canon), vec![], posix)
                } else {
                    let rfl = kv.opt("rfl")?;
                    let fl = match rfl {
                        Some(v) => Some(recv_flags(v)?),
                        None => None,
                    };
                    let mut f = fd.recv(buf);
                    if let Some(x) = fl {
                        f = f.flags(x);
                    }
                    let posix = format!("call recv {pfd} bufgroup=1 count=0 flags={}", rfl.unwrap_or(0));
                    built(fut_late(f, |f| f.flags(a10::net::RecvFlag::OOB | a10::net::RecvFlag::WAIT_ALL), canon), vec![], posix)
                }
            }
            "mread" | "mrecv" => {
                if okn && n as usize > POOL_BUF {
                    return None;
                }
                let pool = self.pool.as_ref()?.clone();
                let f2 = fails.clone();
                let canon = move |r: std::io::Result<a10::io::ReadBuf>| match r {
                    Ok(b) => {
                        if n >= 0 {
                            check(&f2, b.len() == n as usize && b.as_slice() == &pattern(n as usize)[..], "C13/decode/pool-read", format!("multishot read of {n} bytes returned {} bytes / wrong bytes", b.len()));
                        }
                        format!("ok len={}", b.len())
                    }
                    Err(e) => show_err(&e),
                };
                if op == "mread" {
                    let it = fd.multishot_read(pool);
                    let obj = Box::new(Iter { it: Some(it), next: |p, cx| p.poll_next(cx), late: None, canon: Box::new(canon) });
                    built(obj, vec![], format!("call read_multishot {pfd} bufgroup=1"))
                } else {
                    let rfl = kv.opt("rfl")?;
                    let fl = match rfl {
                        Some(v) => Some(recv_flags(v)?),
                        None => None,
                    };
                    let mut it = fd.multishot_recv(pool);
                    if let Some(x) = fl {
                        it = it.flags(x);
                    }
                    let late: Box<dyn FnOnce(a10::net::MultishotRecv<'static>) -> a10::net::MultishotRecv<'static>> = Box::new(|i| i.flags(a10::net::RecvFlag::OOB | a10::net::RecvFlag::WAIT_ALL));
                    let obj = Box::new(Iter { it: Some(it), next: |p, cx| p.poll_next(cx), late: Some(late), canon: Box::new(canon) });
                    built(obj, vec![], format!("call recv_multishot {pfd} bufgroup=1 flags={}", rfl.unwrap_or(0)))
                }
            }
            "readv" | "recvv" | "recvfromv" => {
                let shape = pairs(kv.get("bufs")?)?;
                if shape.is_empty() || shape.len() > 8 || shape.iter().any(|(c, l)| l > c || *c > MAXBUF) {
                    return None;
                }
                if okn && spread(&shape, n as usize).is_none() {
                    return None;
                }
                let vecs: Vec<Vec<u8>> = shape.iter().map(|(c, l)| read_vec(*c, *l)).collect();
                let bufs: Vec<(usize, usize)> = vecs.iter().zip(&shape).map(|(v, (c, _))| (v.as_ptr() as usize, *c)).collect();
                let iov = show_iov(&shape.iter().map(|(c, l)| (*l, c - l)).collect::<Vec<_>>());
                let cnt = shape.len();
                if op == "readv" {
                    let off = off_opt("off")?;
                    let obj = dispatch_n!(cnt, mk_readv [] (fd, vecs, off, shape, n, fails));
                    built(obj, bufs, format!("call readv {pfd} iov={iov} off={}", off.unwrap_or(NO_OFFSET)))
                } else {
                    let rfl = kv.opt("rfl")?;
                    let fl = match rfl {
                        Some(v) => Some(recv_flags(v)?),
                        None => None,
                    };
                    if okn {
                        kv.u32("mflags")?;
                    }
                    if op == "recvv" {
                        let obj = dispatch_n!(cnt, mk_recvv [] (fd, vecs, fl, shape, n, fails));
                        built(obj, bufs, format!("call recvmsg {pfd} name=0 namelen=0 iov={iov} control=0 flags={}", rfl.unwrap_or(0)))
                    } else {
                        let at = kv.get("at")?;
                        let ml = mut_len(at)?;
                        if at == "none" {
                            return None;
                        }
                        let expect = if okn { self.peer_expect(kv, at)? } else { None };
                        let obj = with_at!(at, A => dispatch_n!(cnt, mk_recvfromv [A] (fd, vecs, fl, shape, n, expect, fails)));
                        built(obj, bufs, format!("call recvmsg {pfd} name=state namelen={ml} iov={iov} control=0 flags={}", rfl.unwrap_or(0)))
                    }
                }
            }
            "write" => {
                let len = usize::try_from(kv.nat("len")?).ok()?;
                if len > MAXBUF {
                    return None;
                }
                let off = off_opt("off")?;
                let v = pattern(len);
                let base = v.as_ptr() as usize;
                let mut f = fd.write(v);
                if let Some(o) = off {
                    f = f.at(o);
                }
                let posix = format!("call write {pfd} buf=buf0+0 count={len} off={}", off.unwrap_or(NO_OFFSET));
                built(fut_late(f, move |f| f.at(off.unwrap_or(9) ^ 0x33), move |r| scalar_out(r, n, &fails)), vec![(base, len)], posix)
            }
            "writev" | "sendmsg" => {
                let lens = nat_list(kv.get("lens")?)?;
                if lens.is_empty() || lens.len() > 8 || lens.iter().any(|l| *l > MAXBUF) {
                    return None;
                }
                let vecs: Vec<Vec<u8>> = lens.iter().map(|l| pattern(*l)).collect();
                let bufs: Vec<(usize, usize)> = vecs.iter().zip(&lens).map(|(v, l)| (v.as_ptr() as usize, *l)).collect();
                let iov = show_iov(&lens.iter().map(|l| (0, *l)).collect::<Vec<_>>());
                let cnt = lens.len();
                if op == "writev" {
                    let off = off_opt("off")?;
                    let obj = dispatch_n!(cnt, mk_writev [] (fd, vecs, off, n, fails));
                    built(obj, bufs, format!("call writev {pfd} iov={iov} off={}", off.unwrap_or(NO_OFFSET)))
                } else {
                    let sfl = kv.opt("sfl")?;
                    let fl = match sfl {
                        Some(v) => Some(send_flags(v)?),
                        None => None,
                    };
                    let zc = kv.nat("zc")? != 0;
                    let spec = parse_addr(kv.get("a")?)?;
                    let a = if matches!(spec, AddrSpec::None) { "0".to_string() } else { show_spec(&spec) };
                    let obj = with_addr!(spec, a => dispatch_n!(cnt, mk_sendmsg [_] (fd, vecs, a, fl, zc, n, fails)));
                    built(obj, bufs, format!("call sendmsg {pfd} addr={a} iov={iov} control=0 flags={} zc={}", sfl.unwrap_or(0), u8::from(zc)))
                }
            }
            "splice" => {
                let dir = kv.get("dir")?;
                let len = kv.u32("len")?;
                let (oi, oo) = (off_opt("offin")?, off_opt("offout")?);
                let sfl = kv.opt("sfl")?;
                let fl = match sfl {
                    Some(v) => Some(splice_flags(v)?),
                    None => None,
                };
                let target = unsafe { BorrowedFd::borrow_raw(self.tfd) };
                let mut f = match dir {
                    "to" => fd.splice_to(target, len),
                    "from" => fd.splice_from(target, len),
                    _ => return None,
                };
                if let Some(o) = oi {
                    f = f.from(o);
                }
                if let Some(o) = oo {
                    f = f.at(o);
                }
                if let Some(x) = fl {
                    f = f.flags(x);
                }
                let (i, o) = (oi.unwrap_or(NO_OFFSET), oo.unwrap_or(NO_OFFSET));
                let posix = if dir == "to" {
                    format!("call splice fd_in={fdnum} in_fixed={fixed} off_in={i} fd_out={} out_fixed=0 off_out={o} len={len} flags={}", self.tfd, sfl.unwrap_or(0))
                } else {
                    format!("call splice fd_in={} in_fixed=0 off_in={i} fd_out={fdnum} out_fixed={fixed} off_out={o} len={len} flags={}", self.tfd, sfl.unwrap_or(0))
                };
                built(fut_late(f, move |f| f.from(i ^ 0x11).at(o ^ 0x22).flags(a10::io::SpliceFlag::MOVE | a10::io::SpliceFlag::MORE), move |r| scalar_out(r, n, &fails)), vec![], posix)
            }
            "close" | "dropfd" => {
                let cfd = kv.nat("cfd")?;
                let target: AsyncFd = if k == "f" {
                    if !reg_ok(self.rfd, self.tfd, cfd as i128) || !place_fd(cfd as i32) {
                        return None;
                    }
                    unsafe { AsyncFd::from_raw_fd(cfd as i32, sq) }
                } else {
                    if cfd >= 64 {
                        return None;
                    }
                    self.make_direct(cfd as u32)?
                };
                let posix = format!("call close fd={cfd} fixed={fixed}");
                if op == "close" {
                    built(fut(target.close(), unit_out), vec![], posix)
                } else {
                    // The drop itself is the operation: done when first "polled".
                    struct DropIt(Option<AsyncFd>);
                    impl Erased for DropIt {
                        fn poll(&mut self, _: &mut Context<'_>) -> Option<String> {
                            drop(self.0.take());
                            None
                        }
                        fn late(&mut self) {}
                    }
                    built(Box::new(DropIt(Some(target))), vec![], posix)
                }
            }
            "open" => {
                let path = unhex(kv.get("path")?)?;
                if path.contains(&0) {
                    return None;
                }
                let setters = kv.get("oo")?;
                let mode = kv.opt("mode")?;
                let ck = kv.get("ck")?;
                let tmp = kv.nat("tmp")? != 0;
                let mut o = a10::fs::OpenOptions::new();
                let mut flags: u32 = 0;
                if setters != "-" {
                    for s in setters.split(',') {
                        // the open(2) flags the caller asks for, written from open(2)
                        let acc = flags & 3;
                        match s {
                            "r" => {
                                o = o.read();
                                if acc == libc::O_WRONLY as u32 {
                                    flags = (flags & !3) | libc::O_RDWR as u32;
                                }
                            }
                            "w" => {
                                o = o.write();
                                if acc == libc::O_RDONLY as u32 {
                                    flags = (flags & !3) | libc::O_RDWR as u32;
                                }
                            }
                            "wo" => {
                                o = o.write_only();
                                flags = (flags & !3) | libc::O_WRONLY as u32;
                            }
                            "a" => {
                                o = o.append();
                                flags |= libc::O_APPEND as u32;
                            }
                            "t" => {
                                o = o.truncate();
                                flags |= libc::O_TRUNC as u32;
                            }
                            "c" => {
                                o = o.create();
                                flags |= libc::O_CREAT as u32;
                            }
                            "cn" => {
                                o = o.create_new();
                                flags |= (libc::O_CREAT | libc::O_EXCL) as u32;
                            }
                            "ds" => {
                                o = o.data_sync();
                                flags |= libc::O_DSYNC as u32;
                            }
                            "s" => {
                                o = o.sync();
                                flags |= libc::O_SYNC as u32;
                            }
                            "di" => {
                                o = o.direct();
                                flags |= libc::O_DIRECT as u32;
                            }
                            _ => return None,
                        }
                    }
                }
                let m = match mode {
                    Some(v) => {
                        let v = u32::try_from(v).ok()?;
                        o = o.mode(v);
                        v
                    }
                    None => 0o666,
                };
                let kind = match ck {
                    "none" => "f",
                    "f" => {
                        o = o.kind(a10::fd::Kind::File);
                        "f"
                    }
                    "d" => {
                        o = o.kind(a10::fd::Kind::Direct);
                        "d"
                    }
                    _ => return None,
                };
                if okn && !new_fd_ok(kind, n) {
                    return None;
                }
                if tmp {
                    flags |= libc::O_TMPFILE as u32;
                }
                if kind == "f" {
                    flags |= O_CLOEXEC;
                }
                let pb = PathBuf::from(std::ffi::OsStr::from_bytes(&path));
                let f = if tmp { o.open_temp_file(sq, pb) } else { o.open(sq, pb) };
                let posix = format!("call openat dirfd=-100 path={} flags={flags} mode={m} slot={}", hexs(&path), if kind == "d" { ALLOC } else { 0 });
                let kind = kind.to_string();
                built(fut(f, move |r: std::io::Result<AsyncFd>| fd_out(r, n, &kind, &fails)), vec![], posix)
            }
            "mkdir" | "unlink" => {
                let path = unhex(kv.get("path")?)?;
                if path.contains(&0) {
                    return None;
                }
                let pb = PathBuf::from(std::ffi::OsStr::from_bytes(&path));
                if op == "mkdir" {
                    built(fut(a10::fs::create_dir(sq, pb), unit_out), vec![], format!("call mkdirat dirfd=-100 path={} mode=511", hexs(&path)))
                } else {
                    let dir = kv.nat("dir")? != 0;
                    let f = if dir { a10::fs::remove_dir(sq, pb) } else { a10::fs::remove_file(sq, pb) };
                    built(fut(f, unit_out), vec![], format!("call unlinkat dirfd=-100 path={} flags={}", hexs(&path), if dir { libc::AT_REMOVEDIR } else { 0 }))
                }
            }
            "rename" => {
                let (p1, p2) = (unhex(kv.get("path")?)?, unhex(kv.get("path2")?)?);
                if p1.contains(&0) || p2.contains(&0) {
                    return None;
                }
                let f = a10::fs::rename(sq, PathBuf::from(std::ffi::OsStr::from_bytes(&p1)), PathBuf::from(std::ffi::OsStr::from_bytes(&p2)));
                built(fut(f, unit_out), vec![], format!("call renameat olddirfd=-100 oldpath={} newdirfd=-100 newpath={} flags=0", hexs(&p1), hexs(&p2)))
            }
            "fsync" => {
                let data = kv.nat("data")? != 0;
                let f = if data { fd.sync_data() } else { fd.sync_all() };
                built(fut(f, unit_out), vec![], format!("call fsync {pfd} datasync={}", u8::from(data)))
            }
            "statx" => {
                let mask = kv.opt("mask")?;
                let mut f = fd.metadata();
                if let Some(v) = mask {
                    f = f.only(statx_mask(v)?);
                }
                let stx = if okn { Some(parse_stx(kv.get("stx")?)?) } else { None };
                let dflt = libc::STATX_TYPE | libc::STATX_MODE | libc::STATX_ATIME | libc::STATX_MTIME | libc::STATX_BTIME | libc::STATX_SIZE | libc::STATX_BLOCKS;
                let posix = format!("call statx {pfd} path=- flags={} mask={} buf=state", libc::AT_EMPTY_PATH, mask.unwrap_or(dflt as u128));
                built(fut_late(f, |f| f.only(a10::fs::MetadataInterest::SIZE), move |r: std::io::Result<a10::fs::Metadata>| stat_out(r, &stx, &fails)), vec![], posix)
            }
            "fadvise" => {
                let (off, len, adv) = (kv.u64("off")?, kv.u32("len")?, kv.nat("adv")?);
                let f = fd.advise(off, len, fadvise_flag(adv as i128)?);
                built(fut(f, unit_out), vec![], format!("call fadvise {pfd} off={off} len={len} advice={adv}"))
            }
            "fallocate" => {
                let (off, len) = (kv.u64("off")?, kv.u32("len")?);
                let mode = kv.opt("mode")?;
                let mut f = fd.allocate(off, len);
                if let Some(v) = mode {
                    f = f.mode(alloc_mode(v)?);
                }
                built(fut_late(f, |f| f.mode(a10::fs::AllocateMode::ZERO_RANGE), unit_out), vec![], format!("call fallocate {pfd} mode={} off={off} len={len}", mode.unwrap_or(0)))
            }
            "ftruncate" => {
                let len = kv.u64("len")?;
                built(fut(fd.truncate(len), unit_out), vec![], format!("call ftruncate {pfd} len={len}"))
            }
            "socket" => {
                let dom = kv.int("dom")?;
                let ty = kv.nat("type")?;
                let proto = kv.opt("proto")?;
                let ck = kv.get("ck")?;
                let p = match proto {
                    Some(v) => Some(one_of(v as i128, &proto_table())?),
                    None => None,
                };
                let mut f = a10::net::socket(sq, one_of(dom, &domain_table())?, one_of(ty as i128, &type_table())?, p);
                let kind = match ck {
                    "none" => "f",
                    "f" => {
                        f = f.kind(a10::fd::Kind::File);
                        "f"
                    }
                    "d" => {
                        f = f.kind(a10::fd::Kind::Direct);
                        "d"
                    }
                    _ => return None,
                };
                if okn && !new_fd_ok(kind, n) {
                    return None;
                }
                let ty_fl = ty as u32 | if kind == "f" { libc::SOCK_CLOEXEC as u32 } else { 0 };
                let posix = format!("call socket domain={dom} type={ty_fl} protocol={} flags=0 slot={}", proto.unwrap_or(0), if kind == "d" { ALLOC } else { 0 });
                let other = if kind == "f" { a10::fd::Kind::Direct } else { a10::fd::Kind::File };
                let kind = kind.to_string();
                built(fut_late(f, move |f| f.kind(other), move |r: std::io::Result<AsyncFd>| fd_out(r, n, &kind, &fails)), vec![], posix)
            }
            "bind" | "connect" => {
                let spec = parse_addr(kv.get("a")?)?;
                if matches!(spec, AddrSpec::None) {
                    return None;
                }
                let posix = format!("call {op} {pfd} addr={}", show_spec(&spec));
                let obj = if op == "bind" { with_addr!(spec, a => fut(fd.bind(a), unit_out)) } else { with_addr!(spec, a => fut(fd.connect(a), unit_out)) };
                built(obj, vec![], posix)
            }
            "listen" => {
                let b = kv.u32("backlog")?;
                built(fut(fd.listen(b), unit_out), vec![], format!("call listen {pfd} backlog={b}"))
            }
            "sockname" => {
                let which = kv.get("which")?;
                let at = kv.get("at")?;
                let ml = mut_len(at)?;
                if at == "none" || (which != "local" && which != "peer") {
                    return None;
                }
                let expect = if okn || fbk { self.peer_expect(kv, at)? } else { None };
                let expect_ok = expect.as_ref().map(|a| format!("ok addr={a}"));
                let peer = which == "peer";
                let obj = with_at!(at, A => {
                    let f = if peer { fd.peer_addr::<A>() } else { fd.local_addr::<A>() };
                    fut(f, move |r: std::io::Result<A>| match r {
                        Ok(a) => {
                            addr_check(&a.show(), &expect, &fails);
                            format!("ok addr={}", a.show())
                        }
                        Err(e) => show_err(&e),
                    })
                });
                let mut b = built(obj, vec![], format!("call {} {pfd} addr=state addrlen={ml}", if peer { "getpeername" } else { "getsockname" }))?;
                b.expect_ok = expect_ok;
                Some(b)
            }
            "recvfrom" => {
                let cap = usize::try_from(kv.nat("cap")?).ok()?;
                let len = usize::try_from(kv.nat("len")?).ok()?;
                let at = kv.get("at")?;
                let ml = mut_len(at)?;
                let rfl = kv.opt("rfl")?;
                let fl = match rfl {
                    Some(v) => Some(recv_flags(v)?),
                    None => None,
                };
                if len > cap || cap > MAXBUF || at == "none" {
                    return None;
                }
                let expect = if okn {
                    kv.u32("mflags")?;
                    if n as usize > cap - len {
                        return None;
                    }
                    self.peer_expect(kv, at)?
                } else {
                    None
                };
                let v = read_vec(cap, len);
                let base = v.as_ptr() as usize;
                let obj = with_at!(at, A => {
                    let mut f = fd.recv_from::<_, A>(v);
                    if let Some(x) = fl {
                        f = f.flags(x);
                    }
                    fut_late(f, |f| f.flags(a10::net::RecvFlag::OOB | a10::net::RecvFlag::WAIT_ALL), move |r: std::io::Result<(Vec<u8>, A, i32)>| match r {
                        Ok((b, a, mf)) => {
                            if n >= 0 {
                                check(&fails, b.len() == len + n as usize && b[len..] == pattern(n as usize)[..], "C13/decode/read-bytes", "recv_from: length/bytes differ from recvmsg(2)".into());
                            }
                            addr_check(&a.show(), &expect, &fails);
                            format!("ok len={} addr={} mflags={mf}", b.len(), a.show())
                        }
                        Err(e) => show_err(&e),
                    })
                });
                built(obj, vec![(base, cap)], format!("call recvmsg {pfd} name=state namelen={ml} iov=buf0+{len}:{} control=0 flags={}", cap - len, rfl.unwrap_or(0)))
            }
            "send" | "sendto" => {
                let len = usize::try_from(kv.nat("len")?).ok()?;
                if len > MAXBUF {
                    return None;
                }
                let sfl = kv.opt("sfl")?;
                let fl = match sfl {
                    Some(v) => Some(send_flags(v)?),
                    None => None,
                };
                let zc = kv.nat("zc")? != 0;
                let v = pattern(len);
                let base = v.as_ptr() as usize;
                if op == "send" {
                    let mut f = fd.send(v);
                    let zc_first = kv.get("ord") == Some("1");
                    if zc_first && zc {
                        f = f.zc();
                    }
                    if let Some(x) = fl {
                        f = f.flags(x);
                    }
                    if !zc_first && zc {
                        f = f.zc();
                    }
                    let posix = format!("call send {pfd} buf=buf0+0 count={len} flags={} zc={}", sfl.unwrap_or(0), u8::from(zc));
                    built(fut_late(f, move |f| { let f = f.flags(late_send_flags()); if zc { f } else { f.zc() } }, move |r| scalar_out(r, n, &fails)), vec![(base, len)], posix)
                } else {
                    let spec = parse_addr(kv.get("a")?)?;
                    let a = if matches!(spec, AddrSpec::None) { "0".to_string() } else { show_spec(&spec) };
                    let posix = format!("call sendto {pfd} buf=buf0+0 count={len} flags={} addr={a} zc={}", sfl.unwrap_or(0), u8::from(zc));
                    let obj = with_addr!(spec, a => {
                        let mut f = fd.send_to(v, a);
                        let zc_first = kv.get("ord") == Some("1");
                        if zc_first && zc {
                            f = f.zc();
                        }
                        if let Some(x) = fl {
                            f = f.flags(x);
                        }
                        if !zc_first && zc {
                            f = f.zc();
                        }
                        fut_late(f, move |f| { let f = f.flags(late_send_flags()); if zc { f } else { f.zc() } }, move |r| scalar_out(r, n, &fails))
                    });
                    built(obj, vec![(base, len)], posix)
                }
            }
            "accept" => {
                let at = kv.get("at")?;
                let ml = mut_len(at)?;
                let expect = if okn {
                    if !new_fd_ok(k, n) {
                        return None;
                    }
                    self.peer_expect(kv, at)?
                } else {
                    None
                };
                let kind = k.to_string();
                let obj = with_at!(at, A => fut(fd.accept::<A>(), move |r: std::io::Result<(AsyncFd, A)>| match r {
                    Ok((s, a)) => {
                        addr_check(&a.show(), &expect, &fails);
                        let line = fd_out(Ok(s), n, &kind, &fails);
                        format!("{line} addr={}", a.show())
                    }
                    Err(e) => show_err(&e),
                }));
                let addr = if at == "none" { "0" } else { "state" };
                built(obj, vec![], format!("call accept4 {pfd} addr={addr} addrlen={ml} flags={cloexec_k} slot={slot_k}"))
            }
            "maccept" => {
                if okn && !new_fd_ok(k, n) {
                    return None;
                }
                let kind = k.to_string();
                let it = fd.multishot_accept();
                let obj = Box::new(Iter { it: Some(it), next: |p, cx| p.poll_next(cx), late: None, canon: Box::new(move |r: std::io::Result<AsyncFd>| fd_out(r, n, &kind, &fails)) });
                built(obj, vec![], format!("call accept4_multishot {pfd} flags={cloexec_k} slot={slot_k}"))
            }
            "getsockopt" => {
                let name = kv.get("opt")?;
                let (lvl, optname, ty, g, _) = opt_info(name)?;
                if !g {
                    return None;
                }
                let ov = if okn || fbk {
                    let v = unhex(kv.get("ov")?)?;
                    if v.len() != opt_size(ty) as usize {
                        return None;
                    }
                    Some(v)
                } else {
                    None
                };
                // the length the call reports: the completion's result, or `*optlen`
                // after the system call of the fallback
                let n = if fbk { i64::from(kv.u32("slen")?) } else { n };
                let (obj, expect_ok) = getsockopt_obj(fd, name, ov, n, fails)?;
                let mut b = built(obj, vec![], format!("call getsockopt {pfd} level={lvl} optname={optname} optval=state optlen={}", opt_size(ty)))?;
                b.expect_ok = expect_ok;
                Some(b)
            }
            "setsockopt" => {
                let name = kv.get("opt")?;
                let (lvl, optname, ty, _, s) = opt_info(name)?;
                let val = kv.opt("val")?;
                if !s || (val.is_none() && ty != OptTy::Linger) || val.unwrap_or(0) >= 1 << 32 {
                    return None;
                }
                let v = val.map(|x| x as u32);
                // the bytes setsockopt(2) is given for this value, from the man pages
                let bytes: Vec<u8> = match ty {
                    OptTy::Linger => {
                        let l = libc::linger { l_onoff: i32::from(v.is_some()), l_linger: v.unwrap_or(0) as i32 };
                        [l.l_onoff.to_ne_bytes(), l.l_linger.to_ne_bytes()].concat()
                    }
                    OptTy::Bool => i32::from(v.unwrap_or(0) != 0).to_ne_bytes().to_vec(),
                    _ => v.unwrap_or(0).to_ne_bytes().to_vec(),
                };
                let obj = setsockopt_obj(fd, name, v)?;
                built(obj, vec![], format!("call setsockopt {pfd} level={lvl} optname={optname} optval={} optlen={}", hexs(&bytes), opt_size(ty)))
            }
            "shutdown" => {
                let how = kv.nat("how")?;
                let h = match how {
                    0 => std::net::Shutdown::Read,
                    1 => std::net::Shutdown::Write,
                    2 => std::net::Shutdown::Both,
                    _ => return None,
                };
                built(fut(fd.shutdown(h), unit_out), vec![], format!("call shutdown {pfd} how={how}"))
            }
            "waitid" => {
                let on = kv.get("on")?;
                let f: Vec<&str> = on.split(':').collect();
                let (w, idtype, id) = match f.as_slice() {
                    ["all"] => (a10::process::WaitOn::All, libc::P_ALL, 0u32),
                    ["pid", p] => {
                        let p = u32::try_from(nat(p)?).ok()?;
                        (a10::process::WaitOn::Process(p), libc::P_PID, p)
                    }
                    ["pgid", p] => {
                        let p = u32::try_from(nat(p)?).ok()?;
                        (a10::process::WaitOn::Group(p), libc::P_PGID, p)
                    }
                    _ => return None,
                };
                let wopt = kv.opt("wopt")?;
                let mut fu = a10::process::wait(sq, w);
                if let Some(v) = wopt {
                    fu = fu.flags(one_of(v as i128, &wait_table())?);
                }
                let si = if okn { Some(parse_si(kv.get("si")?)?) } else { None };
                let posix = format!("call waitid idtype={idtype} id={} info=state options={}", id as i32, wopt.unwrap_or(0));
                built(fut_late(fu, |f| f.flags(a10::process::WaitOption::NO_WAIT), move |r: std::io::Result<a10::process::WaitInfo>| wait_out(r, &si, &fails)), vec![], posix)
            }
            "sigrecv" => {
                let sfd = kv.nat("sfd")?;
                if k != "f" || sfd >= 2147483648 {
                    return None;
                }
                let ssi = if okn { Some(parse_ssi(kv.get("ssi")?)?) } else { None };
                let set = a10::process::SignalSet::empty().ok()?;
                let sig: &'static a10::process::Signals = Box::leak(Box::new(a10::process::Signals::from_set(sq, set).ok()?));
                let f = sig.receive();
                let posix = format!("call read fd={sfd} fixed=0 buf=state count=128 off={NO_OFFSET}");
                let mut b = built(fut(f, move |r: std::io::Result<a10::process::SignalInfo>| match r {
                    Ok(i) => {
                        let signo = dbg_num(&format!("{:?}", i.signal()));
                        if let Some((s, p, u)) = ssi {
                            check(&fails, signo == s as i32 as i64 && i.pid() == p && i.real_user_id() == u, "C13/decode/siginfo", "SignalInfo accessors differ from the signalfd_siginfo the kernel wrote".into());
                        }
                        format!("ok signo={signo} pid={} uid={}", i.pid(), i.real_user_id())
                    }
                    Err(e) => show_err(&e),
                }), vec![], posix)?;
                let actual = format!("{sig:?}").split("fd: ").nth(2).and_then(|r| r.split(',').next()).and_then(|v| v.parse::<i32>().ok());
                b.fd_alias = actual.map(|a| (a, sfd as i32));
                let p = std::ptr::from_ref(sig).cast_mut();
                b.cleanup = Some(Box::new(move || unsafe { drop(Box::from_raw(p)) }));
                Some(b)
            }
            "todirect" => {
                if k != "f" {
                    return None;
                }
                if okn && kv.nat("idx")? >= 2147483647 {
                    return None;
                }
                let idx = kv.nat("idx").unwrap_or(0) as i64;
                let f = fd.to_direct_descriptor();
                built(fut(f, move |r: std::io::Result<AsyncFd>| fd_out(r, idx, "d", &fails)), vec![], format!("call files_update offset={NO_OFFSET} fds={fdnum} nr=1"))
            }
            "tofd" => {
                if k != "d" || (okn && !new_fd_ok("f", n)) {
                    return None;
                }
                let f = fd.to_file_descriptor();
                built(fut(f, move |r: std::io::Result<AsyncFd>| fd_out(r, n, "f", &fails)), vec![], format!("call fixed_fd_install {pfd} flags=0"))
            }
            "pipe" => {
                let pfl = kv.opt("pfl")?;
                let ck = kv.get("ck")?;
                let mut f = a10::pipe::pipe(sq);
                if let Some(v) = pfl {
                    if v != libc::O_DIRECT as u128 {
                        return None;
                    }
                }
                // builder setters in either order (`ord=1`: kind before flags)
                let kind_first = kv.get("ord") == Some("1");
                if !kind_first && pfl.is_some() {
                    f = f.flags(a10::pipe::PipeFlag::DIRECT);
                }
                let kind = match ck {
                    "none" => "f",
                    "f" => {
                        f = f.kind(a10::fd::Kind::File);
                        "f"
                    }
                    "d" => {
                        f = f.kind(a10::fd::Kind::Direct);
                        "d"
                    }
                    _ => return None,
                };
                if kind_first && pfl.is_some() {
                    f = f.flags(a10::pipe::PipeFlag::DIRECT);
                }
                let mut want: Option<(i64, i64)> = None;
                // pipe2(2) of the fallback returns regular descriptors whatever was asked
                let got_kind = if fbk { "f" } else { kind };
                if okn || fbk {
                    let v = nat_list(kv.get("pfds")?)?;
                    if v.len() != 2 || v[0] == v[1] || !new_fd_ok(got_kind, v[0] as i64) || !new_fd_ok(got_kind, v[1] as i64) {
                        return None;
                    }
                    want = Some((v[0] as i64, v[1] as i64));
                }
                let fl = pfl.unwrap_or(0) as u32 | if kind == "f" { O_CLOEXEC } else { 0 };
                let posix = format!("call pipe2 fds=state flags={fl} slot={}", if kind == "d" { ALLOC } else { 0 });
                let other = if kind == "f" { a10::fd::Kind::Direct } else { a10::fd::Kind::File };
                let kind = got_kind.to_string();
                let late_direct = pfl.is_none();
                built(fut_late(f, move |f| { let f = f.kind(other); if late_direct { f.flags(a10::pipe::PipeFlag::DIRECT) } else { f } }, move |r: std::io::Result<[AsyncFd; 2]>| match r {
                    Ok([a, b]) => {
                        let (sa, sb) = (show_fd(&a), show_fd(&b));
                        let na = sa.split(' ').next().unwrap_or("").trim_start_matches("fd=").to_string();
                        let nb = sb.split(' ').next().unwrap_or("").trim_start_matches("fd=").to_string();
                        let ka = sa.split("kind=").nth(1).unwrap_or("?").to_string();
                        if let Some((x, y)) = want {
                            check(&fails, na == x.to_string() && nb == y.to_string() && ka == kind && sb.ends_with(&format!("kind={kind}")), "C13/decode/pipe-fds", format!("pipe2 returned descriptors {x},{y} of kind {kind}; the operation returned {sa} / {sb}"));
                        }
                        format!("ok fds={na},{nb} kind={ka}")
                    }
                    Err(e) => show_err(&e),
                }), vec![], posix)
            }
            "pollable" => {
                let pfd = kv.nat("pfd")?;
                if pfd >= 1 << 31 {
                    return None;
                }
                if self.other.is_none() {
                    let before: Vec<i32> = simk::with_sim(|s| s.rings.keys().copied().collect());
                    let other = Ring::config().with_submission_queue_size(4).build().ok()?;
                    let fd = simk::with_sim(|s| s.rings.keys().copied().find(|k| !before.contains(k)))?;
                    self.other = Some((other, fd));
                }
                let (other, other_fd) = self.other.as_ref()?;
                // EPOLLIN | EPOLLHUP | EPOLLERR | EPOLLET | EPOLLEXCLUSIVE, written out independently of a10
                let events: u32 = 0x1 | 0x10 | 0x8 | (1 << 31) | (1 << 28);
                let it = other.pollable(sq.clone());
                let obj = Box::new(Iter { it: Some(it), next: |p, cx| p.poll_next(cx), late: None, canon: Box::new(unit_out) });
                let mut b = built(obj, vec![], format!("call poll fd={pfd} events={events} multi=1"))?;
                b.fd_alias = Some((*other_fd, pfd as i32));
                Some(b)
            }
            "madvise" => {
                let (addr, len, adv) = (kv.u64("addr")?, kv.u32("len")?, kv.nat("adv")?);
                let f = a10::mem::advise(sq, addr as usize as *mut (), len, one_of(adv as i128, &madvise_table())?);
                built(fut(f, unit_out), vec![], format!("call madvise addr={addr} len={len} advice={adv}"))
            }
            _ => None,
        }
    }

    /// Parse `peer`/`klen`; returns the address the operation must return if
    /// `klen` is a length the kernel reports for it (`Some(None)` = no claim).
    fn peer_expect(&self, kv: &Kv, at: &str) -> Option<Option<String>> {
        let peer = parse_addr(kv.get("peer")?)?;
        if matches!(peer, AddrSpec::None) {
            return None;
        }
        let klen = kv.u32("klen")?;
        if klen > mut_len(at)? {
            return None;
        }
        Some(if legit_peer(at, &peer, klen) { Some(if at == "none" { "none".into() } else { show_spec(&peer) }) } else { None })
    }
}

fn fd_out(r: std::io::Result<AsyncFd>, n: i64, kind: &str, fails: &Fails) -> String {
    match r {
        Ok(fd) => {
            let s = show_fd(&fd);
            check(fails, s == format!("fd={n} kind={kind}"), "C13/decode/descriptor", format!("the kernel returned descriptor {n} (kind {kind}), the operation returned {s}"));
            format!("ok {s}")
        }
        Err(e) => show_err(&e),
    }
}

// ---------------------------------------------------------------------------
// Decoders of structured results

/// mask, mode, size, blksize, (sec, nsec) x3 (atime, mtime, btime)
type Stx = (u32, u16, u64, u32, [(i64, u32); 3]);

fn parse_stx(s: &str) -> Option<Stx> {
    let f: Vec<&str> = s.split(':').collect();
    if f.len() != 10 {
        return None;
    }
    let u = |i: usize| nat(f[i]);
    let sec = |i: usize| int(f[i]).and_then(|v| i64::try_from(v).ok());
    Some((
        u32::try_from(u(0)?).ok()?,
        u16::try_from(u(1)?).ok()?,
        u64::try_from(u(2)?).ok()?,
        u32::try_from(u(3)?).ok()?,
        [
            (sec(4)?, u32::try_from(u(5)?).ok()?),
            (sec(6)?, u32::try_from(u(7)?).ok()?),
            (sec(8)?, u32::try_from(u(9)?).ok()?),
        ],
    ))
}

fn time_ns(t: SystemTime) -> i128 {
    match t.duration_since(UNIX_EPOCH) {
        Ok(d) => d.as_nanos() as i128,
        Err(e) => -(e.duration().as_nanos() as i128),
    }
}

fn stat_out(r: std::io::Result<a10::fs::Metadata>, stx: &Option<Stx>, fails: &Fails) -> String {
    let m = match r {
        Ok(m) => m,
        Err(e) => return show_err(&e),
    };
    let ft = m.file_type();
    let ty = if ft.is_dir() {
        "d"
    } else if ft.is_file() {
        "-"
    } else if ft.is_symlink() {
        "l"
    } else if ft.is_socket() {
        "s"
    } else if ft.is_block_device() {
        "b"
    } else if ft.is_character_device() {
        "c"
    } else if ft.is_named_pipe() {
        "p"
    } else {
        "?"
    };
    let p = m.permissions();
    let bit = |b: bool, c: char| if b { c } else { '-' };
    let perm: String = [
        bit(p.owner_can_read(), 'r'),
        bit(p.owner_can_write(), 'w'),
        bit(p.owner_can_execute(), 'x'),
        bit(p.group_can_read(), 'r'),
        bit(p.group_can_write(), 'w'),
        bit(p.group_can_execute(), 'x'),
        bit(p.others_can_read(), 'r'),
        bit(p.others_can_write(), 'w'),
        bit(p.others_can_execute(), 'x'),
    ]
    .iter()
    .collect();
    let ts = |f: &dyn Fn() -> SystemTime| match util::catch(f) {
        Ok(t) => time_ns(t).to_string(),
        Err(_) => "panic".to_string(),
    };
    let (acc, modi, cre) = (ts(&|| m.accessed()), ts(&|| m.modified()), ts(&|| m.created()));
    let filled = format!("{:?}", m.filled());
    let filled = filled.parse::<u32>().ok().or_else(|| {
        // single-constant masks print their name
        let t = [("STATX_TYPE", libc::STATX_TYPE), ("STATX_SIZE", libc::STATX_SIZE), ("STATX_BLOCKS", libc::STATX_BLOCKS), ("STATX_MODE", libc::STATX_MODE), ("STATX_MTIME", libc::STATX_MTIME), ("STATX_ATIME", libc::STATX_ATIME), ("STATX_BTIME", libc::STATX_BTIME)];
        t.iter().find(|(n, _)| *n == filled).map(|(_, v)| *v)
    });
    let filled_s = filled.map_or("?".to_string(), |v| v.to_string());
    if let Some((mask, mode, size, blk, t)) = stx {
        // stat(2): what the fields mean
        let fmt = u32::from(*mode) & libc::S_IFMT;
        let ety = match fmt {
            libc::S_IFDIR => "d",
            libc::S_IFREG => "-",
            libc::S_IFLNK => "l",
            libc::S_IFSOCK => "s",
            libc::S_IFBLK => "b",
            libc::S_IFCHR => "c",
            libc::S_IFIFO => "p",
            _ => "?",
        };
        let eperm: String = (0..9).map(|i| if mode >> (8 - i) & 1 == 1 { ['r', 'w', 'x'][i % 3] } else { '-' }).collect();
        check(fails, filled == Some(*mask) && ty == ety && perm == eperm && m.len() == *size && m.block_size() == *blk, "C13/decode/metadata", format!("Metadata accessors differ from the statx fields (mask {mask} mode {mode:o} size {size} blksize {blk}): filled={filled_s} type={ty} perm={perm} len={} blk={}", m.len(), m.block_size()));
        for (name, got, (sec, nsec)) in [("accessed", &acc, t[0]), ("modified", &modi, t[1]), ("created", &cre, t[2])] {
            if nsec < 1_000_000_000 {
                let exp = i128::from(sec) * 1_000_000_000 + i128::from(nsec);
                check(fails, *got == exp.to_string(), "C13/decode/timestamp", format!("Metadata::{name}() for tv_sec={sec} tv_nsec={nsec} is {got}, expected {exp} ns from the epoch"));
            }
        }
    }
    format!("ok filled={filled_s} type={ty} perm={perm} len={} blk={} acc={acc} mod={modi} cre={cre}", m.len(), m.block_size())
}

/// signo, code, pid, uid, status
type Si = (i32, i32, i32, u32, i32);

fn parse_si(s: &str) -> Option<Si> {
    let f: Vec<&str> = s.split(':').collect();
    if f.len() != 5 {
        return None;
    }
    let i = |k: usize| int(f[k]).and_then(|v| i32::try_from(v).ok());
    Some((i(0)?, i(1)?, i(2)?, u32::try_from(nat(f[3])?).ok()?, i(4)?))
}

fn wait_out(r: std::io::Result<a10::process::WaitInfo>, si: &Option<Si>, fails: &Fails) -> String {
    match r {
        Ok(w) => {
            let signo = dbg_num(&format!("{:?}", w.signal()));
            let code = dbg_num(&format!("{:?}", w.code()));
            let status = w.status().into_raw();
            if let Some((s, c, p, u, st)) = si {
                check(fails, signo == i64::from(*s) && code == i64::from(*c) && w.pid() == *p && w.real_user_id() == *u, "C13/decode/waitinfo", "WaitInfo accessors differ from the siginfo_t the kernel wrote".into());
                // The ExitStatus must say what wait(2) / std::process would say about this child.
                use std::os::unix::process::ExitStatusExt;
                let es = w.status();
                let sig_ok = (1..=64).contains(st);
                let good = match *c {
                    libc::CLD_EXITED => es.code() == Some(st & 0xff) && es.signal().is_none(),
                    libc::CLD_KILLED => !sig_ok || (es.signal() == Some(*st) && !es.core_dumped() && es.code().is_none()),
                    libc::CLD_DUMPED => !sig_ok || (es.signal() == Some(*st) && es.core_dumped()),
                    libc::CLD_STOPPED | libc::CLD_TRAPPED => !sig_ok || es.stopped_signal() == Some(*st),
                    libc::CLD_CONTINUED => es.continued(),
                    _ => status == *st,
                };
                check(fails, good, "C13/decode/wait-status", format!("WaitInfo::status() for si_code {c}, si_status {st} is {es:?} (raw {status:#x}): not what wait(2) reports for that child"));
            }
            format!("ok pid={} uid={} signo={signo} status={status} code={code}", w.pid(), w.real_user_id())
        }
        Err(e) => show_err(&e),
    }
}

fn parse_ssi(s: &str) -> Option<(u32, u32, u32)> {
    let f: Vec<&str> = s.split(':').collect();
    if f.len() != 3 {
        return None;
    }
    let u = |k: usize| nat(f[k]).and_then(|v| u32::try_from(v).ok());
    Some((u(0)?, u(1)?, u(2)?))
}

fn getsockopt_obj(fd: &'static AsyncFd, name: &str, ov: Option<Vec<u8>>, n: i64, fails: Fails) -> Option<(Box<dyn Erased>, Option<String>)> {
    use a10::net::option as o;
    let word = ov.as_ref().map(|v| u32::from_ne_bytes(v[0..4].try_into().unwrap()));
    let full = n == ov.as_ref().map_or(-1, |v| v.len() as i64);
    macro_rules! get {
        ($t:ty, $show:expr, $expect:expr) => {{
            let show = $show;
            let expect: Option<String> = if full { $expect } else { None };
            let expect_ok = expect.as_ref().map(|e| format!("ok val={e}"));
            (fut(fd.socket_option::<$t>(), move |r| match r {
                Ok(v) => {
                    let s: String = show(v);
                    if let Some(e) = &expect {
                        check(&fails, &s == e, "C13/decode/sockopt", format!("getsockopt returned {e}, the operation returned {s}"));
                    }
                    format!("ok val={s}")
                }
                Err(e) => show_err(&e),
            }), expect_ok)
        }};
    }
    let b01 = word.and_then(|w| if w <= 1 { Some((w == 1).to_string()) } else { None });
    let u = word.map(|w| w.to_string());
    let ou = |v: Option<u32>| v.map_or("none".to_string(), |x| format!("some:{x}"));
    Some(match name {
        "error" => get!(o::Error, |v: Option<std::io::Error>| v.map_or("none".to_string(), |e| format!("some:{}", e.raw_os_error().unwrap_or(0))), word.map(|w| if w == 0 { "none".into() } else { format!("some:{}", w as i32) })),
        "keepalive" => get!(o::KeepAlive, |v: bool| v.to_string(), b01),
        "linger" => get!(o::Linger, ou, ov.as_ref().map(|v| {
            let on = i32::from_ne_bytes(v[0..4].try_into().unwrap());
            let l = u32::from_ne_bytes(v[4..8].try_into().unwrap());
            if on > 0 { format!("some:{l}") } else { "none".into() }
        })),
        "reuseaddr" => get!(o::ReuseAddress, |v: bool| v.to_string(), b01),
        "reuseport" => get!(o::ReusePort, |v: bool| v.to_string(), b01),
        "type" => get!(o::Type, |v: a10::net::Type| dbg_num(&format!("{v:?}")).to_string(), u),
        "recvbuf" => get!(o::RecvBuf, |v: u32| v.to_string(), u),
        "sendbuf" => get!(o::SendBuf, |v: u32| v.to_string(), u),
        "recvlowat" => get!(o::RecvLowWater, |v: u32| v.to_string(), u),
        "sendlowat" => get!(o::SendLowWater, |v: u32| v.to_string(), u),
        "nodelay" => get!(o::TcpNoDelay, |v: bool| v.to_string(), b01),
        "keepcnt" => get!(o::TcpKeepAliveCount, |v: u32| v.to_string(), u),
        "keepintvl" => get!(o::TcpKeepAliveInterval, |v: u32| v.to_string(), u),
        "domain" => get!(o::Domain, |v: a10::net::Domain| dbg_num(&format!("{v:?}")).to_string(), word.map(|w| (w as i32).to_string())),
        "protocol" => get!(o::Protocol, |v: a10::net::Protocol| dbg_num(&format!("{v:?}")).to_string(), u),
        "acceptconn" => get!(o::Accept, |v: bool| v.to_string(), b01),
        "keepidle" => get!(o::TcpKeepAliveIdle, |v: u32| v.to_string(), u),
        "incomingcpu" => get!(o::IncomingCpu, ou, word.map(|w| if (w as i32) < 0 { "none".into() } else { format!("some:{w}") })),
        "cork" => get!(o::TcpCork, |v: bool| v.to_string(), b01),
        _ => return None,
    })
}

fn setsockopt_obj(fd: &'static AsyncFd, name: &str, v: Option<u32>) -> Option<Box<dyn Erased>> {
    use a10::net::option as o;
    let b = v.unwrap_or(0) != 0;
    let u = v.unwrap_or(0);
    Some(match name {
        "keepalive" => fut(fd.set_socket_option::<o::KeepAlive>(b), unit_out),
        "linger" => fut(fd.set_socket_option::<o::Linger>(v), unit_out),
        "reuseaddr" => fut(fd.set_socket_option::<o::ReuseAddress>(b), unit_out),
        "reuseport" => fut(fd.set_socket_option::<o::ReusePort>(b), unit_out),
        "recvbuf" => fut(fd.set_socket_option::<o::RecvBuf>(u), unit_out),
        "sendbuf" => fut(fd.set_socket_option::<o::SendBuf>(u), unit_out),
        "recvlowat" => fut(fd.set_socket_option::<o::RecvLowWater>(u), unit_out),
        "nodelay" => fut(fd.set_socket_option::<o::TcpNoDelay>(b), unit_out),
        "keepcnt" => fut(fd.set_socket_option::<o::TcpKeepAliveCount>(u), unit_out),
        "keepintvl" => fut(fd.set_socket_option::<o::TcpKeepAliveInterval>(u), unit_out),
        "keepidle" => fut(fd.set_socket_option::<o::TcpKeepAliveIdle>(u), unit_out),
        "incomingcpu" => fut(fd.set_socket_option::<o::IncomingCpu>(u), unit_out),
        "cork" => fut(fd.set_socket_option::<o::TcpCork>(b), unit_out),
        _ => return None,
    })
}

// ---------------------------------------------------------------------------
// Running one op line

/// What the kernel writes for `peer=`/`klen=` into an address buffer of type
/// `at=`: the first `klen` bytes of the address over 0xAA junk, and the length.
fn peer_storage(kv: &Kv) -> (Vec<u8>, u32) {
    let at = kv.get("at").unwrap_or("none");
    let ml = mut_len(at).unwrap_or(0) as usize;
    let klen = kv.u32("klen").unwrap_or(0) as usize;
    let mut st = vec![0xAAu8; ml];
    if ml > 0 {
        let peer = kv.get("peer").and_then(parse_addr).unwrap_or(AddrSpec::None);
        let kb = kernel_bytes(&peer);
        let k = klen.min(kb.len()).min(ml);
        st[..k].copy_from_slice(&kb[..k]);
    }
    (st, klen as u32)
}

fn show_sys(c: &simk::SyncCall) -> String {
    match c.call {
        "getsockopt" => format!("sys getsockopt fd={} level={} optname={} optlen={}", c.fd, c.level as u32, c.optname as u32, c.len_in),
        "setsockopt" => format!("sys setsockopt fd={} level={} optname={} optval={} optlen={}", c.fd, c.level as u32, c.optname as u32, hexs(&c.val), c.len_in),
        "pipe2" => format!("sys pipe2 flags={}", c.flags as u32),
        name => format!("sys {name} fd={} addrlen={}", c.fd, c.len_in),
    }
}

fn describe_sys(c: &simk::SyncCall) -> String {
    let s = show_sys(c);
    let mut it = s[4..].splitn(2, ' ');
    format!("{}({})", it.next().unwrap_or(""), it.next().unwrap_or("").replace(' ', ", "))
}

fn special_err(op: &str, e: i128) -> bool {
    match op {
        "pipe" => e == 22,
        "sockname" => e == 95,
        "getsockopt" | "setsockopt" => e == 95 || e == 38,
        _ => false,
    }
}

fn is_multi(op: &str) -> bool {
    matches!(op, "mread" | "mrecv" | "maccept" | "pollable")
}

impl EncCase {
    fn fail(&self, sig: &str, what: String) {
        self.fails.borrow_mut().push(("C13".into(), sig.into(), what));
    }

    fn ctx_for(&self, s: &Sqe, bufs: &[(usize, usize)]) -> Ctx {
        let state = if s.user_data > 3 { track::block_of((s.user_data & !1) as usize) } else { None };
        let pool_gid = simk::with_ring(self.ring_fd, |r, _| r.pbufs.keys().next().copied());
        Ctx { state, bufs: bufs.to_vec(), pool_gid }
    }

    /// The simulated kernel performs the call: writes the out-parameters the
    /// entry points to and returns the completions to post.
    fn complete(&self, op: &str, kv: &Kv, s: &Sqe, m: &MemV, cx: &Ctx, res: i64) -> Vec<PostSpec> {
        let ud = Target::UserData(s.user_data);
        if res < 0 {
            return vec![PostSpec::new(ud, res as i32, 0)];
        }
        let n = res as usize;
        let mut wrote = true;
        let mut scatter = |targets: &[(u64, usize)]| {
            let pat = pattern(n);
            let mut pos = 0;
            let mut ok = true;
            for (p, l) in targets {
                if pos >= n {
                    break;
                }
                let k = (n - pos).min(*l);
                ok &= cx.poke(*p, &pat[pos..pos + k]);
                pos += k;
            }
            ok && pos == n
        };
        let peer_write = |addr_ptr: u64, len_ptr: u64, len_bytes: usize| -> bool {
            let (st, klen) = peer_storage(kv);
            let mut ok = true;
            if !st.is_empty() {
                ok &= cx.poke(addr_ptr, &st);
            }
            let lb = klen.to_ne_bytes();
            ok &= cx.poke(len_ptr, &lb[..len_bytes]);
            ok
        };
        let mut flags = 0u32;
        let mut posts: Vec<PostSpec> = Vec::new();
        match op {
            "read" | "recv" => wrote = scatter(&[(s.addr, s.len as usize)]),
            "readv" => wrote = scatter(&m.iovecs),
            "recvv" | "recvfrom" | "recvfromv" => {
                wrote = scatter(&m.iovecs);
                let mf = kv.u32("mflags").unwrap_or(0);
                wrote &= cx.poke(s.addr + 48, &mf.to_ne_bytes());
                if op != "recvv" {
                    wrote &= peer_write(m.msg_name, s.addr + 8, 4);
                }
            }
            "readp" | "recvp" | "mread" | "mrecv" => {
                let mut p = PostSpec::new(ud.clone(), res as i32, if is_multi(op) { CQE_F_MORE } else { 0 });
                if n > 0 {
                    p.data = Some(pattern(n));
                    p.select_buf = true;
                }
                return vec![p];
            }
            "accept" => wrote = peer_write(s.addr, s.off, 4),
            "sockname" => wrote = peer_write(s.addr, s.addr3, 4),
            "statx" => {
                if let Some((mask, mode, size, blk, t)) = kv.get("stx").and_then(parse_stx) {
                    let mut b = vec![0u8; 256];
                    b[0..4].copy_from_slice(&mask.to_ne_bytes());
                    b[4..8].copy_from_slice(&blk.to_ne_bytes());
                    b[28..30].copy_from_slice(&mode.to_ne_bytes());
                    b[40..48].copy_from_slice(&size.to_ne_bytes());
                    for (o, (sec, nsec)) in [(64usize, t[0]), (112, t[1]), (80, t[2])] {
                        b[o..o + 8].copy_from_slice(&sec.to_ne_bytes());
                        b[o + 8..o + 12].copy_from_slice(&nsec.to_ne_bytes());
                    }
                    wrote = cx.poke(s.off, &b);
                }
            }
            "waitid" => {
                if let Some((signo, code, pid, uid, status)) = kv.get("si").and_then(parse_si) {
                    let mut b = vec![0u8; 128];
                    b[0..4].copy_from_slice(&signo.to_ne_bytes());
                    b[8..12].copy_from_slice(&code.to_ne_bytes());
                    b[16..20].copy_from_slice(&pid.to_ne_bytes());
                    b[20..24].copy_from_slice(&uid.to_ne_bytes());
                    b[24..28].copy_from_slice(&status.to_ne_bytes());
                    wrote = cx.poke(s.off, &b);
                }
            }
            "sigrecv" => {
                if let Some((signo, pid, uid)) = kv.get("ssi").and_then(parse_ssi) {
                    let mut b = vec![0u8; 128];
                    b[0..4].copy_from_slice(&signo.to_ne_bytes());
                    b[12..16].copy_from_slice(&pid.to_ne_bytes());
                    b[16..20].copy_from_slice(&uid.to_ne_bytes());
                    wrote = cx.poke(s.addr, &b);
                }
            }
            "getsockopt" => {
                if let Some(v) = kv.get("ov").and_then(unhex) {
                    wrote = cx.poke(s.addr3, &v);
                }
            }
            "todirect" => {
                let idx = kv.nat("idx").unwrap_or(0) as i32;
                wrote = cx.poke(s.addr, &idx.to_ne_bytes());
            }
            "pipe" => {
                if let Some(v) = kv.get("pfds").and_then(nat_list) {
                    if v.len() == 2 {
                        if kv.get("ck") != Some("d") {
                            place_fd(v[0] as i32);
                            place_fd(v[1] as i32);
                        }
                        let b = [(v[0] as i32).to_ne_bytes(), (v[1] as i32).to_ne_bytes()].concat();
                        wrote = cx.poke(s.addr, &b);
                    }
                }
            }
            "open" | "socket" => {
                if kv.get("ck") != Some("d") {
                    place_fd(res as i32);
                }
            }
            "tofd" => {
                place_fd(res as i32);
            }
            "accept_fd" => {}
            _ => {}
        }
        if matches!(op, "accept" | "maccept") && kv.get("k") == Some("f") {
            place_fd(res as i32);
        }
        if !wrote {
            self.fail(&format!("C13/kernel-write/{op}"), format!("{op}: the entry does not point the kernel at memory the operation owns (out-parameter / data could not be written)"));
        }
        if is_multi(op) {
            flags |= CQE_F_MORE;
        }
        if (op == "send" || op == "sendto" || op == "sendmsg") && kv.nat("zc") == Some(1) {
            posts.push(PostSpec::new(ud.clone(), res as i32, CQE_F_MORE));
            posts.push(PostSpec::new(ud, 0, CQE_F_NOTIF));
        } else {
            posts.push(PostSpec::new(ud, res as i32, flags));
        }
        posts
    }

    /// One op line, with the synchronous socket/pipe calls trapped for its
    /// duration (recorded and answered from the script instead of reaching the
    /// real kernel).
    fn run(&mut self, op: &str, toks: &[&str]) -> Vec<String> {
        simk::sync_trap(true);
        let mut out = self.run_inner(op, toks);
        // calls nobody accounted for (early exits of `run_inner`)
        let stray = simk::sync_drain();
        if !stray.is_empty() {
            let k = Kv::new(toks).get("k").unwrap_or("?").to_string();
            for c in &stray {
                out.push(show_sys(c));
                self.fail(&format!("C13/encode/fallback-unexpected/{op}"), format!("{op} (k={k}): synchronous {} issued although the operation was not completed with an error that has a fallback", describe_sys(c)));
            }
        }
        simk::sync_trap(false);
        out
    }

    /// The outcome the line scripts for the system call of a fallback.
    fn sync_script_for(&self, op: &str, kv: &Kv, sys: i64) -> simk::SyncScript {
        let mut sc = simk::SyncScript::default();
        if sys < 0 {
            sc.errno = Some(-sys as i32);
            return sc;
        }
        match op {
            "sockname" => {
                let (st, klen) = peer_storage(kv);
                sc.data = st;
                sc.len_out = klen;
            }
            "getsockopt" => {
                sc.data = kv.get("ov").and_then(unhex).unwrap_or_default();
                sc.len_out = kv.u32("slen").unwrap_or(0);
            }
            "pipe" => {
                if let Some(v) = kv.get("pfds").and_then(nat_list) {
                    if v.len() == 2 {
                        place_fd(v[0] as i32);
                        place_fd(v[1] as i32);
                        sc.fds = [v[0] as i32, v[1] as i32];
                    }
                }
            }
            _ => {}
        }
        sc
    }

    /// The property's own judgement of the synchronous calls an operation issued
    /// (independent of the Lean model): compared with the io_uring request the
    /// operation published (`s`, `m`) and the descriptor it was called on.
    #[allow(clippy::too_many_arguments)]
    fn judge_sync(&self, op: &str, k: &str, s: &Sqe, m: &MemV, special: bool, sys: i64, calls: &[simk::SyncCall], line: &str, expect_ok: Option<&String>, kv: &Kv) {
        let on_fd = op != "pipe";
        let direct_target = on_fd && k == "d";
        let own = if !on_fd { "the submission queue".to_string() } else if k == "d" { format!("direct descriptor {}", self.dfd) } else { format!("regular descriptor {}", self.rfd) };
        if !special {
            for c in calls {
                self.fail(&format!("C13/encode/fallback-unexpected/{op}"), format!("{op} on {own}: synchronous {} issued although the completion carried no error that has a fallback", describe_sys(c)));
            }
            return;
        }
        for c in calls {
            if direct_target {
                self.fail(&format!("C13/encode/fallback-on-direct/{op}"), format!("{op} on {own}: the fallback issued {} — a system call takes a regular descriptor, so it operates on whatever regular descriptor has number {} instead of the direct descriptor", describe_sys(c), c.fd));
                continue;
            }
            if on_fd && c.fd != self.rfd {
                self.fail(&format!("C13/encode/fallback-wrong-fd/{op}"), format!("{op} on {own}: the fallback issued {} on descriptor {}", describe_sys(c), c.fd));
            }
            let want_call = match op {
                "sockname" => if s.file_index == 0 { "getsockname" } else { "getpeername" },
                "getsockopt" => "getsockopt",
                "setsockopt" => "setsockopt",
                _ => "pipe2",
            };
            if c.call != want_call {
                self.fail(&format!("C13/encode/fallback-call/{op}"), format!("{op} on {own}: the request stands for {want_call}, the fallback issued {}", describe_sys(c)));
                continue;
            }
            let args_ok = match op {
                "sockname" => Some(c.len_in) == m.alen && Some(c.len_in) == kv.get("at").and_then(mut_len),
                "getsockopt" => c.level as u32 as u64 == s.addr & 0xffff_ffff && c.optname as u32 as u64 == s.addr >> 32 && c.len_in == s.file_index,
                "setsockopt" => c.level as u32 as u64 == s.addr & 0xffff_ffff && c.optname as u32 as u64 == s.addr >> 32 && c.len_in == s.file_index && Some(&c.val) == m.optval.as_ref(),
                // regular descriptors are always created close-on-exec; everything
                // else as in the request
                _ => c.flags as u32 & !O_CLOEXEC == s.op_flags & !O_CLOEXEC && c.flags as u32 & O_CLOEXEC != 0,
            };
            if !args_ok {
                let carried = match op {
                    "sockname" => format!("addrlen={}", m.alen.map_or("?".to_string(), |l| l.to_string())),
                    "getsockopt" => format!("level={} optname={} optlen={}", s.addr & 0xffff_ffff, s.addr >> 32, s.file_index),
                    "setsockopt" => format!("level={} optname={} optval={} optlen={}", s.addr & 0xffff_ffff, s.addr >> 32, m.optval.as_ref().map_or("?".to_string(), |v| hexs(v)), s.file_index),
                    _ => format!("flags={} (regular descriptors are additionally close-on-exec)", s.op_flags),
                };
                self.fail(&format!("C13/encode/fallback-args/{op}"), format!("{op} on {own}: the fallback issued {}, the io_uring request carried {carried}", describe_sys(c)));
            }
        }
        if direct_target {
            // the error check of `run_inner` requires the kernel's error unchanged
            return;
        }
        if calls.is_empty() {
            self.fail(&format!("C13/encode/fallback-missing/{op}"), format!("{op} on {own}: the kernel does not support the io_uring form (errno {}), the system call was not issued and the caller got `{line}`", kv.int("res").map_or(0, |r| -r)));
            return;
        }
        if calls.len() > 1 {
            self.fail(&format!("C13/encode/fallback-call/{op}"), format!("{op} on {own}: {} system calls issued for one operation", calls.len()));
        }
        // the result: the system call's error, or its out-parameters decoded as
        // the io_uring completion with the same bytes would be
        let expect: Option<String> = if sys < 0 {
            Some(format!("err {}", -sys))
        } else {
            match op {
                "setsockopt" => Some("ok".into()),
                "pipe" => kv.get("pfds").map(|p| format!("ok fds={p} kind=f")),
                _ => expect_ok.cloned(),
            }
        };
        if let Some(e) = expect {
            if line != e {
                self.fail(&format!("C13/encode/fallback-result/{op}"), format!("{op} on {own}: {} returned {}; through io_uring the same outcome is decoded as `{e}`, the operation returned `{line}`", describe_sys(&calls[0]), if sys < 0 { format!("errno {}", -sys) } else { "0".to_string() }));
            }
        }
    }

    fn run_inner(&mut self, op: &str, toks: &[&str]) -> Vec<String> {
        let bad = || vec!["bad-op".to_string()];
        if !self.ok {
            return bad();
        }
        let kv = Kv::new(toks);
        let (Some(res), Some(late)) = (kv.int("res"), kv.nat("late")) else { return bad() };
        if res <= -2147483648 || res >= 2147483648 || late > 2 || (late >= 1 && (op == "close" || op == "dropfd")) {
            return bad();
        }
        if res < 0 && !matches!(op, "close" | "dropfd") && (res == -4 || res == -125) {
            return bad();
        }
        // A completion error with a fallback path: the line scripts the system
        // call (`sys=0|-errno`, `slen=` = option length getsockopt reports).
        // Without `sys=` (older syntax) such lines stay rejected.
        let special = res < 0 && special_err(op, -res);
        if (kv.get("sys").is_some() || kv.get("slen").is_some()) && !special {
            return bad();
        }
        let mut sys: i64 = 0;
        if special {
            let Some(v) = kv.int("sys") else { return bad() };
            if v > 0 || v < -4095 {
                return bad();
            }
            sys = v as i64;
            if (op == "getsockopt") != kv.get("slen").is_some() || (op == "getsockopt" && kv.u32("slen").is_none()) {
                return bad();
            }
        }
        let res = res as i64;
        let Some(mut b) = self.build(op, &kv, res) else { return bad() };
        let mut out = Vec::new();
        let w = util::waker(1);
        let mut cx = Context::from_waker(&w);
        let old = self.sq_tail();
        match util::catch(|| b.obj.poll(&mut cx)) {
            Ok(None) => {}
            Ok(Some(s)) => out.push(format!("early {s}")),
            Err(_) => out.push("panic-on-first-poll".into()),
        }
        let sqes = self.new_sqes(old);
        if sqes.len() != 1 {
            out.push(format!("entries={}", sqes.len()));
            drop(b.obj);
            if let Some(c) = b.cleanup.take() {
                c();
            }
            self.settle();
            self.fail(&format!("C13/entries/{op}"), format!("{op}: the first poll published {} submission entries instead of one", sqes.len()));
            return out;
        }
        let raw = sqes[0];
        let alias = |mut e: Sqe| {
            if let Some((actual, script)) = b.fd_alias {
                if e.fd == actual {
                    e.fd = script;
                }
            }
            e
        };
        let s = alias(raw);
        let ctx = self.ctx_for(&s, &b.bufs);
        let mem = read_mem(op, &s, &ctx);
        out.push(show_sqe("sqe", op, &s, &ctx));
        if let Some(l) = show_mem(&mem) {
            out.push(l);
        }
        // Unix addresses must be passed with their canonical length (what std/libc
        // pass): offsetof(sun_path) + |path| + 1, + 1 + |name| for abstract names,
        // the bare family for the unnamed address.
        if let (Some(a), Some(bytes)) = (kv.get("a"), &mem.addr) {
            let canon = if let Some(h) = a.strip_prefix("path:") {
                Some(("path", 2 + h.len() / 2 + 1))
            } else if let Some(h) = a.strip_prefix("abstract:") {
                Some(("abstract", 3 + if h == "-" { 0 } else { h.len() / 2 }))
            } else if a == "unnamed" {
                Some(("unnamed", 2))
            } else {
                None
            };
            if let Some((kind, n)) = canon {
                if bytes.len() != n {
                    self.fail(&format!("C13/encode/unix-address-length/{kind}"), format!("{op}: Unix address {a} passed with length {} instead of {n}", bytes.len()));
                }
            }
        }
        let call = abi_call(op, &s, &mem, &ctx);
        if call != b.posix {
            let sig = self.signature(op, &kv, &call, &b.posix);
            self.fail(&sig, format!("{op}: the submission stands for `{}` but the API call means `{}`", &call[5..], &b.posix[5..]));
        }
        // A request that does not stand for the intended call is not executed:
        // the "kernel" would write through pointers that may be the wrong ones.
        let unsafe_to_run = call != b.posix
            && !(op == "statx" && kv.get("k") == Some("d"))
            && matches!(op, "read" | "recv" | "readv" | "recvv" | "recvfrom" | "recvfromv" | "accept" | "sockname" | "statx" | "waitid" | "sigrecv" | "getsockopt" | "todirect" | "pipe");
        out.push(call);
        self.feats.push(format!("kind:{}", kv.get("k").unwrap_or("?")));
        for key in ["off", "offin", "offout"] {
            match kv.get(key) {
                Some("none") => self.feats.push("offset:current-position".into()),
                Some(v) => match nat(v) {
                    Some(x) if x == u64::MAX as u128 => self.feats.push("offset:u64::MAX".into()),
                    Some(x) if x > u32::MAX as u128 => self.feats.push("offset:>2^32".into()),
                    Some(_) => self.feats.push("offset:small".into()),
                    None => {}
                },
                None => {}
            }
        }
        for key in ["bufs", "lens"] {
            if let Some(v) = kv.get(key) {
                self.feats.push(format!("vectored:{}", v.split(',').count()));
            }
        }
        if kv.get("len") == Some("0") || kv.get("cap") == kv.get("len") && kv.get("cap").is_some() {
            self.feats.push("length:0".into());
        }
        for key in ["rfl", "sfl", "mask", "mode", "wopt", "pfl"] {
            if let Some(v) = kv.get(key) {
                if v != "none" && !(op == "open" && key == "mode") {
                    self.feats.push("flags:set".into());
                }
            }
        }
        if kv.get("zc") == Some("1") {
            self.feats.push("zero-copy".into());
        }
        if let Some(a) = kv.get("a") {
            self.feats.push(format!("addr-in:{}", a.split(':').next().unwrap_or("?")));
        }
        if let Some(a) = kv.get("at") {
            self.feats.push(format!("addr-out:{a}"));
        }
        if matches!(op, "readp" | "recvp" | "mread" | "mrecv") {
            self.feats.push("pool-buffer".into());
        }
        if matches!(kv.get("ck"), Some("d")) {
            self.feats.push("create:direct".into());
        }
        if unsafe_to_run {
            self.rpoll(vec![PostSpec::new(Target::UserData(s.user_data), -libc::EIO, 0)]);
            let _ = util::catch(|| b.obj.poll(&mut cx));
            out.push("out not-executed".into());
            drop(b.obj);
            if let Some(c) = b.cleanup.take() {
                c();
            }
            self.settle();
            return out;
        }
        if op == "dropfd" {
            out.push("out ok".into());
            drop(b.obj);
            self.settle();
            return out;
        }
        if late == 1 {
            self.feats.push("late-builder+restart".into());
            b.obj.late();
            self.rpoll(vec![PostSpec::new(Target::UserData(s.user_data), -libc::EINTR, 0)]);
            let old2 = self.sq_tail();
            let _ = util::catch(|| b.obj.poll(&mut cx));
            let again = self.new_sqes(old2);
            match again.as_slice() {
                [s2] => {
                    let ctx2 = self.ctx_for(s2, &b.bufs);
                    out.push(show_sqe("sqe2", op, &alias(*s2), &ctx2));
                    if s2.bytes() != raw.bytes() {
                        self.fail(&format!("C13/builder-after-poll/{op}"), format!("{op}: a builder method called after the first poll changed the re-issued request"));
                    }
                }
                other => out.push(format!("entries2={}", other.len())),
            }
        }
        let posts = if op == "close" { Vec::new() } else { self.complete(op, &kv, &s, &mem, &ctx, res) };
        self.rpoll(posts);
        if late == 2 {
            // the completion has been processed (the operation is `Done`), the future has not been
            // polled yet: a builder method called now must not reach the result either (for the
            // descriptor-creating operations: the kind the kernel's answer is wrapped as)
            self.feats.push("late-builder-after-completion".into());
            b.obj.late();
        }
        if special {
            simk::sync_script(Some(self.sync_script_for(op, &kv, sys)));
        }
        let line = match util::catch(|| b.obj.poll(&mut cx)) {
            Ok(Some(l)) => l,
            Ok(None) => "pending".into(),
            Err(_) => "panic".into(),
        };
        let k = kv.get("k").unwrap_or("?");
        let calls = simk::sync_drain();
        simk::sync_script(None);
        for c in &calls {
            out.push(show_sys(c));
        }
        if special {
            if calls.is_empty() {
                out.push("sys none".into());
            }
            let target = if op == "pipe" { "queue" } else if k == "d" { "direct" } else { "regular" };
            self.feats.push(format!("fallback:{op}:{target}:{}", if sys < 0 { "sys-error" } else { "sys-ok" }));
            if let Some(o) = kv.get("opt") {
                self.feats.push(format!("fallback-opt:{op}:{o}:{target}"));
            }
            if op == "pipe" && sys == 0 && !calls.iter().any(|c| c.call == "pipe2") {
                // descriptors placed for a pipe2 that never came
                if let Some(v) = kv.get("pfds").and_then(nat_list) {
                    for fd in v {
                        unsafe { libc::close(fd as i32) };
                    }
                }
            }
        }
        self.judge_sync(op, k, &s, &mem, special, sys, &calls, &line, b.expect_ok.as_ref(), &kv);
        // with a fallback on a regular descriptor (or a pipe) the result is the
        // system call's, judged above
        let via_syscall = special && (op == "pipe" || k == "f");
        if res < 0 && op != "close" && !via_syscall {
            self.feats.push("error-result".into());
            let expect = if res == -22 && !matches!(op, "todirect" | "tofd" | "sockname" | "getsockopt" | "setsockopt" | "pipe") { "err unsupported".to_string() } else { format!("err {}", -res) };
            if line != expect {
                self.fail(&format!("C13/decode/error/{op}"), format!("{op}: the call failed with errno {}, the operation returned `{line}`", -res));
            }
        }
        out.push(format!("out {line}"));
        drop(b.obj);
        if let Some(c) = b.cleanup.take() {
            c();
        }
        self.settle();
        out
    }

    /// Signature of an encode failure: stable per kind of mismatch.
    fn signature(&self, op: &str, kv: &Kv, call: &str, posix: &str) -> String {
        let k = kv.get("k").unwrap_or("?");
        let a = kv.get("a").unwrap_or("");
        if matches!(op, "bind" | "connect" | "sendto" | "sendmsg") && (a.starts_with("abstract:") || a == "unnamed") {
            // only the address differs?
            let strip = |s: &str| s.split(' ').filter(|t| !t.starts_with("addr=")).collect::<Vec<_>>().join(" ");
            if strip(call) == strip(posix) {
                return format!("C13/encode/unix-address-length/{}", if a == "unnamed" { "unnamed" } else { "abstract" });
            }
        }
        if op == "statx" && k == "d" && call == "call rejected" {
            return "C13/encode/statx/direct-descriptor-rejected".into();
        }
        if op == "splice" && k == "d" && kv.get("dir") == Some("to") {
            let strip = |s: &str| s.split(' ').filter(|t| !t.starts_with("in_fixed=") && !t.starts_with("out_fixed=")).collect::<Vec<_>>().join(" ");
            if strip(call) == strip(posix) {
                return "C13/encode/splice-to/direct-input-not-flagged".into();
            }
        }
        format!("C13/encode/{op}/{k}")
    }
}

// ---------------------------------------------------------------------------
// Generator

fn g_off(rng: &mut Rng) -> String {
    match rng.below(8) {
        0 | 1 => "none".into(),
        2 => "0".into(),
        3 => rng.below(4096).to_string(),
        4 => ((1u64 << 32) + rng.below(1 << 20)).to_string(),
        5 => (u64::MAX - 1).to_string(),
        6 => u64::MAX.to_string(),
        _ => rng.next().to_string(),
    }
}

fn g_u64(rng: &mut Rng) -> u64 {
    match rng.below(6) {
        0 => 0,
        1 => rng.below(4096),
        2 => (1u64 << 32) + rng.below(1 << 20),
        3 => u64::MAX,
        4 => 1u64 << 63,
        _ => rng.next(),
    }
}

fn g_u32(rng: &mut Rng) -> u32 {
    match rng.below(6) {
        0 => 0,
        1 => 1,
        2 => rng.below(65536) as u32,
        3 => u32::MAX,
        4 => 1 << 31,
        _ => rng.next() as u32,
    }
}

/// Random non-empty subset of single-bit flags, or `none`; every subset is reachable.
fn g_bits(rng: &mut Rng, bits: &[u32]) -> String {
    if rng.chance(1, 3) {
        return "none".into();
    }
    let mut v = 0u32;
    for b in bits {
        if rng.chance(1, 2) {
            v |= b;
        }
    }
    if v == 0 {
        v = *rng.pick(bits);
    }
    v.to_string()
}

fn g_buf(rng: &mut Rng) -> (usize, usize) {
    let cap = match rng.below(6) {
        0 => 0,
        1 => 1,
        2 => 64,
        _ => rng.range(1, 300) as usize,
    };
    let len = match rng.below(4) {
        0 => 0,
        1 => cap,
        _ => rng.below(cap as u64 + 1) as usize,
    };
    (cap, len)
}

fn g_bufs(rng: &mut Rng) -> Vec<(usize, usize)> {
    let n = rng.range(1, 8) as usize;
    (0..n).map(|_| g_buf(rng)).collect()
}

fn g_hexname(rng: &mut Rng, lo: u64, hi: u64, nul: bool) -> String {
    let n = rng.range(lo, hi) as usize;
    let b: Vec<u8> = (0..n).map(|_| if nul && rng.chance(1, 6) { 0 } else { rng.range(1, 255) as u8 }).collect();
    hexs(&b)
}

/// 16 address bytes (as 32 hex digits): random, or one of the structured forms a
/// decoder might special-case (IPv4-mapped, IPv4-compatible, loopback, unspecified,
/// link-local, multicast, NAT64, 6to4).
fn g_ip6(rng: &mut Rng) -> String {
    let (a, b) = (rng.next(), rng.next());
    let (a, b) = match rng.below(12) {
        0 => (0, 0x0000_ffff_0000_0000 | (b & 0xffff_ffff)),
        1 => (0, b & 0xffff_ffff),
        2 => (0, 1),
        3 => (0, 0),
        4 => (0xfe80_0000_0000_0000, b),
        5 => (0xff02_0000_0000_0000 | (a & 0xffff_ffff), b),
        6 => (0x0064_ff9b_0000_0000, b & 0xffff_ffff),
        7 => (0x2002_0000_0000_0000 | (a & 0xffff_ffff_ffff), b),
        _ => (a, b),
    };
    format!("{a:016x}{b:016x}")
}

fn g_addr(rng: &mut Rng, allow_none: bool) -> String {
    let port = *rng.pick(&[0u64, 1, 80, 255, 256, 65535, 0x1234]);
    match rng.below(if allow_none { 9 } else { 8 }) {
        0 => format!("v4:{:08x}:{port}", rng.next() as u32),
        1 => format!("any4:{:08x}:{port}", rng.next() as u32),
        2 => format!("v6:{}:{port}:{}:{}", g_ip6(rng), g_u32(rng), g_u32(rng)),
        3 => format!("any6:{}:{port}:{}:{}", g_ip6(rng), g_u32(rng), g_u32(rng)),
        4 | 5 => {
            let hi = if rng.chance(1, 4) { 107 } else { 20 };
            format!("path:{}", g_hexname(rng, 1, hi, false))
        }
        6 => format!("abstract:{}", if rng.chance(1, 8) { g_hexname(rng, 107, 107, true) } else { g_hexname(rng, 0, 20, true) }),
        7 => "unnamed".into(),
        _ => "none".into(),
    }
}

/// An address type and a peer address (with the reported length) for it.
fn g_peer(rng: &mut Rng, allow_none: bool) -> (String, String, u32) {
    let at = *rng.pick(if allow_none { &["v4", "v6", "any", "unix", "none"][..] } else { &["v4", "v6", "any", "unix"][..] });
    let port = *rng.pick(&[0u64, 1, 80, 65535, 0x1234]);
    let v4 = |rng: &mut Rng| format!("v4:{:08x}:{port}", rng.next() as u32);
    let v6 = |rng: &mut Rng| format!("v6:{:016x}{:016x}:{port}:{}:{}", rng.next(), rng.next(), g_u32(rng), g_u32(rng));
    let (peer, klen) = match at {
        "v4" => (v4(rng), 16),
        "v6" => (v6(rng), 28),
        "any" => {
            if rng.chance(1, 2) {
                (v4(rng), 16)
            } else {
                (v6(rng), 28)
            }
        }
        "unix" => match rng.below(4) {
            0 => ("unnamed".to_string(), if rng.chance(1, 2) { 2 } else { 0 }),
            1 => {
                let n = rng.range(0, 30);
                (format!("abstract:{}", g_hexname(rng, n, n, true)), 3 + n as u32)
            }
            _ => {
                let n = rng.range(1, 40);
                (format!("path:{}", g_hexname(rng, n, n, false)), 2 + n as u32 + u32::from(rng.chance(3, 4)))
            }
        },
        _ => ("unnamed".to_string(), 0),
    };
    // occasionally a length the kernel would not report (debug assertions / fallbacks)
    let klen = if rng.chance(1, 25) { rng.below(mut_len(at).unwrap_or(0) as u64 + 1) as u32 } else { klen };
    (at.to_string(), peer, klen)
}

fn g_fd(rng: &mut Rng, c: &EncCase) -> i64 {
    loop {
        let v = rng.range(600, 999) as i64;
        if v != c.rfd as i64 && v != c.tfd as i64 {
            return v;
        }
    }
}

fn g_newfd(rng: &mut Rng, c: &EncCase, kind: &str) -> i64 {
    if kind == "f" {
        g_fd(rng, c)
    } else {
        match rng.below(4) {
            0 => 0,
            1 => 2147483646,
            _ => rng.below(1 << 20) as i64,
        }
    }
}

const ERRS: [i64; 11] = [1, 2, 5, 9, 11, 13, 14, 22, 32, 104, 105];

const OPS: [&str; 44] = [
    "read", "readp", "mread", "readv", "write", "writev", "splice", "close", "dropfd", "open", "mkdir", "rename", "unlink", "fsync", "statx", "fadvise", "fallocate", "ftruncate", "socket", "bind", "listen", "connect", "sockname", "recv", "recvp", "mrecv", "recvv", "recvfrom", "recvfromv", "send", "sendto", "sendmsg", "accept", "maccept", "getsockopt", "setsockopt", "shutdown", "waitid", "sigrecv", "todirect", "tofd", "pipe", "madvise", "pollable",
];

const GET_OPTS: [&str; 19] = ["error", "keepalive", "linger", "reuseaddr", "reuseport", "type", "recvbuf", "sendbuf", "recvlowat", "sendlowat", "nodelay", "keepcnt", "keepintvl", "domain", "protocol", "acceptconn", "keepidle", "incomingcpu", "cork"];
const SET_OPTS: [&str; 13] = ["keepalive", "linger", "reuseaddr", "reuseport", "recvbuf", "sendbuf", "recvlowat", "nodelay", "keepcnt", "keepintvl", "keepidle", "incomingcpu", "cork"];

impl EncCase {
    #[allow(clippy::too_many_lines)]
    fn gen_op(&mut self, rng: &mut Rng) -> String {
        let op = *rng.pick(&OPS);
        let mut k = if rng.chance(1, 2) { "f" } else { "d" };
        match op {
            "sigrecv" | "todirect" => k = "f",
            "tofd" => k = "d",
            _ => {}
        }
        let err = rng.chance(1, 7);
        // The errors with a synchronous fallback are a class of their own (1 in 3
        // of the lines of socket names and pipes, 1 in 2 of socket options — 19 + 13
        // option types on two kinds of descriptor), on both kinds of descriptor:
        // the line then also scripts the system call.
        let fb = match op {
            "sockname" | "pipe" => rng.chance(1, 3),
            "getsockopt" | "setsockopt" => rng.chance(1, 2),
            _ => false,
        };
        let late = if !matches!(op, "close" | "dropfd") && rng.chance(1, 5) { 1 + rng.below(2) } else { 0 };
        let pick_err = |rng: &mut Rng, op: &str| -> i64 {
            loop {
                let e = *rng.pick(&ERRS);
                if !special_err(op, e as i128) {
                    return -e;
                }
            }
        };
        let mut res: i64 = 0;
        let body = match op {
            "read" | "recv" | "recvfrom" => {
                let (cap, len) = g_buf(rng);
                res = match rng.below(4) {
                    0 => 0,
                    1 => (cap - len) as i64,
                    _ => rng.below((cap - len) as u64 + 1) as i64,
                };
                let mut s = format!("cap={cap} len={len}");
                if op == "read" {
                    s += &format!(" off={}", g_off(rng));
                } else {
                    if op == "recvfrom" {
                        let (at, peer, klen) = g_peer(rng, false);
                        s += &format!(" at={at} peer={peer} klen={klen} mflags={}", *rng.pick(&[0u32, 0x20, 0x8, 0x80000000]));
                    }
                    s += &format!(" rfl={}", g_bits(rng, &RECV_BITS));
                }
                s
            }
            "readp" => {
                res = rng.below(POOL_BUF as u64 + 1) as i64;
                format!("off={}", g_off(rng))
            }
            "recvp" | "mrecv" => {
                res = rng.below(POOL_BUF as u64 + 1) as i64;
                format!("rfl={}", g_bits(rng, &RECV_BITS))
            }
            "mread" => {
                res = rng.below(POOL_BUF as u64 + 1) as i64;
                String::new()
            }
            "readv" | "recvv" | "recvfromv" => {
                let bufs = g_bufs(rng);
                let total: usize = bufs.iter().map(|(c, l)| c - l).sum();
                res = match rng.below(4) {
                    0 => 0,
                    1 => total as i64,
                    _ => rng.below(total as u64 + 1) as i64,
                };
                let mut s = format!("bufs={}", bufs.iter().map(|(c, l)| format!("{c}:{l}")).collect::<Vec<_>>().join(","));
                if op == "readv" {
                    s += &format!(" off={}", g_off(rng));
                } else {
                    if op == "recvfromv" {
                        let (at, peer, klen) = g_peer(rng, false);
                        s += &format!(" at={at} peer={peer} klen={klen}");
                    }
                    s += &format!(" mflags={} rfl={}", *rng.pick(&[0u32, 0x20, 0x8, 0x80000000]), g_bits(rng, &RECV_BITS));
                }
                s
            }
            "write" | "send" | "sendto" => {
                let len = g_buf(rng).0;
                res = rng.below(len as u64 + 1) as i64;
                let mut s = format!("len={len}");
                if op == "write" {
                    s += &format!(" off={}", g_off(rng));
                } else {
                    s += &format!(" sfl={} zc={} ord={}", g_bits(rng, &SEND_BITS), rng.below(2), rng.below(2));
                    if op == "sendto" {
                        s += &format!(" a={}", g_addr(rng, true));
                    }
                }
                s
            }
            "writev" | "sendmsg" => {
                let n = rng.range(1, 8) as usize;
                let lens: Vec<usize> = (0..n).map(|_| g_buf(rng).0).collect();
                res = rng.below(lens.iter().sum::<usize>() as u64 + 1) as i64;
                let mut s = format!("lens={}", lens.iter().map(|l| l.to_string()).collect::<Vec<_>>().join(","));
                if op == "writev" {
                    s += &format!(" off={}", g_off(rng));
                } else {
                    s += &format!(" sfl={} zc={} a={}", g_bits(rng, &SEND_BITS), rng.below(2), g_addr(rng, true));
                }
                s
            }
            "splice" => {
                let len = g_u32(rng);
                res = rng.below(u64::from(len.min(1 << 20)) + 1) as i64;
                format!("dir={} len={len} offin={} offout={} sfl={}", if rng.chance(1, 2) { "to" } else { "from" }, g_off(rng), g_off(rng), g_bits(rng, &[libc::SPLICE_F_MOVE, libc::SPLICE_F_MORE]))
            }
            "close" | "dropfd" => {
                let cfd = if k == "f" { g_fd(rng, self) } else { rng.below(64) as i64 };
                format!("cfd={cfd}")
            }
            "open" => {
                let all = ["r", "w", "wo", "a", "t", "c", "cn", "ds", "s", "di"];
                let n = rng.below(5);
                let oo: Vec<&str> = (0..n).map(|_| *rng.pick(&all)).collect();
                let ck = *rng.pick(&["none", "f", "d"]);
                res = g_newfd(rng, self, if ck == "d" { "d" } else { "f" });
                let mode = if rng.chance(1, 2) { "none".to_string() } else { (*rng.pick(&[0u32, 0o600, 0o644, 0o7777, u32::MAX])).to_string() };
                format!("path={} oo={} mode={mode} ck={ck} tmp={}", g_hexname(rng, 0, 24, false), if oo.is_empty() { "-".to_string() } else { oo.join(",") }, u8::from(rng.chance(1, 6)))
            }
            "mkdir" => format!("path={}", g_hexname(rng, 0, 24, false)),
            "rename" => format!("path={} path2={}", g_hexname(rng, 0, 24, false), g_hexname(rng, 0, 24, false)),
            "unlink" => format!("path={} dir={}", g_hexname(rng, 0, 24, false), rng.below(2)),
            "fsync" => format!("data={}", rng.below(2)),
            "pollable" => format!("pfd={}", match rng.below(4) { 0 => 0, 1 => (1u64 << 31) - 1, _ => 1000 + rng.below(1000) }),
            "statx" => {
                let sec = |rng: &mut Rng| -> i64 {
                    match rng.below(7) {
                        0 => 0,
                        1 => -1,
                        2 => i64::MIN,
                        3 => i64::MAX,
                        4 => -(rng.below(1 << 40) as i64),
                        _ => rng.below(1 << 40) as i64,
                    }
                };
                let ns = |rng: &mut Rng| -> u32 {
                    match rng.below(4) {
                        0 => 0,
                        1 => 999_999_999,
                        _ => rng.below(1_000_000_000) as u32,
                    }
                };
                let mode: u16 = (*rng.pick(&[0o040000u16, 0o100000, 0o120000, 0o140000, 0o060000, 0o020000, 0o010000, 0, 0o170000])) | (rng.below(0o10000) as u16);
                format!(
                    "mask={} stx={}:{}:{}:{}:{}:{}:{}:{}:{}:{}",
                    g_bits(rng, &STATX_BITS),
                    g_u32(rng),
                    mode,
                    g_u64(rng),
                    g_u32(rng),
                    sec(rng),
                    ns(rng),
                    sec(rng),
                    ns(rng),
                    sec(rng),
                    ns(rng)
                )
            }
            "fadvise" => format!("off={} len={} adv={}", g_u64(rng), g_u32(rng), rng.below(6)),
            "fallocate" => format!("off={} len={} mode={}", g_u64(rng), g_u32(rng), g_bits(rng, &ALLOC_BITS)),
            "ftruncate" => format!("len={}", g_u64(rng)),
            "socket" => {
                let ck = *rng.pick(&["none", "f", "d"]);
                res = g_newfd(rng, self, if ck == "d" { "d" } else { "f" });
                let proto = if rng.chance(1, 3) { "none".to_string() } else { rng.pick(&proto_table()).0.to_string() };
                format!("dom={} type={} proto={proto} ck={ck}", rng.pick(&domain_table()).0, rng.pick(&type_table()).0)
            }
            "bind" | "connect" => format!("a={}", g_addr(rng, false)),
            "listen" => format!("backlog={}", g_u32(rng)),
            "sockname" => {
                let (at, peer, klen) = g_peer(rng, false);
                format!("which={} at={at} peer={peer} klen={klen}", if rng.chance(1, 2) { "local" } else { "peer" })
            }
            "accept" => {
                let (at, peer, klen) = g_peer(rng, true);
                res = g_newfd(rng, self, k);
                format!("at={at} peer={peer} klen={klen}")
            }
            "maccept" => {
                res = g_newfd(rng, self, k);
                String::new()
            }
            "getsockopt" => {
                let o = *rng.pick(&GET_OPTS);
                let (_, _, ty, _, _) = opt_info(o).unwrap();
                let sz = opt_size(ty) as usize;
                res = if rng.chance(1, 20) { rng.below(12) as i64 } else { sz as i64 };
                let slen = res;
                let word = |rng: &mut Rng| -> u32 {
                    match rng.below(6) {
                        0 => 0,
                        1 => 1,
                        2 => u32::MAX,
                        3 => 1 << 31,
                        _ => rng.below(300) as u32,
                    }
                };
                let mut b = word(rng).to_ne_bytes().to_vec();
                if sz == 8 {
                    b.extend_from_slice(&word(rng).to_ne_bytes());
                }
                if fb { format!("opt={o} ov={} slen={slen}", hexs(&b)) } else { format!("opt={o} ov={}", hexs(&b)) }
            }
            "setsockopt" => {
                let o = *rng.pick(&SET_OPTS);
                let val = if o == "linger" && rng.chance(1, 3) { "none".to_string() } else { g_u32(rng).to_string() };
                format!("opt={o} val={val}")
            }
            "shutdown" => format!("how={}", rng.below(3)),
            "waitid" => {
                let on = match rng.below(3) {
                    0 => "all".to_string(),
                    1 => format!("pid:{}", g_u32(rng)),
                    _ => format!("pgid:{}", g_u32(rng)),
                };
                let wopt = if rng.chance(1, 3) { "none".to_string() } else { rng.pick(&wait_table()).0.to_string() };
                let i = |rng: &mut Rng| -> i32 {
                    match rng.below(5) {
                        0 => 0,
                        1 => -1,
                        2 => i32::MAX,
                        3 => i32::MIN,
                        _ => rng.below(70000) as i32,
                    }
                };
                let st = if rng.chance(2, 3) { rng.range(0, 130) as i32 } else { i(rng) };
                format!("on={on} wopt={wopt} si={}:{}:{}:{}:{st}", *rng.pick(&[libc::SIGCHLD, 0, 64, 1000]), rng.range(0, 8), i(rng), g_u32(rng))
            }
            "sigrecv" => {
                res = 128;
                format!("sfd={} ssi={}:{}:{}", rng.range(1000, 5000), *rng.pick(&[1u32, 2, 15, 17, 0, 64, 100, u32::MAX]), g_u32(rng), g_u32(rng))
            }
            "todirect" => {
                res = 1;
                format!("idx={}", g_newfd(rng, self, "d"))
            }
            "tofd" => {
                res = g_fd(rng, self);
                String::new()
            }
            "pipe" => {
                let ck = *rng.pick(&["none", "f", "d"]);
                // pipe2(2) of the fallback returns regular descriptors
                let kind = if ck == "d" && !fb { "d" } else { "f" };
                let a = g_newfd(rng, self, kind);
                let mut b2 = g_newfd(rng, self, kind);
                while b2 == a {
                    b2 = g_newfd(rng, self, kind);
                }
                format!("ck={ck} pfl={} ord={} pfds={a},{b2}", if rng.chance(1, 2) { "none".to_string() } else { libc::O_DIRECT.to_string() }, rng.below(2))
            }
            _ => format!("addr={} len={} adv={}", g_u64(rng), g_u32(rng), rng.pick(&madvise_table()).0),
        };
        let mut tail = String::new();
        if fb {
            res = match op {
                "pipe" => -22,
                "sockname" => -95,
                _ => *rng.pick(&[-95i64, -38]),
            };
            // the system call succeeds, or fails with an errno of its own (the
            // special ones included: they are not special a second time)
            let sys = if rng.chance(3, 4) { 0 } else { -*rng.pick(&[9i64, 14, 22, 24, 38, 88, 92, 95, 107]) };
            tail = format!(" sys={sys}");
        } else if err {
            res = pick_err(rng, op);
        } else if rng.chance(1, 40) && matches!(op, "fsync" | "mkdir" | "bind" | "listen" | "shutdown" | "statx" | "waitid" | "todirect" | "sigrecv" | "pipe" | "madvise") {
            // a result the kernel does not produce for this call (debug assertions)
            res = rng.range(1, 3) as i64;
        }
        format!("encode {op} k={k}{}{body} res={res} late={late}{tail}", if body.is_empty() { "" } else { " " })
    }

    fn gen_malformed(&mut self, rng: &mut Rng) -> String {
        match rng.below(12) {
            8 => "encode sockname k=f which=local at=v4 peer=v4:7f000001:80 klen=16 res=-95 late=0".into(),
            9 => "encode setsockopt k=f opt=nodelay val=1 res=-1 late=0 sys=0".into(),
            10 => "encode getsockopt k=d opt=type ov=01000000 res=-38 late=0 sys=0".into(),
            11 => "encode pipe k=f ck=d pfl=none pfds=5,6 res=-22 late=0 sys=0".into(),
            0 => "encode frobnicate k=f res=0 late=0".into(),
            1 => "encode read k=f cap=10 len=20 off=none res=0 late=0".into(),
            2 => "encode read k=x cap=10 len=2 off=none res=0 late=0".into(),
            3 => "encode write k=f len=5 off=none res=0".into(),
            4 => "encode tofd k=f res=700 late=0".into(),
            5 => "encode recv k=d cap=8 len=0 rfl=4 res=0 late=0".into(),
            6 => "encode close k=f cfd=3 res=0 late=0".into(),
            _ => format!("encode listen k=f backlog={} res=0 late=0", 1u64 << 33),
        }
    }
}

impl Case for EncCase {
    fn next_op(&mut self, rng: &mut Rng) -> Option<String> {
        if self.left == 0 || !self.ok {
            return None;
        }
        self.left -= 1;
        if rng.chance(1, 250) {
            let scn = *rng.pick(&["file", "file", "fs", "fs", "abstract", "splice"]);
            return Some(format!("encode rk {scn} k={} seed={}", if rng.chance(1, 2) { "f" } else { "d" }, rng.below(1 << 32)));
        }
        Some(if rng.chance(1, 30) { self.gen_malformed(rng) } else { self.gen_op(rng) })
    }

    fn exec(&mut self, op: &str) -> Vec<String> {
        let t: Vec<&str> = op.split(' ').collect();
        if t.len() < 2 || t[0] != "encode" {
            return vec!["bad-op".into()];
        }
        if t[1] == "rk" {
            if !self.ok {
                return vec!["bad-op".into()];
            }
            return self.rk(&t[2..]);
        }
        self.run(t[1], &t[2..])
    }

    fn drain_oracle(&mut self) -> Vec<(String, String, String)> {
        std::mem::take(&mut *self.fails.borrow_mut())
    }

    fn finish(&mut self) -> CaseReport {
        if self.ok {
            self.settle();
            if let Some(d) = self.direct.take() {
                unsafe { drop(Box::from_raw(std::ptr::from_ref(d).cast_mut())) };
            }
            if let Some(f) = self.file.take() {
                unsafe { drop(Box::from_raw(std::ptr::from_ref(f).cast_mut())) };
            }
            self.settle();
            drop(self.pool.take());
            drop(self.other.take());
            unsafe { libc::close(self.tfd) };
            drop(self.ring.take());
            drop(self.sq.take());
            simk::drain_events();
            util::drain_wakes();
            track::drain_frees();
            simk::reset();
            track::release_quarantine();
        }
        let mut features = std::mem::take(&mut self.feats);
        features.sort();
        features.dedup();
        CaseReport { oracle: std::mem::take(&mut *self.fails.borrow_mut()), features, nontrivial: self.ok }
    }
}

impl Comp for EncodeComp {
    fn name(&self) -> &'static str {
        "encode"
    }
    fn rule(&self) -> String {
        "each case = a ring with a regular descriptor (number 600..999), a direct descriptor (index 0..2^31-2, obtained through to_direct_descriptor) and a splice target, then 8 op lines drawn uniformly from 44 operations (read/readp/mread/readv/write/writev/splice/close/dropfd/open/mkdir/rename/unlink/fsync/statx/fadvise/fallocate/ftruncate/socket/bind/listen/connect/sockname/recv/recvp/mrecv/recvv/recvfrom/recvfromv/send/sendto/sendmsg/accept/maccept/getsockopt/setsockopt/shutdown/waitid/sigrecv/todirect/tofd/pipe/madvise/pollable): regular x direct descriptor, offsets none/0/small/>2^32/2^64-2/2^64-1/random, lengths 0/1/64/random, every non-empty subset of each BitOr flag type, every public constant of the single-valued flag types, 1..8 vectored buffers with random capacity/initial length, all five address types (IPv4, IPv6, either-family, Unix path/abstract/unnamed, none), 19 socket options, results = success with data or an errno (1 in 7) or a value the call never returns (1 in 40); for the four operations with a synchronous fallback (sockname, pipe: 1 line in 3; getsockopt, setsockopt: 1 in 2) the line completes with the error that triggers it (EOPNOTSUPP / ENOSYS|EOPNOTSUPP / EINVAL), on regular and direct descriptors alike, and scripts the trapped system call (success with the same out-parameters as a completion, 1 in 4 an errno of its own); late=1 (1 in 10) calls every builder method again after the first poll and forces a re-issue with EINTR, late=2 (1 in 10) calls them between the processing of the completion and the poll that reads it; plus a malformed stream (1 in 30) and real-kernel differential lines (1 in 250: the same seeded fixture through a10 on a real ring and through libc); every well-formed case is non-trivial; distinct = distinct op scripts".into()
    }
    fn gen_header(&mut self, rng: &mut Rng, id: u64, _tier: &str) -> String {
        let rfd = rng.range(600, 999);
        let mut tfd = rng.range(600, 999);
        while tfd == rfd {
            tfd = rng.range(600, 999);
        }
        let dfd = match rng.below(5) {
            0 => 0,
            1 => 2147483646,
            2 => rng.below(64),
            _ => rng.below(1 << 20),
        };
        format!("encode begin {id} rfd={rfd} dfd={dfd} tfd={tfd}")
    }
    fn begin(&mut self, header: &str) -> Box<dyn Case> {
        let mut c = EncCase::new(header);
        c.left = 8;
        Box::new(c)
    }
}

// ---------------------------------------------------------------------------
// Real-kernel differential runs (corroboration of the ABI table): the same
// fixture goes through a10 on a real ring and through libc; results, errno,
// file contents and metadata must match. The simulated kernel is switched off
// for the duration of the op.

fn block_on<F: Future>(ring: &mut Ring, f: F) -> Option<F::Output> {
    let mut f = std::pin::pin!(f);
    let w = util::waker(9);
    let mut cx = Context::from_waker(&w);
    for _ in 0..2000 {
        if let Poll::Ready(v) = f.as_mut().poll(&mut cx) {
            return Some(v);
        }
        let _ = ring.poll(Some(Duration::from_millis(50)));
    }
    None
}

fn errno() -> i32 {
    std::io::Error::last_os_error().raw_os_error().unwrap_or(0)
}

fn res_of<T: std::fmt::Debug>(r: &std::io::Result<T>) -> String {
    match r {
        Ok(v) => format!("ok:{v:?}"),
        Err(e) => format!("err:{}", e.raw_os_error().map_or("kind".to_string(), |n| n.to_string())),
    }
}

fn libc_res(r: isize) -> String {
    if r < 0 { format!("err:{}", errno()) } else { format!("ok:{r}") }
}

struct RkDir(PathBuf);
impl RkDir {
    fn new(tag: &str) -> RkDir {
        let p = std::env::temp_dir().join(format!("a10h-rk-{}-{tag}-{}", std::process::id(), util::WAKE_SEQ.fetch_add(1, std::sync::atomic::Ordering::SeqCst)));
        let _ = std::fs::remove_dir_all(&p);
        std::fs::create_dir_all(&p).unwrap();
        RkDir(p)
    }
}
impl Drop for RkDir {
    fn drop(&mut self) {
        let _ = std::fs::remove_dir_all(&self.0);
    }
}

fn cpath(p: &std::path::Path) -> std::ffi::CString {
    std::ffi::CString::new(p.as_os_str().as_bytes()).unwrap()
}

/// Listing of a directory: name, type+permission bits, size.
fn listing(p: &std::path::Path) -> Vec<String> {
    use std::os::unix::fs::MetadataExt;
    let mut v: Vec<String> = std::fs::read_dir(p)
        .map(|it| {
            it.filter_map(|e| e.ok())
                .map(|e| {
                    let m = e.metadata().ok();
                    format!("{}:{:o}:{}", e.file_name().to_string_lossy(), m.as_ref().map_or(0, |m| m.mode()), m.as_ref().map_or(0, |m| if m.is_dir() { 0 } else { m.size() }))
                })
                .collect()
        })
        .unwrap_or_default();
    v.sort();
    v
}

impl EncCase {
    fn rk(&mut self, toks: &[&str]) -> Vec<String> {
        let kv = Kv::new(toks);
        let (Some(scn), Some(k), Some(seed)) = (toks.first().copied(), kv.get("k"), kv.u64("seed")) else { return vec!["bad-op".into()] };
        if !matches!(scn, "file" | "fs" | "abstract" | "splice") || !matches!(k, "f" | "d") || toks.len() != 3 {
            return vec!["bad-op".into()];
        }
        simk::deactivate();
        let r = util::catch(|| self.rk_run(scn, k == "d", seed));
        simk::activate(simk::SetupCfg::default());
        if let Err(m) = r {
            self.fail(&format!("C13/real-kernel/{scn}/panic"), format!("real-kernel scenario {scn} seed={seed} panicked: {m}"));
        }
        self.feats.push(format!("real-kernel:{scn}"));
        vec!["rk done".into()]
    }

    #[allow(clippy::too_many_lines)]
    fn rk_run(&self, scn: &str, direct: bool, seed: u64) {
        let mut rng = Rng::new(seed);
        let Ok(mut ring) = Ring::config().with_submission_queue_size(16).with_direct_descriptors(16).build() else {
            // no io_uring here: nothing to corroborate
            return;
        };
        let sq = ring.sq();
        let kind = if direct { a10::fd::Kind::Direct } else { a10::fd::Kind::File };
        let ks = if direct { "d" } else { "f" };
        let mut diffs: Vec<(String, String)> = Vec::new();
        match scn {
            "file" => {
                let dir = RkDir::new("file");
                let (pa, pb) = (dir.0.join("a10"), dir.0.join("libc"));
                let oo = a10::fs::OpenOptions::new().write().create().truncate().kind(kind);
                let Some(Ok(fa)) = block_on(&mut ring, oo.open(sq.clone(), pa.clone())) else {
                    diffs.push(("open".into(), "a10 could not open the fixture file".into()));
                    self.rk_report(scn, ks, seed, diffs);
                    return;
                };
                let fb = unsafe { libc::open(cpath(&pb).as_ptr(), libc::O_RDWR | libc::O_CREAT | libc::O_TRUNC | libc::O_CLOEXEC, 0o666) };
                assert!(fb >= 0);
                let mut touched: Vec<u64> = vec![0];
                for step in 0..8 {
                    let off: Option<u64> = match rng.below(4) {
                        0 => None,
                        1 => Some(rng.below(8192)),
                        2 => Some((1u64 << 32) + rng.below(4096)),
                        _ => Some(rng.below(256)),
                    };
                    let len = *rng.pick(&[0usize, 1, 7, 64, 300, 4096]);
                    let what = rng.below(7);
                    let (ra, rb): (String, String) = match what {
                        0 | 1 => {
                            let data: Vec<u8> = (0..len).map(|i| (i as u64 * 31 + seed + step) as u8).collect();
                            let w = fa.write(data.clone());
                            let r = block_on(&mut ring, async { match off { Some(o) => w.at(o).await, None => w.await } });
                            let lr = match off {
                                Some(o) => unsafe { libc::pwrite(fb, data.as_ptr().cast(), len, o as i64) },
                                None => unsafe { libc::write(fb, data.as_ptr().cast(), len) },
                            };
                            touched.push(off.unwrap_or(0));
                            (r.map_or("timeout".into(), |r| res_of(&r)), libc_res(lr))
                        }
                        2 | 3 => {
                            let rd = fa.read(Vec::with_capacity(len));
                            let r = block_on(&mut ring, async { match off { Some(o) => rd.from(o).await, None => rd.await } });
                            let mut buf = vec![0u8; len];
                            let lr = match off {
                                Some(o) => unsafe { libc::pread(fb, buf.as_mut_ptr().cast(), len, o as i64) },
                                None => unsafe { libc::read(fb, buf.as_mut_ptr().cast(), len) },
                            };
                            buf.truncate(lr.max(0) as usize);
                            (r.map_or("timeout".into(), |r| match r { Ok(v) => format!("ok:{}:{}", v.len(), hex(&v[..v.len().min(16)])), Err(e) => res_of::<()>(&Err(e)) }), if lr < 0 { libc_res(lr) } else { format!("ok:{}:{}", lr, hex(&buf[..buf.len().min(16)])) })
                        }
                        4 => {
                            let l = off.unwrap_or(1000);
                            let r = block_on(&mut ring, fa.truncate(l));
                            let lr = unsafe { libc::ftruncate(fb, l as i64) };
                            (r.map_or("timeout".into(), |r| res_of(&r.map(|()| 0))), libc_res(lr as isize))
                        }
                        5 => {
                            let (o, l) = (off.unwrap_or(0), len as u32 + 1);
                            let keep = rng.chance(1, 2);
                            let a = fa.allocate(o, l);
                            let r = block_on(&mut ring, async { if keep { a.mode(a10::fs::AllocateMode::KEEP_SIZE).await } else { a.await } });
                            let lr = unsafe { libc::fallocate(fb, if keep { libc::FALLOC_FL_KEEP_SIZE } else { 0 }, o as i64, i64::from(l)) };
                            (r.map_or("timeout".into(), |r| res_of(&r.map(|()| 0))), libc_res(lr as isize))
                        }
                        _ => {
                            let r = block_on(&mut ring, fa.metadata());
                            let mut st: libc::stat = unsafe { std::mem::zeroed() };
                            let lr = unsafe { libc::fstat(fb, &raw mut st) };
                            let a = r.map_or("timeout".into(), |r| match r {
                                Ok(m) => format!("ok:{}:{}:{}:{}", m.len(), m.is_file(), m.permissions().owner_can_write(), time_ns(m.modified())),
                                Err(e) => res_of::<()>(&Err(e)),
                            });
                            let b = if lr < 0 { libc_res(-1) } else { format!("ok:{}:{}:{}:{}", st.st_size, st.st_mode & libc::S_IFMT == libc::S_IFREG, st.st_mode & 0o200 != 0, i128::from(st.st_mtime) * 1_000_000_000 + i128::from(st.st_mtime_nsec)) };
                            // the two files were modified at different instants: compare all but the time
                            let strip = |s: &str| if s.starts_with("ok") { s.rsplitn(2, ':').nth(1).unwrap_or(s).to_string() } else { s.to_string() };
                            (strip(&a), strip(&b))
                        }
                    };
                    if what == 6 && direct && ra.starts_with("err") && rb.starts_with("ok") {
                        diffs.push(("statx/direct-descriptor-rejected".into(), format!("fstat(2) succeeds, a10 metadata() on the direct descriptor fails with {ra}")));
                    } else if ra != rb {
                        diffs.push((format!("step{step}/{}", ["write", "write", "read", "read", "truncate", "allocate", "metadata"][what as usize]), format!("a10 {ra} vs libc {rb} (offset {off:?}, length {len})")));
                    }
                }
                let _ = block_on(&mut ring, fa.sync_all());
                // contents around every touched offset, and the sizes
                use std::os::unix::fs::FileExt;
                let (ga, gb) = (std::fs::File::open(&pa).unwrap(), std::fs::File::open(&pb).unwrap());
                let (sa, sb) = (ga.metadata().unwrap().len(), gb.metadata().unwrap().len());
                if sa != sb {
                    diffs.push(("size".into(), format!("file size {sa} through a10, {sb} through libc")));
                }
                for o in touched {
                    let (mut ba, mut bb) = (vec![0u8; 8192], vec![0u8; 8192]);
                    let na = ga.read_at(&mut ba, o).unwrap_or(0);
                    let nb = gb.read_at(&mut bb, o).unwrap_or(0);
                    if na != nb || ba[..na] != bb[..nb] {
                        diffs.push(("contents".into(), format!("file contents differ at offset {o}")));
                        break;
                    }
                }
                unsafe { libc::close(fb) };
                let _ = block_on(&mut ring, fa.close());
            }
            "fs" => {
                let dir = RkDir::new("fs");
                let (da, db) = (dir.0.join("a"), dir.0.join("b"));
                std::fs::create_dir_all(&da).unwrap();
                std::fs::create_dir_all(&db).unwrap();
                let names = ["x", "y", "z", "sub"];
                for step in 0..8 {
                    let n1 = *rng.pick(&names);
                    let n2 = *rng.pick(&names);
                    let what = rng.below(5);
                    let (ra, rb): (String, String) = match what {
                        0 => {
                            let r = block_on(&mut ring, a10::fs::create_dir(sq.clone(), da.join(n1)));
                            let lr = unsafe { libc::mkdir(cpath(&db.join(n1)).as_ptr(), 0o777) };
                            (r.map_or("timeout".into(), |r| res_of(&r.map(|()| 0))), libc_res(lr as isize))
                        }
                        1 => {
                            let r = block_on(&mut ring, a10::fs::rename(sq.clone(), da.join(n1), da.join(n2)));
                            let lr = unsafe { libc::rename(cpath(&db.join(n1)).as_ptr(), cpath(&db.join(n2)).as_ptr()) };
                            (r.map_or("timeout".into(), |r| res_of(&r.map(|()| 0))), libc_res(lr as isize))
                        }
                        2 => {
                            let isdir = rng.chance(1, 2);
                            let r = block_on(&mut ring, if isdir { a10::fs::remove_dir(sq.clone(), da.join(n1)) } else { a10::fs::remove_file(sq.clone(), da.join(n1)) });
                            let lr = unsafe { libc::unlinkat(libc::AT_FDCWD, cpath(&db.join(n1)).as_ptr(), if isdir { libc::AT_REMOVEDIR } else { 0 }) };
                            (r.map_or("timeout".into(), |r| res_of(&r.map(|()| 0))), libc_res(lr as isize))
                        }
                        _ => {
                            // open with a random flag combination and mode, write a few bytes
                            let mut o = a10::fs::OpenOptions::new().kind(kind);
                            let mut fl = libc::O_RDONLY;
                            if rng.chance(2, 3) {
                                o = o.write();
                                fl = libc::O_RDWR;
                            }
                            if rng.chance(1, 4) {
                                o = o.write_only();
                                fl = libc::O_WRONLY;
                            }
                            for (c, f) in [(0, libc::O_APPEND), (1, libc::O_TRUNC), (2, libc::O_CREAT), (3, libc::O_CREAT | libc::O_EXCL)] {
                                if rng.chance(1, 3) {
                                    o = match c {
                                        0 => o.append(),
                                        1 => o.truncate(),
                                        2 => o.create(),
                                        _ => o.create_new(),
                                    };
                                    fl |= f;
                                }
                            }
                            let mode = *rng.pick(&[0o600u32, 0o644, 0o400, 0o777]);
                            o = o.mode(mode);
                            let r = block_on(&mut ring, o.open(sq.clone(), da.join(n1)));
                            let lfd = unsafe { libc::open(cpath(&db.join(n1)).as_ptr(), fl | libc::O_CLOEXEC, mode) };
                            let data = b"hello, a10".to_vec();
                            let ra = match r {
                                Some(Ok(f)) => {
                                    let w = block_on(&mut ring, f.write(data.clone()));
                                    let _ = block_on(&mut ring, f.close());
                                    format!("ok:{}", w.map_or("timeout".into(), |w| res_of(&w)))
                                }
                                Some(Err(e)) => res_of::<()>(&Err(e)),
                                None => "timeout".into(),
                            };
                            let rb = if lfd < 0 {
                                libc_res(-1)
                            } else {
                                let w = unsafe { libc::write(lfd, data.as_ptr().cast(), data.len()) };
                                let s = format!("ok:{}", libc_res(w));
                                unsafe { libc::close(lfd) };
                                s
                            };
                            (ra, rb)
                        }
                    };
                    if ra != rb {
                        diffs.push((format!("step{step}/{}", ["mkdir", "rename", "unlink", "open", "open"][what as usize]), format!("a10 {ra} vs libc {rb} ({n1}, {n2})")));
                    }
                }
                let (la, lb) = (listing(&da), listing(&db));
                if la != lb {
                    diffs.push(("listing".into(), format!("directory after the run: a10 {la:?} vs libc {lb:?}")));
                }
            }
            "abstract" => {
                // a10 binds + listens on an abstract name; a libc client connects to the
                // same name with the canonical length offsetof(sun_path) + 1 + |name|.
                let n = rng.range(1, 20) as usize;
                let name: Vec<u8> = (0..n).map(|_| rng.range(1, 255) as u8).collect();
                let mut full = format!("a10h-{}-{seed}-", std::process::id()).into_bytes();
                full.extend_from_slice(&name);
                let addr = UnixAddr::from_abstract_name(&full).unwrap();
                let s = block_on(&mut ring, a10::net::socket(sq.clone(), a10::net::Domain::UNIX, a10::net::Type::STREAM, None).kind(kind));
                if let Some(Ok(s)) = s {
                    let b = block_on(&mut ring, s.bind(addr));
                    let l = block_on(&mut ring, s.listen(4));
                    let c = unsafe { libc::socket(libc::AF_UNIX, libc::SOCK_STREAM | libc::SOCK_CLOEXEC, 0) };
                    let mut sa: libc::sockaddr_un = unsafe { std::mem::zeroed() };
                    sa.sun_family = libc::AF_UNIX as u16;
                    for (i, b) in full.iter().enumerate() {
                        sa.sun_path[1 + i] = *b as libc::c_char;
                    }
                    let r = unsafe { libc::connect(c, (&raw const sa).cast(), (2 + 1 + full.len()) as u32) };
                    let e = errno();
                    unsafe { libc::close(c) };
                    if !(matches!(b, Some(Ok(()))) && matches!(l, Some(Ok(())))) {
                        diffs.push(("bind".into(), format!("a10 bind/listen on an abstract address failed: {b:?} {l:?}")));
                    } else if r != 0 {
                        diffs.push(("unix-address-length/abstract".into(), format!("a10 bound abstract name {} ({} bytes); connect(2) to that name with the canonical address length fails with errno {e}: the socket is bound to the NUL-padded 107-byte name", hexs(&full), full.len())));
                    }
                }
            }
            _ => {
                // splice_to: a pipe's read end (this descriptor) into a file
                let dir = RkDir::new("splice");
                let p = block_on(&mut ring, a10::pipe::pipe(sq.clone()).kind(kind));
                let out = unsafe { libc::open(cpath(&dir.0.join("out")).as_ptr(), libc::O_RDWR | libc::O_CREAT | libc::O_CLOEXEC, 0o600) };
                if let Some(Ok([rd, wr])) = p {
                    let data = b"spliced through a10".to_vec();
                    let w = block_on(&mut ring, wr.write(data.clone()));
                    let target = unsafe { BorrowedFd::borrow_raw(out) };
                    let r = block_on(&mut ring, rd.splice_to(target, data.len() as u32));
                    let mut buf = vec![0u8; 64];
                    let n = unsafe { libc::pread(out, buf.as_mut_ptr().cast(), 64, 0) };
                    buf.truncate(n.max(0) as usize);
                    let ok = matches!(w, Some(Ok(k)) if k == data.len()) && matches!(r, Some(Ok(k)) if k == data.len()) && buf == data;
                    if !ok {
                        diffs.push((if direct { "splice-to/direct-input-not-flagged".into() } else { "splice-to".into() }, format!("splice(2) moves the {} bytes into the file; a10 splice_to returned {} and the file holds {} bytes", data.len(), r.map_or("timeout".into(), |r| res_of(&r)), buf.len())));
                    }
                }
                unsafe { libc::close(out) };
            }
        }
        self.rk_report(scn, ks, seed, diffs);
    }

    fn rk_report(&self, scn: &str, ks: &str, seed: u64, diffs: Vec<(String, String)>) {
        for (what, detail) in diffs {
            let sig = if what.starts_with("unix-address-length") || what.starts_with("splice-to/direct") || what.starts_with("statx/direct") { format!("C13/encode/{what}") } else { format!("C13/real-kernel/{scn}/{}", what.split('/').next_back().unwrap_or("?")) };
            self.fail(&sig, format!("real kernel, scenario {scn} k={ks} seed={seed}: {detail}"));
        }
    }
}
