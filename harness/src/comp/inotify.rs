//! C17: filesystem-watch (inotify) event streams are decoded exactly.
//!
//! A real `a10::fs::notify::Watcher` (real inotify descriptor, real watch
//! descriptors on directories below `/tmp/a10v-inotify`) whose READs go
//! through the simulated kernel: every `read` op completes the in-flight READ
//! with the byte encoding of the scripted inotify records, `Events::poll_next`
//! is called one step at a time and every yielded `&Event` is printed through
//! the public API only (`Debug`, the bit getters, `file_path`, `path_for`).
//!
//! Ops (one per line):
//!   inotify begin <id>
//!   inotify watch <wd> <pathhex> <mk>    watch a directory (wd = expected descriptor)
//!   inotify replace <pathhex>            move the directory at that path aside and create a
//!                                        new one in its place (the old watch lives on; the
//!                                        next `watch` of the path gets a NEW descriptor)
//!   inotify events                       create the `Events` iterator
//!   inotify poll                         one `Events::poll_next`
//!   inotify read <rec>…|-                complete the READ with whole records
//!                                        rec = wd:mask:cookie:namehex:pad
//!   inotify readraw <hex>                complete the READ with arbitrary bytes
//!   inotify fail <errno>                 complete the READ with -errno
//!   inotify drop-events                  drop the iterator
//!   inotify check                        re-read every `&Event` still usable by safe code
//!
//! Oracle (independent of the Lean model): the events yielded are exactly the
//! scripted non-IGNORED non-OVERFLOW records in order (mask, cookie, name
//! without padding, path of the watched entry / name), watches are forgotten
//! on IN_IGNORED, every event lies inside the bytes of the last read, and
//! (lifetime clause) every `&Event` handed out is still allocated, not handed
//! back to the kernel and unchanged for as long as safe code may use it.

use std::collections::{HashMap, VecDeque};
use std::ffi::{CString, OsString};
use std::os::unix::ffi::{OsStrExt, OsStringExt};
use std::path::PathBuf;
use std::pin::Pin;
use std::task::{Context, Poll};
use std::time::Duration;

use a10::fs::notify::{Event, Events, Interest, Recursive, Watcher};

use crate::comp::{Case, CaseReport, Comp};
use crate::simk::{self, PostSpec, Target, OP_READ};
use crate::track;
use crate::util::{self, hex, Rng};

pub struct InotifyComp;

const BASE: &str = "/tmp/a10v-inotify";
const IN_IGNORED: u32 = 0x8000;
const IN_Q_OVERFLOW: u32 = 0x4000;
const IN_ISDIR: u32 = 0x4000_0000;
/// `BUF_SIZE` of src/inotify/mod.rs:32.
const BUF_SIZE: usize = 16 + 255 + 1;

fn hexs(b: &[u8]) -> String {
    if b.is_empty() { "-".into() } else { hex(b) }
}

fn unhex(s: &str) -> Option<Vec<u8>> {
    if s == "-" {
        return Some(Vec::new());
    }
    if s.len() % 2 != 0 || !s.bytes().all(|c| c.is_ascii_digit() || (b'a'..=b'f').contains(&c)) {
        return None;
    }
    (0..s.len() / 2)
        .map(|i| u8::from_str_radix(&s[2 * i..2 * i + 2], 16).ok())
        .collect()
}

/// One scripted inotify record.
#[derive(Clone, Debug)]
struct Rec {
    wd: i32,
    mask: u32,
    cookie: u32,
    name: Vec<u8>,
    pad: usize,
}

impl Rec {
    fn parse(s: &str) -> Option<Rec> {
        let p: Vec<&str> = s.split(':').collect();
        if p.len() != 5 {
            return None;
        }
        let wd: u32 = p[0].parse().ok()?;
        Some(Rec {
            wd: wd as i32,
            mask: p[1].parse().ok()?,
            cookie: p[2].parse().ok()?,
            name: unhex(p[3])?,
            pad: p[4].parse().ok()?,
        })
    }
    fn show(&self) -> String {
        format!("{}:{}:{}:{}:{}", self.wd as u32, self.mask, self.cookie, hexs(&self.name), self.pad)
    }
    /// `struct inotify_event { int wd; u32 mask; u32 cookie; u32 len; char name[]; }`
    fn encode(&self, out: &mut Vec<u8>) {
        out.extend_from_slice(&self.wd.to_le_bytes());
        out.extend_from_slice(&self.mask.to_le_bytes());
        out.extend_from_slice(&self.cookie.to_le_bytes());
        out.extend_from_slice(&((self.name.len() + self.pad) as u32).to_le_bytes());
        out.extend_from_slice(&self.name);
        out.extend(std::iter::repeat(0u8).take(self.pad));
    }
    fn size(&self) -> usize {
        16 + self.name.len() + self.pad
    }
    fn visible(&self) -> bool {
        self.mask & (IN_IGNORED | IN_Q_OVERFLOW) == 0
    }
    /// What the kernel can emit: the name is one path component (no NUL, no
    /// '/') and an empty name has no padding.
    fn well_formed(&self) -> bool {
        if self.name.is_empty() {
            self.pad == 0
        } else {
            !self.name.contains(&0) && !self.name.contains(&b'/')
        }
    }
}

/// An `&Event` handed out by `poll_next` that safe code may still use.
struct Kept {
    addr: usize,
    n: usize,
    snap: Vec<u8>,
    block: Option<u64>,
}

/// What the oracle expects the iterator to do next.
enum Expect {
    Rec(Rec),
    Eof,
    Err(i32),
}

struct InoCase {
    // ---- generator ----
    g: GenState,
    /// directories moved aside by `replace`, removed when the case ends
    aside: Vec<PathBuf>,
    // ---- executor ----
    ring: Option<a10::Ring>,
    rfd: i32,
    watcher: *mut Watcher,
    ifd: i32,
    events: Option<Pin<Box<Events<'static>>>>,
    kept: Vec<Kept>,
    /// Length of the last successful read (bytes the kernel wrote).
    last_read: usize,
    // ---- oracle ----
    otable: HashMap<i32, Vec<u8>>,
    expect: VecDeque<Expect>,
    oracle_off: bool,
    oracle: Vec<(String, String, String)>,
    // ---- report ----
    feats: Vec<String>,
    yielded: u32,
}

fn errname(e: &std::io::Error) -> String {
    util::io_err_name(e)
}

fn join_path(watched: &[u8], name: &[u8]) -> Vec<u8> {
    // The specification of the full path: the watched path, a separator
    // unless it already ends in one, the name; the watched path alone for
    // events on the watched entry itself.
    if name.is_empty() {
        return watched.to_vec();
    }
    let mut p = watched.to_vec();
    if p.last() != Some(&b'/') {
        p.push(b'/');
    }
    p.extend_from_slice(name);
    p
}

impl InoCase {
    fn new() -> InoCase {
        simk::activate(simk::SetupCfg::default());
        let ring = a10::Ring::config().with_submission_queue_size(8).build().expect("ring");
        let sq = ring.sq();
        let rfd = simk::with_sim(|s| *s.rings.keys().next_back().unwrap());
        // The inotify descriptor will be the lowest free descriptor.
        let probe = unsafe { libc::open(c"/dev/null".as_ptr(), libc::O_RDONLY | libc::O_CLOEXEC) };
        unsafe { libc::close(probe) };
        let watcher = Watcher::new(sq).expect("inotify_init1");
        let link = std::fs::read_link(format!("/proc/self/fd/{probe}")).ok();
        let ifd = match link {
            Some(l) if l.as_os_str().as_bytes().starts_with(b"anon_inode:inotify") => probe,
            _ => -1,
        };
        InoCase {
            g: GenState::default(),
            aside: Vec::new(),
            ring: Some(ring),
            rfd,
            watcher: Box::into_raw(Box::new(watcher)),
            ifd,
            events: None,
            kept: Vec::new(),
            last_read: 0,
            otable: HashMap::new(),
            expect: VecDeque::new(),
            oracle_off: false,
            oracle: Vec::new(),
            feats: Vec::new(),
            yielded: 0,
        }
    }

    fn fail(&mut self, sig: &str, what: String) {
        self.oracle.push(("C17".into(), format!("C17/{sig}"), what));
    }

    fn ring_poll(&mut self) {
        if let Some(r) = self.ring.as_mut() {
            let _ = r.poll(Some(Duration::ZERO));
        }
    }

    /// Sequence number of the READ the kernel holds, after letting it consume
    /// what a10 queued.
    fn inflight_read(&mut self) -> Option<u64> {
        self.ring_poll();
        simk::with_ring(self.rfd, |r, _| {
            r.inflight.iter().find(|i| i.sqe.opcode == OP_READ).map(|i| i.seq)
        })
    }

    /// Complete the in-flight READ. Returns the output line.
    fn complete(&mut self, res: i32, data: Option<Vec<u8>>) -> String {
        let _ = util::drain_wakes();
        let Some(seq) = self.inflight_read() else {
            return "no-read".into();
        };
        let cap = simk::with_ring(self.rfd, |r, ev| {
            let cap = r.inflight.iter().find(|i| i.seq == seq).map(|i| i.sqe.len).unwrap_or(0);
            // The kernel never returns more than the READ asked for.
            let res = if res > cap as i32 { cap as i32 } else { res };
            let mut spec = PostSpec::new(Target::Seq(seq), res, 0);
            spec.data = data.map(|mut d| {
                d.truncate(cap as usize);
                d
            });
            r.post(&spec, ev);
            cap
        });
        if cap as usize != BUF_SIZE {
            self.fail(
                "decode/buffer-not-reset",
                format!("the READ offers {cap} bytes instead of the whole {BUF_SIZE}-byte buffer"),
            );
        }
        self.ring_poll();
        let wakes = util::drain_wakes().len();
        format!("completed cap={cap} wake={wakes}")
    }

    /// Finish a READ left behind by a dropped iterator (the kernel answers the
    /// cancellation), so at most one READ is ever in flight.
    fn flush_orphan(&mut self) {
        if self.events.is_some() {
            return;
        }
        if let Some(seq) = self.inflight_read() {
            simk::with_ring(self.rfd, |r, ev| {
                r.post(&PostSpec::new(Target::Seq(seq), -libc::ECANCELED, 0), ev);
            });
            self.ring_poll();
        }
        let _ = util::drain_wakes();
    }

    fn op_watch(&mut self, wd: i32, path: Vec<u8>, mk: bool) -> Vec<String> {
        if !path.starts_with(BASE.as_bytes()) || path.contains(&0) || path.windows(2).any(|w| w == b"..") {
            return vec!["bad-op".into()];
        }
        let pb = PathBuf::from(OsString::from_vec(path.clone()));
        if mk {
            let _ = std::fs::create_dir_all(&pb);
        }
        let res = if let Some(ev) = self.events.as_mut() {
            // `Events::watch_directory` needs `&mut Events` only.
            let ev: &mut Events<'static> = unsafe { Pin::get_unchecked_mut(ev.as_mut()) };
            ev.watch_directory(pb, Interest::ALL, Recursive::No)
        } else {
            // Needs `&mut Watcher`: the borrow that every `&'w Event` depends on ends.
            self.kept.clear();
            let w: &mut Watcher = unsafe { &mut *self.watcher };
            w.watch_directory(pb, Interest::ALL, Recursive::No)
        };
        match res {
            Ok(()) => {
                // Which descriptor did the kernel hand out? Adding the same
                // path again (IN_MASK_ADD) returns it.
                let c = CString::new(path.clone()).unwrap();
                let real = unsafe {
                    libc::inotify_add_watch(
                        self.ifd,
                        c.as_ptr(),
                        libc::IN_ALL_EVENTS | libc::IN_MASK_ADD | libc::IN_ONLYDIR | libc::IN_DONT_FOLLOW | libc::IN_EXCL_UNLINK,
                    )
                };
                if real != wd {
                    return vec![format!("wd-mismatch real={real}")];
                }
                self.otable.insert(wd, path);
                vec!["ok".into()]
            }
            Err(e) => vec![format!("err {}", errname(&e))],
        }
    }

    /// The directory at `path` is replaced (an atomic-save style rename): the old
    /// inode, and the watch on it, live on under another name; a10's table still
    /// maps the old descriptor to `path`.
    fn op_replace(&mut self, path: Vec<u8>) -> Vec<String> {
        if !path.starts_with(BASE.as_bytes()) || path.contains(&0) || path.windows(2).any(|w| w == b"..") || path.last() == Some(&b'/') {
            return vec!["bad-op".into()];
        }
        static N: std::sync::atomic::AtomicU32 = std::sync::atomic::AtomicU32::new(0);
        let pb = PathBuf::from(OsString::from_vec(path.clone()));
        let mut aside = path.clone();
        aside.extend_from_slice(format!(".old{}-{}", std::process::id(), N.fetch_add(1, std::sync::atomic::Ordering::Relaxed)).as_bytes());
        let aside = PathBuf::from(OsString::from_vec(aside));
        let _ = std::fs::create_dir_all(&pb);
        if std::fs::rename(&pb, &aside).is_err() {
            return vec!["err ENOENT".into()];
        }
        self.aside.push(aside);
        match std::fs::create_dir(&pb) {
            Ok(()) => vec!["ok".into()],
            Err(_) => vec!["err".into()],
        }
    }

    fn op_events(&mut self) -> Vec<String> {
        if self.events.is_some() {
            return vec!["bad-state".into()];
        }
        self.flush_orphan();
        self.kept.clear();
        self.expect.clear();
        // `oracle_off` is sticky: after a malformed stream the oracle no longer
        // knows which watches the iterator forgot.
        let w: &'static mut Watcher = unsafe { &mut *self.watcher };
        self.events = Some(Box::pin(w.events()));
        vec!["ok".into()]
    }

    #[allow(deprecated)]
    fn op_poll(&mut self) -> Vec<String> {
        let Some(ev) = self.events.as_mut() else {
            return vec!["bad-state".into()];
        };
        let waker = util::waker(1);
        let mut cx = Context::from_waker(&waker);
        let r = util::catch(|| ev.as_mut().poll_next(&mut cx));
        match r {
            Err(msg) => {
                let kind = if msg.contains("*processed + size_of") {
                    "assert-header".to_string()
                } else if msg.contains("buf.len() >= *processed") {
                    "assert-record".to_string()
                } else {
                    format!("other:{}", msg.replace(' ', "_"))
                };
                if !self.oracle_off {
                    self.fail("decode/panic", format!("poll_next panicked on a well-formed stream: {msg}"));
                }
                vec![format!("panic {kind}")]
            }
            Ok(Poll::Pending) => {
                self.oracle_settle("pending");
                vec!["pending".into()]
            }
            Ok(Poll::Ready(None)) => {
                self.oracle_end(None);
                vec!["none".into()]
            }
            Ok(Poll::Ready(Some(Err(e)))) => {
                let n = errname(&e);
                self.oracle_end(Some(e.raw_os_error().unwrap_or(-1)));
                vec![format!("err {n}")]
            }
            Ok(Poll::Ready(Some(Ok(event)))) => {
                let event: &Event = event;
                self.yielded += 1;
                let addr = event as *const Event as *const u8 as usize;
                let name = event.file_path().as_os_str().as_bytes().to_vec();
                let dbg = format!("{event:?}");
                let field = |k: &str| -> String {
                    dbg.find(k)
                        .map(|i| dbg[i + k.len()..].chars().take_while(|c| *c == '-' || c.is_ascii_digit()).collect())
                        .unwrap_or_else(|| "?".into())
                };
                let (wd, mask, cookie) = (field("wd: "), field("mask: "), field("cookie: "));
                let bits = [
                    event.is_dir(),
                    event.accessed(),
                    event.modified(),
                    event.metadata_changed(),
                    event.closed_write(),
                    event.closed_no_write(),
                    event.closed(),
                    event.opened(),
                    event.deleted(),
                    event.moved(),
                    event.unmounted(),
                    event.file_moved_from(),
                    event.file_moved_into(),
                    event.file_moved(),
                    event.file_created(),
                    event.file_deleted(),
                ];
                // Oracle: the getters agree with the mask (inotify(7) bit values).
                const BITS: [(u32, &str); 16] = [
                    (0x4000_0000, "is_dir"), (0x1, "accessed"), (0x2, "modified"), (0x4, "metadata_changed"),
                    (0x8, "closed_write"), (0x10, "closed_no_write"), (0x18, "closed"), (0x20, "opened"),
                    (0x400, "deleted"), (0x800, "moved"), (0x2000, "unmounted"), (0x40, "file_moved_from"),
                    (0x80, "file_moved_into"), (0xc0, "file_moved"), (0x100, "file_created"), (0x200, "file_deleted"),
                ];
                if let Ok(m) = mask.parse::<u32>() {
                    for (i, (bit, name)) in BITS.iter().enumerate() {
                        if bits[i] != (m & bit != 0) {
                            self.fail("decode/flags", format!("Event::{name}() = {} for mask {m:#x}", bits[i]));
                        }
                    }
                }
                let bits: String = bits.iter().map(|b| if *b { '1' } else { '0' }).collect();
                let evs = self.events.as_ref().unwrap();
                let path = evs.path_for(event).as_os_str().as_bytes().to_vec();
                let n = 16 + name.len();
                let block = track::block_of(addr);
                let off = block.map(|b| (addr - b.base).to_string()).unwrap_or_else(|| "?".into());
                let snap = unsafe { std::slice::from_raw_parts(addr as *const u8, n) }.to_vec();
                // Oracle: bounds.
                if let Some(b) = block {
                    if addr - b.base + n > self.last_read {
                        self.fail(
                            "decode/out-of-bounds",
                            format!("event at offset {} with {} name bytes extends past the {} bytes the kernel wrote", addr - b.base, name.len(), self.last_read),
                        );
                    }
                }
                self.kept.push(Kept { addr, n, snap, block: block.map(|b| b.id) });
                self.oracle_event(&wd, &mask, &cookie, &name, &path);
                vec![format!(
                    "event off={off} wd={wd} mask={mask} cookie={cookie} name={} path={} bits={bits}",
                    hexs(&name),
                    hexs(&path)
                )]
            }
        }
    }

    /// The iterator yielded an event: it must be the next visible scripted record.
    fn oracle_event(&mut self, wd: &str, mask: &str, cookie: &str, name: &[u8], path: &[u8]) {
        if self.oracle_off {
            return;
        }
        loop {
            match self.expect.pop_front() {
                Some(Expect::Rec(r)) if !r.visible() => {
                    if r.mask & IN_IGNORED != 0 {
                        self.otable.remove(&r.wd);
                    }
                }
                Some(Expect::Rec(r)) => {
                    let want_path = match self.otable.get(&r.wd) {
                        Some(w) => join_path(w, &r.name),
                        None => r.name.clone(),
                    };
                    let got = format!("wd={wd} mask={mask} cookie={cookie} name={}", hexs(name));
                    let want = format!("wd={} mask={} cookie={} name={}", r.wd, r.mask, r.cookie, hexs(&r.name));
                    if got != want {
                        self.fail("decode/event-mismatch", format!("yielded {got}, scripted record is {want}"));
                        self.oracle_off = true;
                    } else if path != want_path.as_slice() {
                        self.fail(
                            "decode/path",
                            format!("path_for gave {} for {want}, expected {}", hexs(path), hexs(&want_path)),
                        );
                    }
                    return;
                }
                Some(Expect::Eof) | Some(Expect::Err(_)) | None => {
                    self.fail("decode/unexpected-event", format!("yielded wd={wd} mask={mask} name={} that no scripted record accounts for", hexs(name)));
                    self.oracle_off = true;
                    return;
                }
            }
        }
    }

    /// The iterator returned `Pending`: every scripted record must have been consumed.
    fn oracle_settle(&mut self, how: &str) {
        if self.oracle_off {
            return;
        }
        while let Some(e) = self.expect.pop_front() {
            match e {
                Expect::Rec(r) if !r.visible() => {
                    if r.mask & IN_IGNORED != 0 {
                        self.otable.remove(&r.wd);
                    }
                }
                Expect::Rec(r) => {
                    self.fail("decode/event-lost", format!("iterator returned {how} although record {} was not yielded", r.show()));
                    self.oracle_off = true;
                    return;
                }
                Expect::Eof => {
                    self.fail("decode/end", format!("iterator returned {how} after an empty read"));
                    self.oracle_off = true;
                    return;
                }
                Expect::Err(e) => {
                    if e != libc::EINTR && e != libc::ECANCELED {
                        self.fail("decode/end", format!("iterator returned {how} after read error {e}"));
                        self.oracle_off = true;
                        return;
                    }
                }
            }
        }
    }

    /// The iterator returned `None` / an error.
    fn oracle_end(&mut self, err: Option<i32>) {
        if self.oracle_off {
            return;
        }
        // Skippable records first.
        loop {
            match self.expect.front() {
                Some(Expect::Rec(r)) if !r.visible() => {
                    if r.mask & IN_IGNORED != 0 {
                        let wd = r.wd;
                        self.otable.remove(&wd);
                    }
                    self.expect.pop_front();
                }
                Some(Expect::Err(e)) if *e == libc::EINTR || *e == libc::ECANCELED => {
                    self.expect.pop_front();
                }
                _ => break,
            }
        }
        let ok = match (self.expect.pop_front(), err) {
            (Some(Expect::Eof), None) => {
                // Ended: stays ended.
                self.expect.push_front(Expect::Eof);
                true
            }
            (Some(Expect::Err(e)), Some(g)) => {
                self.expect.push_front(Expect::Eof);
                // EINVAL is reported as `Unsupported` without an OS error.
                e == g || (e == libc::EINVAL && g == -1)
            }
            _ => false,
        };
        if !ok {
            self.fail("decode/end", format!("iterator ended with {err:?} but the script does not end there"));
            self.oracle_off = true;
        }
    }

    fn op_read(&mut self, recs: Vec<Rec>) -> Vec<String> {
        let mut bytes = Vec::new();
        for r in &recs {
            r.encode(&mut bytes);
        }
        let wf = recs.iter().all(Rec::well_formed);
        let had_iter = self.events.is_some();
        let line = self.complete(bytes.len() as i32, Some(bytes.clone()));
        if line.starts_with("completed") && had_iter {
            self.last_read = bytes.len();
            if !wf {
                self.oracle_off = true;
            }
            if recs.is_empty() {
                self.expect.push_back(Expect::Eof);
            }
            for r in recs {
                self.expect.push_back(Expect::Rec(r));
            }
        }
        vec![line]
    }

    fn op_check(&mut self) -> Vec<String> {
        // Let the kernel take what a10 queued, so that "handed to the kernel"
        // is visible in its in-flight table.
        self.ring_poll();
        let reads: Vec<(usize, usize)> = simk::with_ring(self.rfd, |r, _| {
            r.inflight
                .iter()
                .filter(|i| i.sqe.opcode == OP_READ)
                .map(|i| (i.sqe.addr as usize, i.sqe.len as usize))
                .collect()
        });
        let mut out = Vec::new();
        let mut fails = Vec::new();
        for (i, k) in self.kept.iter().enumerate() {
            let live = match k.block {
                Some(id) => track::region_in_block(k.addr, k.n, id),
                None => false,
            };
            let kernel = reads.iter().any(|(a, l)| k.addr < a + l && *a < k.addr + k.n);
            let same = if live {
                let now = unsafe { std::slice::from_raw_parts(k.addr as *const u8, k.n) };
                Some(now == k.snap.as_slice())
            } else {
                None
            };
            out.push(format!(
                "kept {i} live={} kernel={} same={}",
                live as u8,
                kernel as u8,
                match same {
                    Some(true) => "1",
                    Some(false) => "0",
                    None => "-",
                }
            ));
            if !live {
                fails.push(("lifetime/buffer-freed", format!("event {i} handed out by poll_next as &'w Event points into a buffer that has been freed while the Watcher is still borrowed")));
            } else if same == Some(false) {
                fails.push(("lifetime/buffer-overwritten", format!("event {i} handed out by poll_next as &'w Event was overwritten by a later read into the same buffer")));
            } else if kernel {
                fails.push(("lifetime/buffer-resubmitted", format!("event {i} handed out by poll_next as &'w Event lies in a buffer that has been handed back to the kernel for the next READ")));
            }
        }
        for (s, w) in fails {
            self.fail(s, w);
        }
        if out.is_empty() {
            out.push("kept none".into());
        }
        out
    }
}

/// Closing an inotify instance waits for an SRCU grace period (several
/// milliseconds). The last reference is therefore closed by a pool of
/// background threads: the case keeps a duplicate (numbered >= 1000, so the
/// low descriptor numbers a10 and the simulated kernel see are unaffected),
/// a10 closes its own descriptor as usual, the duplicate goes to the pool.
mod closer {
    use std::sync::atomic::{AtomicUsize, Ordering};
    use std::sync::mpsc::{channel, Sender};
    use std::sync::{Arc, Mutex, OnceLock};

    static TX: OnceLock<Mutex<Sender<i32>>> = OnceLock::new();
    static OUTSTANDING: AtomicUsize = AtomicUsize::new(0);

    pub fn close_later(fd: i32) {
        let tx = TX.get_or_init(|| {
            let (tx, rx) = channel::<i32>();
            let rx = Arc::new(Mutex::new(rx));
            for _ in 0..48 {
                let rx = rx.clone();
                std::thread::spawn(move || loop {
                    let fd = match rx.lock() {
                        Ok(g) => g.recv(),
                        Err(_) => return,
                    };
                    let Ok(fd) = fd else { return };
                    unsafe { crate::simk::raw_syscall(libc::SYS_close, fd as i64, 0, 0, 0, 0, 0) };
                    OUTSTANDING.fetch_sub(1, Ordering::SeqCst);
                });
            }
            Mutex::new(tx)
        });
        // The kernel allows 128 instances per user: never let many pile up.
        while OUTSTANDING.load(Ordering::SeqCst) >= 64 {
            std::thread::sleep(std::time::Duration::from_micros(200));
        }
        OUTSTANDING.fetch_add(1, Ordering::SeqCst);
        if let Ok(tx) = tx.lock() {
            let _ = tx.send(fd);
        }
    }
}

impl Drop for InoCase {
    fn drop(&mut self) {
        for d in self.aside.drain(..) {
            let _ = std::fs::remove_dir_all(d);
        }
        self.kept.clear();
        self.events = None;
        self.flush_orphan();
        if self.ifd >= 0 {
            let d = unsafe { libc::fcntl(self.ifd, libc::F_DUPFD_CLOEXEC, 1000) };
            if d >= 0 {
                closer::close_later(d);
            }
        }
        if !self.watcher.is_null() {
            drop(unsafe { Box::from_raw(self.watcher) });
            self.watcher = std::ptr::null_mut();
        }
        self.ring_poll();
        self.ring = None;
        let _ = simk::drain_events();
        let _ = util::drain_wakes();
        simk::reset();
    }
}

// ---------------------------------------------------------------------------
// Generator
// ---------------------------------------------------------------------------

#[derive(Default)]
struct GenState {
    started: bool,
    setup_left: u32,
    budget: u32,
    malformed: bool,
    /// directory index -> wd
    dir_wd: [Option<i32>; 7],
    /// the directory was replaced while watched
    replaced: [bool; 7],
    next_wd: i32,
    /// wds currently in the table (approximately), and those removed.
    known: Vec<i32>,
    removed: Vec<i32>,
    iter: bool,
    /// a READ is outstanding for the iterator
    awaiting: bool,
    done: bool,
    /// polls expected to yield before the batch is exhausted
    polls_left: u32,
    orphan: bool,
    final_check: bool,
    cookie: u32,
}

fn dir_path_of(idx: usize) -> &'static [u8] {
    match idx {
        0 => b"/w0",
        1 => b"/w1",
        2 => b"/sub/w2",
        3 => b"/w\xfe3",
        // nested in / parent of / byte-prefix of another watched directory
        4 => b"/w0/in",
        5 => b"/sub",
        _ => b"/w1x",
    }
}

fn dir_path(rng: &mut Rng, idx: usize) -> Vec<u8> {
    let mut p = BASE.as_bytes().to_vec();
    p.extend_from_slice(dir_path_of(idx));
    match rng.below(6) {
        0 => p.push(b'/'),
        1 => p.extend_from_slice(b"//"),
        _ => {}
    }
    p
}

fn gen_name(rng: &mut Rng, max: usize) -> Vec<u8> {
    let boundary = [1usize, 2, 15, 16, 17, 31, 32, 239, 240, 241, 254, 255];
    let mut n = match rng.below(10) {
        0..=2 => *rng.pick(&boundary),
        3..=6 => rng.range(1, 24) as usize,
        _ => rng.range(1, 255) as usize,
    };
    n = n.min(max).max(1);
    let style = rng.below(8);
    let mut v: Vec<u8> = (0..n)
        .map(|_| match style {
            0 => rng.range(1, 255) as u8,
            1 => *rng.pick(&[0xffu8, 0x80, 0x01, b' ', b'.']),
            _ => *rng.pick(b"abcdefghijklmnopqrstuvwxyz0123456789._-"),
        })
        .collect();
    // kernel names contain no '/' and no NUL
    for b in v.iter_mut() {
        if *b == b'/' || *b == 0 {
            *b = b'_';
        }
    }
    v
}

impl GenState {
    fn gen_wd(&mut self, rng: &mut Rng) -> i32 {
        match rng.below(12) {
            0 => *rng.pick(&[0i32, -1, i32::MAX, i32::MIN, 1000, 77]),
            1 if !self.removed.is_empty() => *rng.pick(&self.removed),
            _ if !self.known.is_empty() => *rng.pick(&self.known),
            _ => rng.range(1, 5) as i32,
        }
    }

    fn gen_mask(&mut self, rng: &mut Rng) -> u32 {
        let single = [0x1u32, 0x2, 0x4, 0x8, 0x10, 0x20, 0x40, 0x80, 0x100, 0x200, 0x400, 0x800, 0x2000];
        match rng.below(10) {
            0..=4 => *rng.pick(&single) | if rng.chance(1, 3) { IN_ISDIR } else { 0 },
            5 | 6 => (*rng.pick(&single) | *rng.pick(&single)) | if rng.chance(1, 2) { IN_ISDIR } else { 0 },
            7 => (rng.next() as u32) & !(IN_IGNORED | IN_Q_OVERFLOW),
            8 => 0,
            _ => rng.next() as u32,
        }
    }

    /// One record of at most `room` bytes whose size keeps the next record
    /// 4-byte aligned unless it is the `last` of its batch.
    fn gen_rec(&mut self, rng: &mut Rng, room: usize, last: bool, feats: &mut Vec<String>) -> Rec {
        let kind = rng.weighted(&[14, 2, 1, 3]);
        if kind == 1 {
            // IN_IGNORED for a watch (the kernel sends it with an empty name).
            let wd = self.gen_wd(rng);
            self.known.retain(|w| *w != wd);
            if !self.removed.contains(&wd) {
                self.removed.push(wd);
            }
            for d in self.dir_wd.iter_mut() {
                if *d == Some(wd) {
                    // the kernel would hand out a fresh descriptor on re-watch;
                    // the real descriptor stays valid here, so keep the mapping
                }
            }
            feats.push("rec-ignored".into());
            let extra = if rng.chance(1, 4) { rng.next() as u32 & 0x4000_0fff } else { 0 };
            return Rec { wd, mask: IN_IGNORED | extra, cookie: 0, name: Vec::new(), pad: 0 };
        }
        if kind == 2 {
            feats.push("rec-overflow".into());
            return Rec { wd: -1, mask: IN_Q_OVERFLOW, cookie: 0, name: Vec::new(), pad: 0 };
        }
        let wd = self.gen_wd(rng);
        if !self.known.contains(&wd) {
            feats.push("rec-unknown-wd".into());
        }
        let mask = self.gen_mask(rng);
        let cookie = if mask & 0xc0 != 0 {
            self.cookie += 1;
            if rng.chance(1, 8) { u32::MAX } else { self.cookie }
        } else {
            0
        };
        if kind == 3 || room < 32 {
            // event on the watched entry itself: no name
            feats.push("rec-noname".into());
            return Rec { wd, mask, cookie, name: Vec::new(), pad: 0 };
        }
        let max_name = (room - 16 - 1).min(255);
        let name = gen_name(rng, max_name);
        let n = name.len();
        let room_pad = room - 16 - n;
        // padding: what the kernel does (round n+1 up to a multiple of 16),
        // or any amount 0..15 that keeps the alignment
        let kernel_pad = 16 - n % 16;
        let mut pad = if rng.chance(3, 4) && kernel_pad <= room_pad {
            feats.push("pad-kernel".into());
            kernel_pad
        } else {
            feats.push("pad-odd".into());
            rng.below(16).min(room_pad as u64) as usize
        };
        if !last {
            // keep the next header aligned
            while (n + pad) % 4 != 0 {
                if pad < room_pad { pad += 1 } else if pad > 0 { pad -= 1 } else { break }
            }
            if (n + pad) % 4 != 0 {
                // cannot align: make it nameless
                return Rec { wd, mask, cookie, name: Vec::new(), pad: 0 };
            }
        }
        if n + pad > 256 {
            pad = 256 - n;
        }
        if pad == 0 {
            feats.push("pad-zero".into());
        }
        if n >= 240 {
            feats.push("name-long".into());
        }
        Rec { wd, mask, cookie, name, pad }
    }

    fn gen_batch(&mut self, rng: &mut Rng, feats: &mut Vec<String>) -> Vec<Rec> {
        let want = match rng.below(10) {
            0..=3 => 1,
            4..=6 => rng.range(2, 4) as usize,
            7 | 8 => rng.range(3, 9) as usize,
            _ => 17,
        };
        let mut room = BUF_SIZE;
        let mut v: Vec<Rec> = Vec::new();
        for i in 0..want {
            if room < 16 {
                break;
            }
            // leave room for the records still to come
            let reserve = (want - 1 - i) * 16;
            let avail = room.saturating_sub(reserve).max(16);
            let r = self.gen_rec(rng, avail, false, feats);
            room -= r.size();
            v.push(r);
        }
        // The last record may have any size.
        if rng.chance(1, 3) && room >= 32 {
            let r = self.gen_rec(rng, room, true, feats);
            v.push(r);
        }
        if v.len() >= 2 {
            feats.push("batch-multi".into());
        }
        if v.iter().map(Rec::size).sum::<usize>() == BUF_SIZE {
            feats.push("batch-full".into());
        }
        v
    }

    fn gen_malformed(&mut self, rng: &mut Rng, feats: &mut Vec<String>) -> String {
        feats.push("malformed".into());
        let wd = self.gen_wd(rng);
        match rng.below(6) {
            0 => {
                // truncated header
                let n = rng.range(1, 15) as usize;
                let b: Vec<u8> = (0..n).map(|_| rng.next() as u8).collect();
                format!("inotify readraw {}", hexs(&b))
            }
            1 => {
                // length field larger than what follows
                let mut b = Vec::new();
                let r = Rec { wd, mask: 0x100, cookie: 0, name: b"abc".to_vec(), pad: 13 };
                r.encode(&mut b);
                let cut = rng.range(16, 31) as usize;
                b.truncate(cut);
                format!("inotify readraw {}", hexs(&b))
            }
            2 => {
                // a good record followed by a truncated one
                let mut b = Vec::new();
                Rec { wd, mask: 0x2, cookie: 0, name: b"first".to_vec(), pad: 11 }.encode(&mut b);
                Rec { wd, mask: 0x200, cookie: 0, name: b"second".to_vec(), pad: 10 }.encode(&mut b);
                let cut = rng.range(33, 63) as usize;
                b.truncate(cut);
                format!("inotify readraw {}", hexs(&b))
            }
            3 => {
                // empty name with padding (not kernel-producible): NULs are the name
                let pad = *rng.pick(&[4usize, 16, 8]);
                format!("inotify read {}", Rec { wd, mask: 0x4, cookie: 0, name: Vec::new(), pad }.show())
            }
            4 => {
                // name with interior / trailing NULs and a leading '/'
                let name = rng.pick(&[&b"a\0b"[..], &b"ab\0"[..], &b"/etc"[..], &b"\0x"[..]]).to_vec();
                let pad = (4 - name.len() % 4) % 4 + 4;
                format!("inotify read {}", Rec { wd, mask: 0x100, cookie: 0, name, pad }.show())
            }
            _ => {
                // huge length field
                let mut b = Vec::new();
                b.extend_from_slice(&wd.to_le_bytes());
                b.extend_from_slice(&0x100u32.to_le_bytes());
                b.extend_from_slice(&0u32.to_le_bytes());
                b.extend_from_slice(&(*rng.pick(&[0xffff_ffffu32, 0x8000_0000, 257, 4096])).to_le_bytes());
                b.extend_from_slice(b"name\0\0\0\0");
                format!("inotify readraw {}", hexs(&b))
            }
        }
    }
}

impl Case for InoCase {
    fn next_op(&mut self, rng: &mut Rng) -> Option<String> {
        let mut feats = Vec::new();
        let op = self.gen_op(rng, &mut feats);
        self.feats.extend(feats);
        op
    }

    fn exec(&mut self, op: &str) -> Vec<String> {
        let t: Vec<&str> = op.split(' ').collect();
        match t.as_slice() {
            ["inotify", "watch", wd, path, mk] => {
                let (Ok(wd), Some(path), Ok(mk)) = (wd.parse::<i32>(), unhex(path), mk.parse::<u8>()) else {
                    return vec!["bad-op".into()];
                };
                self.op_watch(wd, path, mk != 0)
            }
            ["inotify", "replace", path] => match unhex(path) {
                Some(path) => self.op_replace(path),
                None => vec!["bad-op".into()],
            },
            ["inotify", "events"] => self.op_events(),
            ["inotify", "poll"] => self.op_poll(),
            ["inotify", "read", recs @ ..] if !recs.is_empty() => {
                let recs: Option<Vec<Rec>> = if recs == ["-"] {
                    Some(Vec::new())
                } else {
                    recs.iter().map(|r| Rec::parse(r)).collect()
                };
                match recs {
                    // never more than the READ can take, never a length a10 would overrun
                    Some(recs) if recs.iter().map(Rec::size).sum::<usize>() <= BUF_SIZE => self.op_read(recs),
                    _ => vec!["bad-op".into()],
                }
            }
            ["inotify", "readraw", h] => match unhex(h) {
                Some(b) if b.len() <= BUF_SIZE && !b.is_empty() => {
                    let had_iter = self.events.is_some();
                    let n = b.len();
                    let line = self.complete(n as i32, Some(b));
                    if line.starts_with("completed") && had_iter {
                        self.last_read = n;
                        self.oracle_off = true;
                    }
                    vec![line]
                }
                _ => vec!["bad-op".into()],
            },
            ["inotify", "fail", e] => match e.parse::<i32>() {
                Ok(e) if (1..4096).contains(&e) => {
                    let had_iter = self.events.is_some();
                    let line = self.complete(-e, None);
                    if line.starts_with("completed") && had_iter {
                        self.expect.push_back(Expect::Err(e));
                    }
                    vec![line]
                }
                _ => vec!["bad-op".into()],
            },
            ["inotify", "drop-events"] => {
                if self.events.is_none() {
                    return vec!["bad-state".into()];
                }
                self.events = None;
                self.expect.clear();
                vec!["ok".into()]
            }
            ["inotify", "check"] => self.op_check(),
            _ => vec!["bad-op".into()],
        }
    }

    fn drain_oracle(&mut self) -> Vec<(String, String, String)> {
        std::mem::take(&mut self.oracle)
    }

    fn finish(&mut self) -> CaseReport {
        let mut features = std::mem::take(&mut self.feats);
        features.sort();
        features.dedup();
        CaseReport {
            oracle: std::mem::take(&mut self.oracle),
            features,
            nontrivial: self.yielded > 0,
        }
    }
}

impl InoCase {
    fn gen_op(&mut self, rng: &mut Rng, feats: &mut Vec<String>) -> Option<String> {
        let g = &mut self.g;
        if !g.started {
            g.started = true;
            g.setup_left = rng.range(1, 3) as u32;
            g.budget = rng.range(8, 40) as u32;
            g.malformed = rng.chance(1, 16);
            g.next_wd = 1;
        }
        if g.setup_left > 0 {
            g.setup_left -= 1;
            return Some(Self::gen_watch(g, rng, feats));
        }
        if g.budget == 0 {
            if !g.final_check {
                g.final_check = true;
                return Some("inotify check".into());
            }
            return None;
        }
        g.budget -= 1;

        if !g.iter {
            // No iterator: create one (mostly), or play with what is left over.
            return Some(match rng.weighted(&[10, 2, if g.orphan { 4 } else { 0 }, 1, 1]) {
                0 => {
                    g.iter = true;
                    g.awaiting = false;
                    g.done = false;
                    g.polls_left = 1;
                    g.orphan = false;
                    feats.push("events".into());
                    "inotify events".into()
                }
                1 => "inotify check".into(),
                2 => {
                    // the kernel still completes the READ of the dropped iterator
                    g.orphan = false;
                    feats.push("orphan-read-completes".into());
                    let b = g.gen_batch(rng, &mut Vec::new());
                    format!("inotify read {}", b.iter().map(Rec::show).collect::<Vec<_>>().join(" "))
                }
                3 => Self::gen_watch(g, rng, feats),
                _ => "inotify poll".into(),
            });
        }

        if g.done {
            return Some(match rng.below(4) {
                0 => "inotify poll".into(),
                1 => "inotify check".into(),
                2 => "inotify read -".into(),
                _ => {
                    g.iter = false;
                    feats.push("drop-done".into());
                    "inotify drop-events".into()
                }
            });
        }

        if g.polls_left > 0 {
            // The iterator has something to say.
            return Some(match rng.weighted(&[24, 4, 1, 1]) {
                0 => {
                    g.polls_left -= 1;
                    if g.polls_left == 0 {
                        g.awaiting = true;
                    }
                    "inotify poll".into()
                }
                1 => "inotify check".into(),
                2 => {
                    g.iter = false;
                    g.orphan = g.awaiting;
                    feats.push("drop-processing".into());
                    "inotify drop-events".into()
                }
                _ => Self::gen_watch(g, rng, feats),
            });
        }

        // A READ is outstanding.
        Some(match rng.weighted(&[30, 3, 2, 4, 2, 1, if g.malformed { 12 } else { 0 }]) {
            0 => {
                let b = g.gen_batch(rng, feats);
                let visible = b.iter().filter(|r| r.visible()).count() as u32;
                g.polls_left = if rng.chance(1, 10) { rng.below(visible as u64 + 1) as u32 } else { visible + 1 };
                g.awaiting = false;
                format!("inotify read {}", b.iter().map(Rec::show).collect::<Vec<_>>().join(" "))
            }
            1 => {
                // a read error
                let e = *rng.pick(&[libc::EIO, libc::EBADF, libc::ENOMEM, libc::EINVAL, libc::EAGAIN, libc::EINTR, libc::ECANCELED, libc::EINTR]);
                if e == libc::EINTR || e == libc::ECANCELED {
                    feats.push("read-restarted".into());
                    g.polls_left = 1;
                } else {
                    feats.push("read-error".into());
                    g.polls_left = 1;
                    g.done = true;
                }
                g.awaiting = false;
                format!("inotify fail {e}")
            }
            2 => {
                feats.push("read-empty".into());
                g.polls_left = 1;
                g.done = true;
                g.awaiting = false;
                "inotify read -".into()
            }
            3 => "inotify check".into(),
            4 => "inotify poll".into(),
            5 => {
                g.iter = false;
                g.orphan = true;
                feats.push("drop-reading".into());
                "inotify drop-events".into()
            }
            _ => {
                g.polls_left = 2;
                g.awaiting = false;
                g.gen_malformed(rng, feats)
            }
        })
    }

    fn gen_watch(g: &mut GenState, rng: &mut Rng, feats: &mut Vec<String>) -> String {
        if rng.chance(1, 12) {
            feats.push("watch-missing".into());
            let p = format!("{BASE}/missing/m{}", rng.below(3));
            return format!("inotify watch 0 {} 0", hexs(p.as_bytes()));
        }
        let idx = rng.below(7) as usize;
        // a watched leaf directory is replaced (renamed aside, a new one created): the old watch
        // and its path stay, the next watch of the same path gets a new descriptor
        if g.dir_wd[idx].is_some() && matches!(idx, 1 | 2 | 3 | 4 | 6) && rng.chance(1, 4) {
            feats.push("replace-watched".into());
            g.dir_wd[idx] = None;
            g.replaced[idx] = true;
            let mut p = BASE.as_bytes().to_vec();
            p.extend_from_slice(dir_path_of(idx));
            return format!("inotify replace {}", hexs(&p));
        }
        let wd = match g.dir_wd[idx] {
            Some(wd) => {
                feats.push("rewatch".into());
                wd
            }
            None => {
                let wd = g.next_wd;
                g.next_wd += 1;
                g.dir_wd[idx] = Some(wd);
                wd
            }
        };
        if !g.known.contains(&wd) {
            g.known.push(wd);
        }
        g.removed.retain(|w| *w != wd);
        // after a replacement mostly the very same spelling (two descriptors, one path)
        let p = if g.replaced[idx] && rng.chance(2, 3) {
            let mut p = BASE.as_bytes().to_vec();
            p.extend_from_slice(dir_path_of(idx));
            p
        } else {
            dir_path(rng, idx)
        };
        if g.replaced[idx] {
            feats.push("rewatch-after-replace".into());
        }
        if p.last() == Some(&b'/') {
            feats.push("watch-trailing-slash".into());
        }
        format!("inotify watch {wd} {} 1", hexs(&p))
    }
}

impl Comp for InotifyComp {
    fn name(&self) -> &'static str {
        "inotify"
    }
    fn rule(&self) -> String {
        "each case = a real Watcher with 1-3 of 7 watched directories (some nested in or a byte-prefix of another; trailing slashes, re-watches, a missing path) and 8-40 ops driving Events::poll_next against READ completions scripted in the simulated kernel: batches of 1-17 whole inotify records filling at most the 272-byte buffer (names of 0-255 bytes incl. boundary lengths and non-ASCII bytes, kernel padding or 0-15 NULs, single/combined/random mask bits, IN_IGNORED and IN_Q_OVERFLOW records, unknown/removed/extreme watch descriptors), empty reads, read errors (restarting EINTR/ECANCELED and fatal ones), dropping the iterator in every state, re-creating it, and `check` ops that re-read every &Event handed out so far; 1 case in 16 also feeds malformed streams (truncated headers/records, oversized length fields, NUL-only and NUL-containing names). A case is non-trivial if at least one event was yielded; distinct = distinct op scripts".into()
    }
    fn gen_header(&mut self, _rng: &mut Rng, id: u64, _tier: &str) -> String {
        format!("inotify begin {id}")
    }
    fn begin(&mut self, _header: &str) -> Box<dyn Case> {
        Box::new(InoCase::new())
    }
}
