//! Component drivers. Each component generates op scripts (one op per line),
//! executes them against the real a10 code and prints canonical output; the
//! same script is fed to the Lean model driver and the outputs are diffed.

use std::collections::{BTreeMap, HashSet};
use std::fmt::Write as _;

use crate::util::{self, Out, Rng};
use crate::Args;

#[cfg(feature = "c-addr")]
pub mod addr;
#[cfg(feature = "c-blk")]
pub mod blk;
#[cfg(feature = "c-bufs")]
pub mod bufs;
#[cfg(feature = "c-composite")]
pub mod composite;
#[cfg(feature = "c-config")]
pub mod config;
#[cfg(feature = "c-cq")]
pub mod cq;
#[cfg(feature = "c-encode")]
pub mod encode;
#[cfg(feature = "c-fds")]
pub mod fds;
#[cfg(feature = "c-inotify")]
pub mod inotify;
#[cfg(feature = "c-life")]
pub mod life;
#[cfg(feature = "c-pool")]
pub mod pool;
#[cfg(feature = "c-readbuf")]
pub mod readbuf;
#[cfg(feature = "c-smoke")]
pub mod smoke;
#[cfg(feature = "c-sq")]
pub mod sq;
#[cfg(feature = "c-teardown")]
pub mod teardown;
#[cfg(feature = "c-wake")]
pub mod wake;

/// What a case reports when it ends.
#[derive(Default)]
pub struct CaseReport {
    /// (property, signature, what)
    pub oracle: Vec<(String, String, String)>,
    /// Features of interest hit by this case (for the input distribution).
    pub features: Vec<String>,
    /// Non-trivial by the component's rule.
    pub nontrivial: bool,
}

pub trait Case {
    /// Produce the next op of a generated case (None = end of the case).
    fn next_op(&mut self, rng: &mut Rng) -> Option<String>;
    /// Output lines of the `begin` header itself (default: none).
    fn begin_output(&mut self) -> Vec<String> {
        Vec::new()
    }
    /// Execute one op line against the implementation; returns output lines.
    fn exec(&mut self, op: &str) -> Vec<String>;
    /// Oracle failures detected by the op just executed: (property, signature, what).
    fn drain_oracle(&mut self) -> Vec<(String, String, String)> {
        Vec::new()
    }
    /// End of the case.
    fn finish(&mut self) -> CaseReport;
}

pub trait Comp {
    fn name(&self) -> &'static str;
    /// How cases are generated and what makes one non-trivial / distinct.
    fn rule(&self) -> String;
    /// Generate the header line (`<comp> begin <id> k=v …`) of case `id`.
    fn gen_header(&mut self, rng: &mut Rng, id: u64, tier: &str) -> String;
    /// Start a case from its header line.
    fn begin(&mut self, header: &str) -> Box<dyn Case>;
}

fn hash_lines(lines: &[String]) -> u64 {
    // FNV-1a
    let mut h: u64 = 0xcbf29ce484222325;
    for l in lines.iter().skip(1) {
        for b in l.bytes() {
            h ^= b as u64;
            h = h.wrapping_mul(0x100000001b3);
        }
        h ^= 0xff;
        h = h.wrapping_mul(0x100000001b3);
    }
    h
}

pub fn run_comp(a: &Args, comp: &mut dyn Comp) -> i32 {
    let mut out = Out::default();
    let mut dist: BTreeMap<String, u64> = BTreeMap::new();
    let mut features: BTreeMap<String, u64> = BTreeMap::new();
    let mut distinct: HashSet<u64> = HashSet::new();
    let mut samples: Vec<Vec<String>> = Vec::new();
    let mut oracle: Vec<(String, String, String, String, Vec<String>)> = Vec::new();
    let mut cases = 0u64;
    let mut evals = 0u64;

    let mut scripts: Vec<Vec<String>> = Vec::new();
    if let Some(path) = &a.replay {
        let text = std::fs::read_to_string(path).expect("read replay file");
        for line in text.lines() {
            let line = line.trim();
            if line.is_empty() || line.starts_with('#') {
                continue;
            }
            let toks: Vec<&str> = line.split(' ').collect();
            if toks.len() >= 2 && toks[1] == "begin" {
                scripts.push(vec![line.to_string()]);
            } else if let Some(last) = scripts.last_mut() {
                last.push(line.to_string());
            }
        }
    }

    // The op script is also written incrementally (flushed before each op is
    // executed): if the implementation crashes the process, the last case in
    // this file is the replay.
    use std::io::Write as _;
    let name0 = comp.name();
    let mut live_ops = std::fs::File::create(format!("{}/{}.ops", a.out, name0)).expect("create ops file");

    let mut rng = Rng::new(a.seed ^ 0xa10a10a10);
    let n = if a.replay.is_some() { scripts.len() as u64 } else { a.cases };
    for i in 0..n {
        let mut crng = rng.fork();
        let mut script: Vec<String> = Vec::new();
        let replaying = a.replay.is_some();
        let header = if replaying {
            scripts[i as usize][0].clone()
        } else {
            comp.gen_header(&mut crng, i, &a.tier)
        };
        out.op(&header);
        let _ = writeln!(live_ops, "{header}");
        let _ = live_ops.flush();
        script.push(header.clone());
        let mut case = comp.begin(&header);
        for l in case.begin_output() {
            out.line(&l);
        }
        let mut k = 1usize;
        loop {
            let op = if replaying {
                if k < scripts[i as usize].len() {
                    k += 1;
                    Some(scripts[i as usize][k - 1].clone())
                } else {
                    None
                }
            } else {
                case.next_op(&mut crng)
            };
            let Some(op) = op else { break };
            out.op(&op);
            let _ = writeln!(live_ops, "{op}");
            let _ = live_ops.flush();
            let kind = op.split(' ').nth(1).unwrap_or("?").to_string();
            *dist.entry(kind).or_insert(0) += 1;
            script.push(op.clone());
            evals += 1;
            for l in case.exec(&op) {
                out.line(&l);
            }
            for (p, sig, what) in case.drain_oracle() {
                let id = header.split(' ').nth(2).unwrap_or("?").to_string();
                if oracle.len() < 50 && !oracle.iter().any(|o| o.2 == sig) {
                    oracle.push((id, p, sig, what, script.clone()));
                }
            }
        }
        let rep = case.finish();
        drop(case);
        cases += 1;
        for f in &rep.features {
            *features.entry(f.clone()).or_insert(0) += 1;
        }
        if rep.nontrivial {
            let h = hash_lines(&script);
            if distinct.insert(h) && samples.len() < 3 {
                samples.push(script.clone());
            }
        }
        for (p, sig, what) in rep.oracle {
            let id = header.split(' ').nth(2).unwrap_or("?").to_string();
            if oracle.len() < 50 && !oracle.iter().any(|o| o.2 == sig) {
                oracle.push((id, p, sig, what, script.clone()));
            }
        }
    }

    let name = comp.name();
    drop(live_ops);
    std::fs::write(format!("{}/{}.ops", a.out, name), &out.ops).unwrap();
    std::fs::write(format!("{}/{}.impl", a.out, name), &out.out).unwrap();

    let mut j = String::new();
    let _ = write!(
        j,
        "{{\"component\":{},\"cases\":{},\"evaluations\":{},\"distinct_nontrivial\":{},\"rule\":{},",
        util::jstr(name),
        cases,
        evals.max(cases),
        distinct.len(),
        util::jstr(&comp.rule())
    );
    j.push_str("\"distribution\":{\"ops\":{");
    j.push_str(
        &dist
            .iter()
            .map(|(k, v)| format!("{}:{}", util::jstr(k), v))
            .collect::<Vec<_>>()
            .join(","),
    );
    j.push_str("},\"features\":{");
    j.push_str(
        &features
            .iter()
            .map(|(k, v)| format!("{}:{}", util::jstr(k), v))
            .collect::<Vec<_>>()
            .join(","),
    );
    j.push_str("}},\"samples\":[");
    j.push_str(
        &samples
            .iter()
            .map(|s| {
                format!(
                    "[{}]",
                    s.iter().map(|l| util::jstr(l)).collect::<Vec<_>>().join(",")
                )
            })
            .collect::<Vec<_>>()
            .join(","),
    );
    j.push_str("],\"oracle_failures\":[");
    j.push_str(
        &oracle
            .iter()
            .map(|(id, p, sig, what, script)| {
                format!(
                    "{{\"case\":{},\"property\":{},\"signature\":{},\"what\":{},\"ops\":[{}]}}",
                    util::jstr(id),
                    util::jstr(p),
                    util::jstr(sig),
                    util::jstr(what),
                    script.iter().map(|l| util::jstr(l)).collect::<Vec<_>>().join(",")
                )
            })
            .collect::<Vec<_>>()
            .join(","),
    );
    j.push_str("]}\n");
    std::fs::write(format!("{}/{}.stats.json", a.out, name), j).unwrap();
    0
}

pub fn run(a: &Args) -> i32 {
    match a.comp.as_str() {
        #[cfg(feature = "c-smoke")]
        "smoke" => smoke::run(a),
        #[cfg(feature = "c-addr")]
        "addr" => run_comp(a, &mut addr::AddrComp),
        #[cfg(feature = "c-life")]
        "life" => run_comp(a, &mut life::LifeComp),
        #[cfg(feature = "c-cq")]
        "cq" => run_comp(a, &mut cq::CqComp),
        #[cfg(feature = "c-fds")]
        "fds" => run_comp(a, &mut fds::FdsComp),
        #[cfg(feature = "c-pool")]
        "pool" => run_comp(a, &mut pool::PoolComp),
        #[cfg(feature = "c-encode")]
        "encode" => run_comp(a, &mut encode::EncodeComp),
        #[cfg(feature = "c-sq")]
        "sq" => run_comp(a, &mut sq::SqComp),
        #[cfg(feature = "c-blk")]
        "blk" => run_comp(a, &mut blk::BlkComp),
        #[cfg(feature = "c-teardown")]
        "teardown" => run_comp(a, &mut teardown::TeardownComp),
        #[cfg(feature = "c-wake")]
        "wake" => run_comp(a, &mut wake::WakeComp),
        #[cfg(feature = "c-bufs")]
        "bufs" => run_comp(a, &mut bufs::BufsComp),
        #[cfg(feature = "c-composite")]
        "composite" => run_comp(a, &mut composite::CompositeComp),
        #[cfg(feature = "c-readbuf")]
        "readbuf" => run_comp(a, &mut readbuf::ReadBufComp),
        #[cfg(feature = "c-config")]
        "config" => run_comp(a, &mut config::ConfigComp),
        #[cfg(feature = "c-inotify")]
        "inotify" => run_comp(a, &mut inotify::InotifyComp),
        other => {
            eprintln!("unknown component {other}");
            2
        }
    }
}
