use crate::Args;

pub mod smoke;

pub fn run(a: &Args) -> i32 {
    match a.comp.as_str() {
        "smoke" => smoke::run(a),
        other => {
            eprintln!("unknown component {other}");
            2
        }
    }
}
