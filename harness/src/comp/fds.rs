//! Descriptor ownership against the simulated kernel (C07).
//!
//! Real a10 operations that create descriptors (open, socket, accept,
//! multishot accept, pipe, to_direct_descriptor, to_file_descriptor), explicit
//! `AsyncFd::close`, drops of `AsyncFd`s with a full and a non-full submission
//! queue, and the standard-stream handles share one small ring. The script
//! decides when futures are polled and dropped, when the kernel consumes
//! submissions (inside `Ring::poll`), and what it answers: an errno or fresh
//! descriptors with script-chosen numbers (real descriptors for the regular
//! table, slots of the simulated direct table). An EINVAL answer ("kernel too
//! old") is an ordinary error for every operation but `pipe`, whose next poll
//! calls `pipe2(2)` synchronously (`PipeOp::fallback`): the libc symbol is
//! trapped (`simk::sync_trap`) for the duration of every op, answered with the
//! numbers (or the errno) the poll op carries (`fds poll <i> pipe2 <r1>,<r2>` /
//! `fds poll <i> pipe2-err <errno>`) and backed by real descriptors.
//!
//! The oracle is a ledger of every descriptor the kernel handed out, updated
//! only from what the real code does: the `AsyncFd`s it returns (`kind()` /
//! `fd`), the CLOSE submissions it publishes, the `close(2)` and
//! `FILES_UPDATE` calls it makes, and what the kernel closes.

use std::future::Future;
use std::pin::Pin;
use std::task::{Context, Poll};
use std::time::Duration;

use a10::fd::Kind;
use a10::{AsyncFd, Ring, SubmissionQueue};

use crate::comp::{Case, CaseReport, Comp};
use crate::simk::{self, KEv, PostSpec, Target, CQE_F_MORE};
use crate::track;
use crate::util::{self, Rng};

pub struct FdsComp;

/// Range of regular descriptor numbers the simulated kernel hands out.
const FLO: u32 = 200;
const FHI: u32 = 456;
/// First direct-table slot the simulated kernel hands out.
const SLO: u32 = 40;

enum Polled {
    Pending,
    Fds(Vec<AsyncFd>),
    Err(String),
    None,
}

trait Pollable {
    fn poll(&mut self, cx: &mut Context<'_>) -> Polled;
}

fn err_num(e: &std::io::Error) -> String {
    match e.raw_os_error() {
        Some(n) => n.to_string(),
        None => format!("{:?}", e.kind()),
    }
}

struct FutOp<F, T> {
    fut: Pin<Box<F>>,
    conv: fn(T) -> Vec<AsyncFd>,
}

impl<F: Future<Output = std::io::Result<T>>, T> Pollable for FutOp<F, T> {
    fn poll(&mut self, cx: &mut Context<'_>) -> Polled {
        match self.fut.as_mut().poll(cx) {
            Poll::Pending => Polled::Pending,
            Poll::Ready(Ok(v)) => Polled::Fds((self.conv)(v)),
            Poll::Ready(Err(e)) => Polled::Err(err_num(&e)),
        }
    }
}

/// A user implementation of the public `SocketAddress` trait whose `init` (the decoding of
/// the peer address of an accepted connection) panics.
struct PanicAddr;

impl a10::net::SocketAddress for PanicAddr {
    type Storage = libc::sockaddr_storage;

    fn into_storage(self) -> Self::Storage {
        unsafe { std::mem::zeroed() }
    }

    unsafe fn as_ptr(storage: &Self::Storage) -> (*const libc::c_void, u32) {
        (std::ptr::from_ref(storage).cast(), size_of::<libc::sockaddr_storage>() as u32)
    }

    unsafe fn as_mut_ptr(storage: &mut std::mem::MaybeUninit<Self::Storage>) -> (*mut libc::c_void, u32) {
        (storage.as_mut_ptr().cast(), size_of::<libc::sockaddr_storage>() as u32)
    }

    unsafe fn init(_: std::mem::MaybeUninit<Self::Storage>, _: u32) -> Self {
        panic!("PanicAddr::init")
    }

    fn domain(&self) -> a10::net::Domain {
        a10::net::Domain::IPV4
    }
}

struct MAccept(Pin<Box<a10::net::MultishotAccept<'static>>>);

impl Pollable for MAccept {
    fn poll(&mut self, cx: &mut Context<'_>) -> Polled {
        match self.0.as_mut().poll_next(cx) {
            Poll::Pending => Polled::Pending,
            Poll::Ready(None) => Polled::None,
            Poll::Ready(Some(Ok(fd))) => Polled::Fds(vec![fd]),
            Poll::Ready(Some(Err(e))) => Polled::Err(err_num(&e)),
        }
    }
}

struct OpSlot {
    kind: String,
    obj: Option<Box<dyn Pollable>>,
    /// the `AsyncFd` the future borrows
    on: Option<usize>,
    /// user_data of its submission while it is published / in flight
    /// (never set for `Close`: the kernel executes it when it consumes it)
    ud_inflight: Option<u64>,
    /// user_data of its last submission
    ud: Option<u64>,
    /// the kind asked for with `.kind(..)` (open, socket, pipe)
    req: Option<K>,
    /// a live pipe future whose operation finished with -EINVAL: its next poll
    /// calls `pipe2(2)` and needs the script's answer
    einval_due: bool,
}

/// What the trapped `pipe2(2)` answers during a poll.
#[derive(Clone, Copy)]
enum Pipe2 {
    Fds([u32; 2]),
    Errno(i32),
}

enum HObj {
    Fd(*mut AsyncFd),
    In(*mut a10::io::Stdin),
    Out(*mut a10::io::Stdout),
    Err(*mut a10::io::Stderr),
}

struct HSlot {
    obj: Option<HObj>,
    std: bool,
}

impl HSlot {
    fn afd(&self) -> Option<&'static AsyncFd> {
        Some(match self.obj.as_ref()? {
            HObj::Fd(p) => unsafe { &**p },
            HObj::In(p) => unsafe { &***p },
            HObj::Out(p) => unsafe { &***p },
            HObj::Err(p) => unsafe { &***p },
        })
    }
}

#[derive(Clone, Copy, PartialEq, Eq, Debug)]
enum K {
    File,
    Direct,
}

impl K {
    fn name(self) -> &'static str {
        match self {
            K::File => "file",
            K::Direct => "direct",
        }
    }
    fn of(k: Kind) -> K {
        match k {
            Kind::Direct => K::Direct,
            _ => K::File,
        }
    }
}

#[derive(Clone, PartialEq, Eq, Debug)]
enum St {
    Pending(usize),
    Owned(usize),
    CloseFut(usize),
    Released,
    Closed,
    Lost,
    Forfeited,
}

impl St {
    fn show(&self) -> String {
        match self {
            St::Pending(i) => format!("pending:{i}"),
            St::Owned(h) => format!("owned:{h}"),
            St::CloseFut(i) => format!("closefut:{i}"),
            St::Released => "released".into(),
            St::Closed => "closed".into(),
            St::Lost => "lost".into(),
            St::Forfeited => "forfeited".into(),
        }
    }
}

/// One descriptor the kernel handed out.
struct DescRec {
    kind: K,
    raw: u32,
    closes: u32,
    st: St,
    wraps: u32,
    /// kind of the operation it was delivered to
    opkind: String,
    /// how it was lost (for the report)
    how: &'static str,
}

struct FdsCase {
    ring: Option<Ring>,
    sq: Option<SubmissionQueue>,
    rfd: i32,
    /// direct slots handed out: `slo..slots` (the first ones stay empty so that
    /// a slot number mistaken for a regular descriptor hits nothing the
    /// harness itself has open)
    slo: u32,
    slots: u32,
    sq_len: u32,
    ops: Vec<OpSlot>,
    handles: Vec<HSlot>,
    descs: Vec<DescRec>,
    steps_left: u32,
    cleanup: Option<bool>,
    ended: bool,
    oracle: Vec<(String, String, String)>,
    feats: Vec<String>,
    /// a10 holds an `AsyncFd` for (or asked to close) something that is not the
    /// descriptor it was given: stop calling into it, real closes would hit
    /// descriptors of the harness itself.
    poisoned: bool,
}

fn key(k: K, raw: u32) -> String {
    format!("{}:{}", k.name(), raw)
}

fn raw_fcntl_getfd(fd: i32) -> i64 {
    unsafe { simk::raw_syscall(libc::SYS_fcntl, fd as i64, libc::F_GETFD as i64, 0, 0, 0, 0) }
}

/// What a CLOSE submission names, read the way the kernel reads it.
fn close_target(sqe: &simk::Sqe) -> (K, u32) {
    if sqe.file_index != 0 {
        (K::Direct, sqe.file_index - 1)
    } else {
        (K::File, sqe.fd as u32)
    }
}

fn ensure_stdio() {
    for fd in 0..3 {
        if raw_fcntl_getfd(fd) < 0 {
            let path = c"/dev/null";
            let n = unsafe {
                simk::raw_syscall(libc::SYS_openat, libc::AT_FDCWD as i64, path.as_ptr() as i64, libc::O_RDWR as i64, 0, 0, 0)
            };
            if n >= 0 && n != fd as i64 {
                unsafe {
                    simk::raw_syscall(libc::SYS_dup3, n, fd as i64, 0, 0, 0, 0);
                    simk::raw_syscall(libc::SYS_close, n, 0, 0, 0, 0, 0);
                }
            }
        }
    }
}

impl FdsCase {
    fn new(header: &str) -> FdsCase {
        let t: Vec<&str> = header.split(' ').collect();
        let get = |k: &str| -> u32 {
            t.iter()
                .find_map(|x| x.strip_prefix(&format!("{k}=")))
                .and_then(|v| v.parse().ok())
                .unwrap_or(0)
        };
        let (sq_len, cq_len, slots, slo) = (get("sq").max(1), get("cq").max(2), get("slots"), get("slo"));
        ensure_stdio();
        simk::reset();
        simk::activate(simk::SetupCfg::default());
        let mut cfg = Ring::config()
            .with_submission_queue_size(sq_len)
            .with_completion_queue_size(cq_len);
        if slots > 0 {
            cfg = cfg.with_direct_descriptors(slots);
        }
        let ring = cfg.build().expect("ring build");
        let sq = ring.sq();
        let rfd = simk::with_sim(|s| *s.rings.keys().next().unwrap());
        simk::drain_events();
        util::drain_wakes();
        track::drain_frees();
        FdsCase {
            ring: Some(ring),
            sq: Some(sq),
            rfd,
            slo,
            slots,
            sq_len,
            ops: Vec::new(),
            handles: Vec::new(),
            descs: Vec::new(),
            steps_left: get("steps"),
            cleanup: None,
            ended: false,
            oracle: Vec::new(),
            feats: Vec::new(),
            poisoned: false,
        }
    }

    fn fail(&mut self, sig: &str, what: String) {
        if sig.starts_with("C07/wrong-wrap") || sig.starts_with("C07/wrong-close-target") || sig.starts_with("C07/std-closed") || sig.starts_with("C07/close-encoding") || sig.starts_with("C07/stolen-close") {
            self.poisoned = true;
        }
        self.oracle.push(("C07".into(), sig.into(), what));
    }

    fn sq_tail(&self) -> u32 {
        simk::with_ring(self.rfd, |r, _| r.sq_tail())
    }

    fn sqes_since(&self, old_tail: u32) -> Vec<simk::Sqe> {
        simk::with_ring(self.rfd, |r, _| {
            let tail = r.sq_tail();
            let mut v = Vec::new();
            let mut t = old_tail;
            while t != tail {
                v.push(r.sqe_at(t));
                t = t.wrapping_add(1);
            }
            v
        })
    }

    fn borrowed(&self, a: usize) -> bool {
        self.ops.iter().any(|o| o.obj.is_some() && o.on == Some(a))
    }

    fn live_handle(&self, a: usize) -> bool {
        self.handles.get(a).is_some_and(|h| h.obj.is_some())
    }

    fn find_open(&self, k: K, raw: u32) -> Option<usize> {
        self.descs.iter().position(|d| d.kind == k && d.raw == raw && d.closes == 0)
    }

    /// The kernel closed `(k, raw)` (`via`: how the request reached it).
    fn kernel_closed(&mut self, k: K, raw: u32, via: &str, ok: bool) {
        if k == K::File && raw < 3 {
            self.fail("C07/std-closed", format!("close request ({via}) for standard stream descriptor {raw}"));
        }
        match self.find_open(k, raw) {
            Some(d) => {
                self.descs[d].closes += 1;
                if self.descs[d].st == St::Released {
                    self.descs[d].st = St::Closed;
                } else {
                    let st = self.descs[d].st.show();
                    self.fail(&format!("C07/stolen-close/{}", k.name()), format!("{via} closed {} while it is {st}: the request came from a different AsyncFd", key(k, raw)));
                }
                if !ok {
                    self.fail("C07/close-failed", format!("{via} of open descriptor {} failed", key(k, raw)));
                }
            }
            None => {
                self.fail(&format!("C07/stray-close/{}", k.name()), format!("{via} of {} which is not an open descriptor (double close or wrong number / table)", key(k, raw)));
            }
        }
    }

    /// Collect kernel events of the call just made: lines + ledger updates.
    fn kernel_events(&mut self, lines: &mut Vec<String>, sync_only: bool) {
        for e in simk::drain_events() {
            match e {
                KEv::Enter { to_submit, .. } if !sync_only => lines.insert(0, format!("enter submit={to_submit}")),
                KEv::CloseReq { fd, direct, res, .. } => {
                    let k = if direct { K::Direct } else { K::File };
                    lines.push(format!("closed {} {}", key(k, fd as u32), if res == 0 { 0 } else { -9 }));
                    self.kernel_closed(k, fd as u32, "CLOSE submission", res == 0);
                }
                KEv::CloseFd { fd, ret } => {
                    if fd == self.rfd {
                        continue;
                    }
                    lines.push(format!("sync-close {} {}", key(K::File, fd as u32), if ret == 0 { 0 } else { -9 }));
                    self.feats.push("queue-full-fallback".into());
                    self.kernel_closed(K::File, fd as u32, "close(2)", ret == 0);
                }
                KEv::Register { op, detail, ret, .. } if op == simk::REGISTER_FILES_UPDATE || op == simk::REGISTER_FILES_UPDATE2 => {
                    for part in detail.split(' ') {
                        if let Some(rest) = part.strip_prefix("slot") {
                            if let Some((n, v)) = rest.split_once(":=") {
                                if let (Ok(n), "-1") = (n.parse::<u32>(), v) {
                                    lines.push(format!("sync-unreg {}", key(K::Direct, n)));
                                    self.feats.push("queue-full-fallback".into());
                                    self.kernel_closed(K::Direct, n, "FILES_UPDATE(-1)", ret >= 0);
                                }
                            }
                        }
                    }
                }
                KEv::BadMemory { what, .. } => self.fail("C07/kernel-memory", format!("kernel out-parameter {what} no longer live")),
                KEv::FreedState { .. } => self.fail("C07/kernel-memory", "completion for a freed operation state".into()),
                _ => {}
            }
        }
    }

    fn do_rpoll(&mut self) -> Vec<String> {
        let mut lines = Vec::new();
        let Some(mut ring) = self.ring.take() else { return vec!["bad-op".into()] };
        let entered_expected = simk::with_ring(self.rfd, |r, _| r.cq_count() == 0);
        let r = util::catch(|| ring.poll(Some(Duration::ZERO)));
        self.ring = Some(ring);
        self.kernel_events(&mut lines, false);
        if !entered_expected {
            lines.insert(0, "noenter".into());
        }
        match r {
            Err(_) => lines.push("panic".into()),
            Ok(Err(e)) => lines.push(format!("error {}", err_num(&e))),
            Ok(Ok(())) => {}
        }
        util::drain_wakes();
        lines
    }

    /// Process the completion just posted (the CQ is not empty, so no enter).
    fn process_cq(&mut self) -> bool {
        let Some(mut ring) = self.ring.take() else { return false };
        let r = util::catch(|| ring.poll(Some(Duration::ZERO)));
        self.ring = Some(ring);
        util::drain_wakes();
        matches!(r, Ok(Ok(())))
    }

    /// The kernel installs a regular descriptor with the script-chosen number `r`.
    fn install_file(&self, r: u32) {
        simk::with_ring(self.rfd, |ring, _| {
            let fd = ring.fresh_fd();
            unsafe {
                simk::raw_syscall(libc::SYS_dup3, fd as i64, r as i64, libc::O_CLOEXEC as i64, 0, 0, 0);
                simk::raw_syscall(libc::SYS_close, fd as i64, 0, 0, 0, 0, 0);
            }
            ring.issued_fds.retain(|f| *f != fd);
            ring.issued_fds.push(r as i32);
        });
    }

    /// `pipe2(2)` calls nobody expected (the trap answered ENOSYS).
    fn stray_sync_calls(&mut self, during: &str) {
        for c in simk::sync_drain() {
            if c.call == "pipe2" {
                self.fail("C07/pipe-fallback/pipe2-unexpected", format!("pipe2(2) called during `{during}`: no live pipe future was reading an EINVAL completion there (the future was dropped, the operation had another result, or it is not a pipe)"));
            }
        }
    }

    fn push_handle(&mut self, obj: HObj, std: bool) -> usize {
        self.handles.push(HSlot { obj: Some(obj), std });
        self.handles.len() - 1
    }

    /// Wrap up `AsyncFd`s returned by operation `i`.
    fn returned(&mut self, i: usize, fds: Vec<AsyncFd>, via_fallback: bool) -> String {
        let mut parts = Vec::new();
        let opkind = if via_fallback { "pipe-fallback".to_string() } else { self.ops[i].kind.clone() };
        for fd in fds {
            let dbg = format!("{fd:?}");
            let raw: u32 = dbg
                .split("fd: ")
                .nth(1)
                .and_then(|s| s.split(|c: char| !c.is_ascii_digit()).next())
                .and_then(|s| s.parse().ok())
                .unwrap_or(u32::MAX);
            let k = K::of(fd.kind());
            let h = self.push_handle(HObj::Fd(Box::into_raw(Box::new(fd))), false);
            parts.push(format!("h{h}={}", key(k, raw)));
            let found = self.descs.iter().position(|d| d.kind == k && d.raw == raw && d.closes == 0 && d.st == St::Pending(i));
            match found {
                Some(d) => {
                    self.descs[d].st = St::Owned(h);
                    self.descs[d].wraps += 1;
                }
                None => {
                    let delivered: Vec<String> = self.descs.iter().filter(|d| d.st == St::Pending(i)).map(|d| key(d.kind, d.raw)).collect();
                    let src = if via_fallback { "pipe2(2) returned" } else { "the kernel delivered" };
                    self.fail(&format!("C07/wrong-wrap/{opkind}"), format!("op{i} ({opkind}) returned an AsyncFd for {} but {src} [{}] to it", key(k, raw), delivered.join(",")));
                }
            }
        }
        if opkind != "maccept" {
            let left: Vec<String> = self.descs.iter().filter(|d| d.st == St::Pending(i)).map(|d| key(d.kind, d.raw)).collect();
            if !left.is_empty() {
                self.fail(&format!("C07/not-wrapped/{opkind}"), format!("op{i} ({opkind}) completed but [{}] {} were not wrapped in an AsyncFd", left.join(","), if via_fallback { "returned by pipe2(2)" } else { "delivered to it" }));
            }
        }
        if parts.is_empty() { "ready ok -".into() } else { format!("ready ok {}", parts.join(" ")) }
    }

    /// `Future::poll` / `poll_next` of operation `i`; `fb` = this poll is expected to
    /// call `pipe2(2)` (a pipe future reading its EINVAL completion), answered with it.
    fn do_poll(&mut self, i: usize, fb: Option<Pipe2>) -> Vec<String> {
        let mut out: Vec<String> = Vec::new();
        let old_tail = self.sq_tail();
        let waker = util::waker(i as u32);
        let mut cx = Context::from_waker(&waker);
        let mut obj = self.ops[i].obj.take().unwrap();
        // what the trapped pipe2(2) answers during this poll (otherwise: ENOSYS, see `exec`)
        match fb {
            Some(Pipe2::Fds(f)) => simk::sync_script(Some(simk::SyncScript { fds: [f[0] as i32, f[1] as i32], ..Default::default() })),
            Some(Pipe2::Errno(e)) => simk::sync_script(Some(simk::SyncScript { errno: Some(e), ..Default::default() })),
            None => {}
        }
        let r = util::catch(|| obj.poll(&mut cx));
        self.ops[i].obj = Some(obj);
        let mut pipe2_line = None;
        if let Some(fb) = fb {
            self.ops[i].einval_due = false;
            let calls: Vec<simk::SyncCall> = simk::sync_drain().into_iter().filter(|c| c.call == "pipe2").collect();
            simk::sync_script(Some(simk::SyncScript { errno: Some(libc::ENOSYS), ..Default::default() }));
            let req = self.ops[i].req.unwrap_or(K::File);
            match calls.len() {
                0 => self.fail("C07/pipe-fallback/pipe2-not-called", format!("op{i} (pipe, requested kind {}) read its EINVAL completion but did not call pipe2(2)", req.name())),
                1 => {}
                n => self.fail("C07/pipe-fallback/pipe2-unexpected", format!("op{i} (pipe) called pipe2(2) {n} times for one EINVAL completion")),
            }
            if let Some(c) = calls.first() {
                match fb {
                    Pipe2::Fds(f) if c.ret == 0 => {
                        // the descriptors pipe2 returned exist from now on: REGULAR ones
                        for r in f {
                            self.install_file(r);
                            if self.descs.iter().any(|d| d.kind == K::File && d.raw == r) {
                                self.feats.push("number-reused".into());
                            }
                            self.descs.push(DescRec {
                                kind: K::File,
                                raw: r,
                                closes: 0,
                                st: St::Pending(i),
                                wraps: 0,
                                opkind: "pipe-fallback".into(),
                                how: "pipe2(2) returned it in the fallback of pipe but the future resolved without wrapping it",
                            });
                        }
                        pipe2_line = Some(format!("pipe2 {}", list(&f)));
                        self.feats.push("pipe-fallback-run".into());
                        self.feats.push(format!("pipe-fallback-run/requested-{}", req.name()));
                    }
                    _ => {
                        pipe2_line = Some(format!("pipe2 err {}", -c.ret));
                        self.feats.push("pipe-fallback-pipe2-failed".into());
                    }
                }
            }
        }
        // an accept whose address decoding panics (`PanicAddr::init`, reached from `map_ok`
        // with a successful result): not the panic of a poll after completion
        let init_panic = r.is_err() && self.ops[i].kind == "acceptp" && self.descs.iter().any(|d| d.st == St::Pending(i));
        match r {
            Err(_) if init_panic => out.push("ready panic".into()),
            Err(_) => out.push("panic".into()),
            Ok(Polled::Pending) => out.push("pending".into()),
            Ok(Polled::Fds(v)) => {
                let line = self.returned(i, v, fb.is_some());
                out.push(line);
            }
            Ok(Polled::Err(e)) => out.push(format!("ready err {e}")),
            Ok(Polled::None) => out.push("ready none".into()),
        }
        if fb.is_some() {
            // whatever the poll returned: nothing pipe2 created may be left unwrapped
            let left: Vec<String> = self.descs.iter().filter(|d| d.st == St::Pending(i)).map(|d| key(d.kind, d.raw)).collect();
            if !left.is_empty() && !out[0].starts_with("ready ok") {
                self.fail("C07/not-wrapped/pipe-fallback", format!("op{i} (pipe): pipe2(2) returned [{}] but the future resolved with `{}`: the descriptors are owned by no AsyncFd and are never closed", left.join(","), out[0]));
            }
            for d in self.descs.iter_mut() {
                if d.st == St::Pending(i) {
                    d.st = St::Lost;
                }
            }
            out.extend(pipe2_line);
        }
        let pend_before = simk::with_ring(self.rfd, |r, _| r.sq_pending());
        let sqes = self.sqes_since(old_tail);
        if sqes.is_empty() && pend_before >= self.sq_len && out[0] == "pending" {
            self.feats.push("queue-full-poll".into());
        }
        let mut panic_requests: Vec<(K, u32)> = Vec::new();
        for sqe in sqes {
            if sqe.user_data <= 3 {
                if init_panic && sqe.opcode == simk::OP_CLOSE {
                    // the unwind dropped the AsyncFd `map_ok` had built
                    let (k, raw) = close_target(&sqe);
                    out.push(format!("close-sqe {}", key(k, raw)));
                    panic_requests.push((k, raw));
                    continue;
                }
                out.push(format!("sqe ? {} ud={}", simk::opcode_name(sqe.opcode), sqe.user_data));
                continue;
            }
            self.ops[i].ud = Some(sqe.user_data);
            if sqe.opcode != simk::OP_CLOSE {
                self.ops[i].ud_inflight = Some(sqe.user_data);
            }
            if sqe.opcode == simk::OP_CLOSE {
                let (k, raw) = close_target(&sqe);
                out.push(format!("sqe op{i} CLOSE {}", key(k, raw)));
                let mut hit = false;
                for d in self.descs.iter_mut() {
                    if d.st == St::CloseFut(i) {
                        d.st = St::Released;
                        hit = d.kind == k && d.raw == raw && d.closes == 0;
                    }
                }
                if !hit {
                    self.fail("C07/close-encoding", format!("Close future op{i} asks the kernel to close {} which is not the descriptor of the AsyncFd it consumed", key(k, raw)));
                }
            } else {
                let alloc = match sqe.opcode {
                    simk::OP_FILES_UPDATE => sqe.off as u32 == u32::MAX,
                    simk::OP_FIXED_FD_INSTALL => false,
                    _ => sqe.file_index == u32::MAX,
                };
                let fixed = sqe.flags & simk::IOSQE_FIXED_FILE != 0;
                out.push(format!("sqe op{i} {} alloc={} fixed={}", simk::opcode_name(sqe.opcode), alloc as u8, fixed as u8));
            }
        }
        if init_panic {
            // the AsyncFd `map_ok` built lived for a moment: its handle number is used up
            // (as in the model, where this poll is a poll followed by the drop of that handle)
            self.handles.push(HSlot { obj: None, std: false });
            let d = self.descs.iter().position(|d| d.st == St::Pending(i)).unwrap();
            let expect = (self.descs[d].kind, self.descs[d].raw);
            self.descs[d].st = St::Released;
            self.descs[d].wraps += 1;
            let n0 = out.len();
            self.kernel_events(&mut out, true);
            for l in &out[n0..] {
                if let Some(rest) = l.strip_prefix("sync-close ").or_else(|| l.strip_prefix("sync-unreg ")) {
                    let kr = rest.split(' ').next().unwrap_or("");
                    if let Some((k, r)) = kr.split_once(':') {
                        let k = if k == "direct" { K::Direct } else { K::File };
                        panic_requests.push((k, r.parse().unwrap_or(u32::MAX)));
                    }
                }
            }
            match panic_requests.as_slice() {
                [r] if *r == expect => {}
                [] => {
                    self.descs[d].st = St::Lost;
                    self.descs[d].wraps -= 1;
                    self.descs[d].how = "the poll that read it panicked while decoding the peer address";
                    self.fail("C07/not-closed/accept-init-panic", format!("op{i} (accept): the kernel returned {} and SocketAddress::init panicked: no close request was issued, the descriptor is owned by no AsyncFd and is never closed", key(expect.0, expect.1)));
                }
                rs => self.fail("C07/wrong-close/accept-init-panic", format!("op{i} (accept): SocketAddress::init panicked after the kernel returned {}; close requests issued: {rs:?}", key(expect.0, expect.1))),
            }
            self.feats.push("accept-init-panicked".into());
        }
        out
    }

    /// `Signals::to_direct_descriptor` (an OWNED conversion: src/io_uring/process.rs:66-101,
    /// `ToDirectOp<Signals>` + `DirectFdMapper::map`), on a second ring of its own: a real
    /// `signalfd` descriptor `r`, the FILES_UPDATE answered with `outcome` (`ok` = slot 0 of the
    /// direct table, `err:<errno>`), then everything is dropped and the second ring torn down.
    /// Observed: how often `r` was closed (CLOSE submissions + `close(2)`), how often the direct
    /// slot was released, and whether `r` is still open at the end.
    fn do_sigdirect(&mut self, outcome: &str) -> Option<Vec<String>> {
        use a10::process::{Signal, Signals};
        let errno: Option<i32> = match outcome {
            "ok" => None,
            o => {
                let e: i32 = o.strip_prefix("err:")?.parse().ok()?;
                if e <= 0 || e >= 4096 || e == libc::EINTR || e == libc::ECANCELED {
                    return None;
                }
                Some(e)
            }
        };
        let pre = simk::drain_events();
        simk::purge_closed_except(self.rfd);
        let held_main = simk::hold_fd(self.rfd);
        let rings_before: Vec<i32> = simk::with_sim(|s| s.rings.keys().copied().collect());
        let built_b = Ring::config().with_submission_queue_size(8).with_direct_descriptors(4).build();
        if held_main {
            simk::release_fd(self.rfd);
        }
        let mut ring_b = match built_b {
            Ok(r) => r,
            Err(e) => return Some(vec![format!("sigdirect setup-failed {e}")]),
        };
        let Some(rfd_b) = simk::with_sim(|s| s.rings.keys().copied().find(|k| !rings_before.contains(k))) else {
            let now: Vec<i32> = simk::with_sim(|s| s.rings.keys().copied().collect());
            return Some(vec![format!("sigdirect no-new-ring before={rings_before:?} now={now:?}")]);
        };
        let sq_b = ring_b.sq();
        let open_fds = || -> Vec<i32> { (3..1024).filter(|fd| raw_fcntl_getfd(*fd) >= 0).collect() };
        let before = open_fds();
        let signals = match Signals::from_signals(sq_b.clone(), [Signal::USER2]) {
            Ok(s) => s,
            Err(e) => return Some(vec![format!("sigdirect signalfd-failed {e}")]),
        };
        let new: Vec<i32> = open_fds().into_iter().filter(|fd| !before.contains(fd)).collect();
        let [r] = new[..] else { return Some(vec![format!("sigdirect signalfd-count {}", new.len())]) };
        // have the interposed close(2) report calls on this descriptor (it only logs descriptors it knows)
        simk::with_ring(rfd_b, |ring, _| ring.issued_fds.push(r));
        let _ = simk::drain_events();
        let waker = util::waker(998);
        let mut cx = Context::from_waker(&waker);
        let mut fut = Box::pin(signals.to_direct_descriptor());
        let first = util::catch(|| fut.as_mut().poll(&mut cx));
        let _ = ring_b.poll(Some(Duration::ZERO));
        let inflight = simk::with_ring(rfd_b, |ring, _| ring.inflight.iter().find(|x| x.sqe.opcode == simk::OP_FILES_UPDATE).map(|x| x.sqe));
        let mut slot: Option<u32> = None;
        if let Some(sqe) = inflight {
            let spec = match errno {
                None => {
                    simk::with_ring(rfd_b, |ring, _| {
                        if let Some(f) = ring.files.as_mut() {
                            f[0] = Some(1);
                        }
                    });
                    unsafe { (sqe.addr as *mut i32).write(0) };
                    slot = Some(0);
                    PostSpec::new(Target::UserData(sqe.user_data), 1, 0)
                }
                Some(e) => PostSpec::new(Target::UserData(sqe.user_data), -e, 0),
            };
            simk::with_ring(rfd_b, |ring, ev| ring.post(&spec, ev));
        }
        let _ = ring_b.poll(Some(Duration::ZERO));
        let second = match first {
            Ok(Poll::Pending) => util::catch(|| fut.as_mut().poll(&mut cx)),
            other => other,
        };
        let head = match second {
            Err(_) => "panic".to_string(),
            Ok(Poll::Pending) => "pending".to_string(),
            Ok(Poll::Ready(Ok(sig))) => {
                drop(sig);
                "ok".to_string()
            }
            Ok(Poll::Ready(Err(e))) => format!("err {}", err_num(&e)),
        };
        drop(fut);
        let _ = ring_b.poll(Some(Duration::ZERO));
        drop(sq_b);
        drop(ring_b);
        let mut regular = 0;
        let mut direct = 0;
        for e in simk::drain_events() {
            match e {
                KEv::CloseReq { fd, direct: false, .. } if fd == r => regular += 1,
                KEv::CloseFd { fd, .. } if fd == r => regular += 1,
                KEv::CloseReq { fd, direct: true, .. } if Some(fd as u32) == slot => direct += 1,
                KEv::Register { op, detail, .. } if (op == simk::REGISTER_FILES_UPDATE || op == simk::REGISTER_FILES_UPDATE2) && slot.is_some() && detail.contains("slot0:=-1") => direct += 1,
                _ => {}
            }
        }
        let still_open = raw_fcntl_getfd(r) >= 0;
        if still_open {
            unsafe { simk::raw_syscall(libc::SYS_close, r as i64, 0, 0, 0, 0, 0) };
        }
        let _ = util::drain_wakes();
        // the events of this component's own ring that were pending are not lost
        simk::with_sim(|sim| {
            let mut keep = pre;
            keep.append(&mut sim.events);
            sim.events = keep;
        });
        self.feats.push(format!("signals-to-direct/{}", if errno.is_some() { "err" } else { "ok" }));
        let want_direct = if errno.is_none() { 1 } else { 0 };
        if regular != 1 || still_open {
            let what = format!("Signals::to_direct_descriptor ({outcome}): the signalfd descriptor {r} was closed {regular} times{}", if still_open { " and is still open after everything was dropped" } else { "" });
            self.fail(&format!("C07/{}/signals", if regular > 1 { "closed-twice" } else { "never-closed" }), what);
        }
        if direct != want_direct {
            self.fail("C07/direct-release/signals", format!("Signals::to_direct_descriptor ({outcome}): the direct slot was released {direct} times, expected {want_direct}"));
        }
        Some(vec![format!("sigdirect {head} regular-closes={regular} direct-releases={direct} regular-open={}", u8::from(still_open))])
    }

    /// `AsyncFd::try_clone` (src/fd.rs:158-162) on a ring of its own: the clone owns a NEW regular
    /// descriptor (dup of the original); dropping the two handles in either order (`ab` / `ba`) closes
    /// each descriptor exactly once.
    fn do_tryclone(&mut self, order: &str) -> Option<Vec<String>> {
        if !matches!(order, "ab" | "ba") {
            return None;
        }
        let pre = simk::drain_events();
        simk::purge_closed_except(self.rfd);
        let held_main = simk::hold_fd(self.rfd);
        let rings_before: Vec<i32> = simk::with_sim(|s| s.rings.keys().copied().collect());
        let built_b = Ring::config().with_submission_queue_size(8).with_direct_descriptors(4).build();
        if held_main {
            simk::release_fd(self.rfd);
        }
        let mut ring_b = match built_b {
            Ok(r) => r,
            Err(e) => return Some(vec![format!("tryclone setup-failed {e}")]),
        };
        let Some(rfd_b) = simk::with_sim(|s| s.rings.keys().copied().find(|k| !rings_before.contains(k))) else {
            return Some(vec!["tryclone no-new-ring".into()]);
        };
        let sq_b = ring_b.sq();
        let line;
        {
            let r = simk::with_ring(rfd_b, |ring, _| ring.fresh_fd());
            let a = unsafe { AsyncFd::from_raw_fd(r, sq_b.clone()) };
            let open_fds = || -> Vec<i32> { (3..1024).filter(|fd| raw_fcntl_getfd(*fd) >= 0).collect() };
            let before = open_fds();
            let b = match util::catch(|| a.try_clone()) {
                Ok(Ok(b)) => b,
                Ok(Err(e)) => {
                    drop(a);
                    return Some(vec![format!("tryclone err {}", err_num(&e))]);
                }
                Err(_) => return Some(vec!["tryclone panic".into()]),
            };
            let new: Vec<i32> = open_fds().into_iter().filter(|fd| !before.contains(fd)).collect();
            let r2 = new.first().copied().unwrap_or(-1);
            if r2 >= 0 {
                simk::with_ring(rfd_b, |ring, _| ring.issued_fds.push(r2));
            }
            let _ = simk::drain_events();
            if order == "ab" {
                drop(a);
                let _ = ring_b.poll(Some(Duration::ZERO));
                drop(b);
            } else {
                drop(b);
                let _ = ring_b.poll(Some(Duration::ZERO));
                drop(a);
            }
            let _ = ring_b.poll(Some(Duration::ZERO));
            let (mut ca, mut cb) = (0, 0);
            for e in simk::drain_events() {
                match e {
                    KEv::CloseReq { fd, direct: false, .. } | KEv::CloseFd { fd, .. } if fd == r => ca += 1,
                    KEv::CloseReq { fd, direct: false, .. } | KEv::CloseFd { fd, .. } if fd == r2 => cb += 1,
                    _ => {}
                }
            }
            let distinct = new.len() == 1 && r2 != r;
            let open_a = raw_fcntl_getfd(r) >= 0;
            let open_b = r2 >= 0 && raw_fcntl_getfd(r2) >= 0;
            if !distinct || ca != 1 || cb != 1 || open_a || open_b {
                self.fail("C07/try-clone/ownership", format!("try_clone: original descriptor {r} closed {ca} times (open: {open_a}), the clone's descriptor {r2} closed {cb} times (open: {open_b}), new descriptors created: {}", new.len()));
            }
            for fd in [r, r2] {
                if fd >= 0 && raw_fcntl_getfd(fd) >= 0 {
                    unsafe { simk::raw_syscall(libc::SYS_close, fd as i64, 0, 0, 0, 0, 0) };
                }
            }
            line = format!("tryclone ok distinct={} closes={ca},{cb} open={},{}", u8::from(distinct), u8::from(open_a), u8::from(open_b));
        }
        drop(sq_b);
        drop(ring_b);
        let _ = simk::drain_events();
        let _ = util::drain_wakes();
        simk::with_sim(|sim| {
            let mut keep = pre;
            keep.append(&mut sim.events);
            sim.events = keep;
        });
        self.feats.push(format!("try-clone/{order}"));
        Some(vec![line])
    }

    fn exec_inner(&mut self, op: &str) -> Vec<String> {
        let t: Vec<&str> = op.split(' ').collect();
        let mut out: Vec<String> = Vec::new();
        let bad = || vec!["bad-op".to_string()];
        match t.as_slice() {
            ["fds", "std", a, w] => {
                let (Ok(a), Ok(w)) = (a.parse::<usize>(), w.parse::<u32>()) else { return bad() };
                if a != self.handles.len() || w >= 3 {
                    return bad();
                }
                let sq = self.sq.clone().unwrap();
                let obj = match w {
                    0 => HObj::In(Box::into_raw(Box::new(a10::io::stdin(sq)))),
                    1 => HObj::Out(Box::into_raw(Box::new(a10::io::stdout(sq)))),
                    _ => HObj::Err(Box::into_raw(Box::new(a10::io::stderr(sq)))),
                };
                self.push_handle(obj, true);
                self.feats.push("std-handle".into());
                out.push("ok".into());
            }
            ["fds", "new", i, kind, arg] => {
                let Ok(i) = i.parse::<usize>() else { return bad() };
                if i != self.ops.len() {
                    return bad();
                }
                let sq = self.sq.clone().unwrap();
                let mut on = None;
                let mut req = None;
                let obj: Box<dyn Pollable> = match *kind {
                    "open" | "socket" | "pipe" => {
                        let k = match *arg {
                            "file" => Kind::File,
                            "direct" => Kind::Direct,
                            _ => return bad(),
                        };
                        req = Some(K::of(k));
                        match *kind {
                            "open" => {
                                let fut = a10::fs::OpenOptions::new().kind(k).open(sq, "/dev/null".into());
                                Box::new(FutOp { fut: Box::pin(fut), conv: |fd: AsyncFd| vec![fd] })
                            }
                            "socket" => {
                                let fut = a10::net::socket(sq, a10::net::Domain::IPV4, a10::net::Type::STREAM, None).kind(k);
                                Box::new(FutOp { fut: Box::pin(fut), conv: |fd: AsyncFd| vec![fd] })
                            }
                            _ => {
                                let fut = a10::pipe::pipe(sq).kind(k);
                                Box::new(FutOp { fut: Box::pin(fut), conv: |fds: [AsyncFd; 2]| Vec::from(fds) })
                            }
                        }
                    }
                    "accept" | "acceptp" | "maccept" | "todirect" | "tofd" => {
                        let Ok(a) = arg.parse::<usize>() else { return bad() };
                        let Some(fd) = self.handles.get(a).and_then(|h| h.afd()) else { return bad() };
                        let hk = K::of(fd.kind());
                        if (*kind == "todirect" && hk != K::File) || (*kind == "tofd" && hk != K::Direct) {
                            return bad();
                        }
                        on = Some(a);
                        match *kind {
                            "accept" => Box::new(FutOp {
                                fut: Box::pin(fd.accept::<a10::net::NoAddress>()),
                                conv: |(fd, _): (AsyncFd, a10::net::NoAddress)| vec![fd],
                            }),
                            "acceptp" => {
                                self.feats.push("accept-init-panics".into());
                                Box::new(FutOp { fut: Box::pin(fd.accept::<PanicAddr>()), conv: |(fd, _): (AsyncFd, PanicAddr)| vec![fd] })
                            }
                            "maccept" => Box::new(MAccept(Box::pin(fd.multishot_accept()))),
                            "todirect" => Box::new(FutOp { fut: Box::pin(fd.to_direct_descriptor()), conv: |fd: AsyncFd| vec![fd] }),
                            _ => Box::new(FutOp { fut: Box::pin(fd.to_file_descriptor()), conv: |fd: AsyncFd| vec![fd] }),
                        }
                    }
                    "close" => {
                        let Ok(a) = arg.parse::<usize>() else { return bad() };
                        if !self.live_handle(a) || self.handles[a].std || self.borrowed(a) {
                            return bad();
                        }
                        let Some(HObj::Fd(p)) = self.handles[a].obj.take() else { return bad() };
                        let fd: AsyncFd = *unsafe { Box::from_raw(p) };
                        for d in self.descs.iter_mut() {
                            if d.st == St::Owned(a) {
                                d.st = St::CloseFut(i);
                            }
                        }
                        self.feats.push("explicit-close".into());
                        Box::new(FutOp { fut: Box::pin(fd.close()), conv: |(): ()| Vec::new() })
                    }
                    _ => return bad(),
                };
                self.ops.push(OpSlot { kind: kind.to_string(), obj: Some(obj), on, ud_inflight: None, ud: None, req, einval_due: false });
                out.push("ok".into());
            }
            ["fds", "poll", i] => {
                let Ok(i) = i.parse::<usize>() else { return bad() };
                if i >= self.ops.len() || self.ops[i].obj.is_none() {
                    return bad();
                }
                if self.ops[i].einval_due {
                    // this poll calls pipe2(2): the script has to say what it answers
                    return bad();
                }
                out = self.do_poll(i, None);
            }
            ["fds", "poll", i, what @ ("pipe2" | "pipe2-err"), arg] => {
                let Ok(i) = i.parse::<usize>() else { return bad() };
                // parse the payload first (a malformed line is bad-op on both sides)
                let mut raws: Vec<u64> = Vec::new();
                let mut errno = 0u64;
                if *what == "pipe2" {
                    if !(arg.is_empty() || *arg == "-") {
                        for p in arg.split(',') {
                            let Ok(x) = p.parse::<u64>() else { return bad() };
                            raws.push(x);
                        }
                    }
                } else {
                    let Ok(e) = arg.parse::<u64>() else { return bad() };
                    errno = e;
                }
                if i >= self.ops.len() || self.ops[i].obj.is_none() || !self.ops[i].einval_due {
                    return bad();
                }
                let fb = if *what == "pipe2-err" {
                    if errno == 0 || errno >= 4096 {
                        return bad();
                    }
                    Pipe2::Errno(errno as i32)
                } else {
                    if raws.len() != 2 {
                        return bad();
                    }
                    // KC8 at the moment of the call: not open, in range, distinct
                    let mut ok = raws[0] != raws[1];
                    for r in &raws {
                        ok &= *r < 2147483648 && *r >= FLO as u64 && *r < FHI as u64 && raw_fcntl_getfd(*r as i32) < 0;
                    }
                    if !ok {
                        return vec!["bad-raw".into()];
                    }
                    Pipe2::Fds([raws[0] as u32, raws[1] as u32])
                };
                out = self.do_poll(i, Some(fb));
            }
            ["fds", "dropop", i] => {
                let Ok(i) = i.parse::<usize>() else { return bad() };
                if i >= self.ops.len() || self.ops[i].obj.is_none() {
                    return bad();
                }
                let old_tail = self.sq_tail();
                let obj = self.ops[i].obj.take();
                if self.ops[i].einval_due {
                    // dropped before the poll that would have called pipe2(2): nothing is created
                    self.ops[i].einval_due = false;
                    self.feats.push("pipe-fallback-skipped-dropped".into());
                }
                let _ = util::catch(move || drop(obj));
                let sqes = self.sqes_since(old_tail);
                let mut cancelled = false;
                for sqe in sqes {
                    if sqe.opcode == simk::OP_ASYNC_CANCEL && Some(sqe.addr) == self.ops[i].ud && sqe.user_data == 2 {
                        cancelled = true;
                    } else {
                        out.push(format!("sqe ? {} ud={}", simk::opcode_name(sqe.opcode), sqe.user_data));
                    }
                }
                out.insert(0, if cancelled { "cancel".into() } else { "-".into() });
                let in_flight = self.ops[i].ud_inflight.is_some();
                let mut lost_any = false;
                for d in self.descs.iter_mut() {
                    if d.st == St::Pending(i) {
                        d.st = St::Lost;
                        d.how = "its result was stored in the operation state when the future was dropped";
                        lost_any = true;
                    } else if d.st == St::CloseFut(i) {
                        d.st = St::Forfeited;
                    }
                }
                if lost_any {
                    self.feats.push("abandoned-with-unread-result".into());
                }
                if in_flight {
                    self.feats.push("drop-in-flight".into());
                }
            }
            ["fds", "dropfail", a, e] => {
                // the handle is dropped while `io_uring_enter` would fail with errno `e` (a10 does not
                // enter the kernel when an `AsyncFd` is dropped, so this is `drop`)
                let Ok(e) = e.parse::<i32>() else { return bad() };
                if !(1..4096).contains(&e) || e == libc::EINTR || e == libc::ETIME {
                    return bad();
                }
                simk::with_ring(self.rfd, |r, _| {
                    r.enter_scripts.clear();
                    r.enter_scripts.push_back(simk::EnterScript { fail: Some(e), ..Default::default() });
                });
                let line = format!("fds drop {a}");
                out = self.exec_inner(&line);
                simk::with_ring(self.rfd, |r, _| r.enter_scripts.clear());
                self.feats.push("drop-while-enter-fails".into());
            }
            ["fds", "rpollfail", e] => {
                let Ok(e) = e.parse::<i32>() else { return bad() };
                if !(1..4096).contains(&e) || e == libc::EINTR || e == libc::ETIME {
                    return bad();
                }
                simk::with_ring(self.rfd, |r, _| {
                    r.enter_scripts.clear();
                    r.enter_scripts.push_back(simk::EnterScript { fail: Some(e), ..Default::default() });
                });
                out = self.do_rpoll();
                simk::with_ring(self.rfd, |r, _| r.enter_scripts.clear());
                self.feats.push("ring-poll-enter-fails".into());
            }
            ["fds", "drop", a] => {
                let Ok(a) = a.parse::<usize>() else { return bad() };
                if !self.live_handle(a) || self.borrowed(a) {
                    return bad();
                }
                let old_tail = self.sq_tail();
                let full = simk::with_ring(self.rfd, |r, _| r.sq_pending()) >= self.sq_len;
                let std = self.handles[a].std;
                let obj = self.handles[a].obj.take().unwrap();
                let _ = util::catch(move || unsafe {
                    match obj {
                        HObj::Fd(p) => drop(Box::from_raw(p)),
                        HObj::In(p) => drop(Box::from_raw(p)),
                        HObj::Out(p) => drop(Box::from_raw(p)),
                        HObj::Err(p) => drop(Box::from_raw(p)),
                    }
                });
                let owned = self.descs.iter().position(|d| d.st == St::Owned(a));
                if let Some(d) = owned {
                    self.descs[d].st = St::Released;
                }
                let expect = owned.map(|d| (self.descs[d].kind, self.descs[d].raw));
                let mut requests: Vec<(K, u32)> = Vec::new();
                for sqe in self.sqes_since(old_tail) {
                    if sqe.opcode == simk::OP_CLOSE {
                        let (k, raw) = close_target(&sqe);
                        out.push(format!("close-sqe {}", key(k, raw)));
                        requests.push((k, raw));
                        if sqe.user_data != 3 || sqe.flags & simk::IOSQE_CQE_SKIP_SUCCESS == 0 {
                            self.fail("C07/close-encoding", format!("CLOSE queued by Drop has user_data {} flags {:#x} (expected 3 and CQE_SKIP_SUCCESS)", sqe.user_data, sqe.flags));
                        }
                        if k == K::File && raw < 3 {
                            self.fail("C07/std-closed", format!("CLOSE queued for standard stream descriptor {raw}"));
                        }
                    } else {
                        out.push(format!("sqe ? {} ud={}", simk::opcode_name(sqe.opcode), sqe.user_data));
                    }
                }
                let n0 = out.len();
                self.kernel_events(&mut out, true);
                for l in &out[n0..] {
                    if let Some(rest) = l.strip_prefix("sync-close ").or_else(|| l.strip_prefix("sync-unreg ")) {
                        let kr = rest.split(' ').next().unwrap_or("");
                        if let Some((k, r)) = kr.split_once(':') {
                            let k = if k == "direct" { K::Direct } else { K::File };
                            requests.push((k, r.parse().unwrap_or(u32::MAX)));
                        }
                    }
                }
                if std {
                    if !requests.is_empty() {
                        self.fail("C07/std-closed", format!("dropping a standard stream handle issued close requests {requests:?}"));
                    }
                } else {
                    match (expect, requests.as_slice()) {
                        (Some(e), [r]) if e == *r => {}
                        (Some(e), []) => self.fail(&format!("C07/no-close-on-drop/{}", e.0.name()), format!("dropping AsyncFd h{a} ({}) issued no close request", key(e.0, e.1))),
                        (Some(e), [r]) => self.fail(&format!("C07/wrong-close-target/{}", e.0.name()), format!("dropping AsyncFd h{a} which owns {} asked the kernel to close {}", key(e.0, e.1), key(r.0, r.1))),
                        (Some(e), rs) => self.fail(&format!("C07/double-close/{}", e.0.name()), format!("dropping AsyncFd h{a} ({}) issued {} close requests", key(e.0, e.1), rs.len())),
                        (None, _) => {}
                    }
                    if full && !requests.is_empty() {
                        self.feats.push("drop-with-full-queue".into());
                    }
                }
                if out.is_empty() {
                    out.push("-".into());
                }
            }
            ["fds", "kpost", i, what, arg, more] => {
                let Ok(i) = i.parse::<usize>() else { return bad() };
                let more: u8 = match *more {
                    "0" => 0,
                    "1" => 1,
                    _ => return bad(),
                };
                if *what != "ok" && *what != "err" {
                    return bad();
                }
                // parse the payload first (a malformed line is bad-op on both sides)
                let raws: Vec<u64> = if *what == "ok" {
                    if arg.is_empty() || *arg == "-" {
                        Vec::new()
                    } else {
                        let mut v = Vec::new();
                        for p in arg.split(',') {
                            let Ok(x) = p.parse::<u64>() else { return bad() };
                            v.push(x);
                        }
                        v
                    }
                } else {
                    Vec::new()
                };
                let errno: u64 = if *what == "err" {
                    let Ok(e) = arg.parse::<u64>() else { return bad() };
                    e
                } else {
                    0
                };
                let more = more == 1;
                let Some(ud) = self.ops.get(i).and_then(|o| o.ud_inflight) else { return vec!["miss".into()] };
                let Some(sqe) = simk::with_ring(self.rfd, |r, _| r.inflight.iter().find(|x| x.sqe.user_data == ud).map(|x| x.sqe)) else {
                    return vec!["miss".into()];
                };
                let opkind = self.ops[i].kind.clone();
                if opkind == "close" || (more && opkind != "maccept") {
                    return bad();
                }
                let flags = if more { CQE_F_MORE } else { 0 };
                if *what == "err" {
                    if errno == 0 || errno >= 4096 || more {
                        return bad();
                    }
                    let spec = PostSpec::new(Target::UserData(ud), -(errno as i32), flags);
                    simk::with_ring(self.rfd, |r, ev| r.post(&spec, ev));
                    if !more {
                        self.ops[i].ud_inflight = None;
                    }
                    let ok = self.process_cq();
                    if errno as i32 == libc::EINTR || errno as i32 == libc::ECANCELED {
                        self.feats.push("restartable-error".into());
                    }
                    if errno as i32 == libc::EINVAL {
                        // "kernel too old": an error like any other, except that the next poll of
                        // a live pipe future calls pipe2(2)
                        let live = self.ops[i].obj.is_some();
                        let what = match self.ops[i].req {
                            Some(k) if opkind == "pipe" => format!("pipe-{}", k.name()),
                            _ => opkind.clone(),
                        };
                        self.feats.push(format!("einval/{what}{}", if live { "" } else { "/abandoned" }));
                        if opkind == "pipe" && live && ok {
                            self.ops[i].einval_due = true;
                        }
                    }
                    out.push(if ok { "posted err".into() } else { "panic".into() });
                } else {
                    let k = issue_kind(&sqe);
                    let arity = if sqe.opcode == simk::OP_PIPE { 2 } else { 1 };
                    if raws.len() != arity {
                        return bad();
                    }
                    // KC8: fresh, in range, pairwise distinct
                    let mut ok = raws.len() < 2 || raws[0] != raws[1];
                    for r in &raws {
                        ok &= *r < 2147483648;
                        ok &= match k {
                            K::File => *r >= FLO as u64 && *r < FHI as u64 && raw_fcntl_getfd(*r as i32) < 0,
                            K::Direct => *r >= self.slo as u64 && *r < self.slots as u64 && simk::with_ring(self.rfd, |ring, _| ring.files.as_ref().and_then(|f| f.get(*r as usize)).is_some_and(|s| s.is_none())),
                        };
                    }
                    if !ok {
                        return vec!["bad-raw".into()];
                    }
                    let raws: Vec<u32> = raws.iter().map(|r| *r as u32).collect();
                    // the kernel installs the descriptors …
                    for r in &raws {
                        match k {
                            K::File => simk::with_ring(self.rfd, |ring, _| {
                                let fd = ring.fresh_fd();
                                unsafe {
                                    simk::raw_syscall(libc::SYS_dup3, fd as i64, *r as i64, libc::O_CLOEXEC as i64, 0, 0, 0);
                                    simk::raw_syscall(libc::SYS_close, fd as i64, 0, 0, 0, 0, 0);
                                }
                                ring.issued_fds.retain(|f| *f != fd);
                                ring.issued_fds.push(*r as i32);
                            }),
                            K::Direct => simk::with_ring(self.rfd, |ring, _| {
                                ring.files.as_mut().unwrap()[*r as usize] = Some(1);
                            }),
                        }
                        if self.descs.iter().any(|d| d.kind == k && d.raw == *r) {
                            self.feats.push("number-reused".into());
                        }
                        let live = self.ops[i].obj.is_some();
                        self.descs.push(DescRec {
                            kind: k,
                            raw: *r,
                            closes: 0,
                            st: if live { St::Pending(i) } else { St::Lost },
                            wraps: 0,
                            opkind: opkind.clone(),
                            how: "the completion arrived after the future was dropped",
                        });
                        if !live {
                            self.feats.push("abandoned-late-result".into());
                        }
                        if k == K::Direct {
                            self.feats.push("direct-descriptor".into());
                        }
                    }
                    // … writes the out-parameters …
                    let res = match sqe.opcode {
                        simk::OP_PIPE => {
                            unsafe {
                                let p = sqe.addr as *mut i32;
                                p.write(raws[0] as i32);
                                p.add(1).write(raws[1] as i32);
                            }
                            0
                        }
                        simk::OP_FILES_UPDATE => {
                            unsafe { (sqe.addr as *mut i32).write(raws[0] as i32) };
                            1
                        }
                        _ => raws[0] as i32,
                    };
                    // … and posts the completion, which a10 processes at once.
                    let spec = PostSpec::new(Target::UserData(ud), res, flags);
                    simk::with_ring(self.rfd, |r, ev| r.post(&spec, ev));
                    if !more {
                        self.ops[i].ud_inflight = None;
                    } else {
                        self.feats.push("multishot-more".into());
                    }
                    let done = self.process_cq();
                    out.push(if done { format!("posted {}", raws.iter().map(|r| key(k, *r)).collect::<Vec<_>>().join(",")) } else { "panic".into() });
                }
            }
            ["fds", "tryclone", order] => {
                out = match self.do_tryclone(order) {
                    Some(l) => l,
                    None => return bad(),
                };
            }
            ["fds", "sigdirect", outcome] => {
                out = match self.do_sigdirect(outcome) {
                    Some(l) => l,
                    None => return bad(),
                };
            }
            ["fds", "rpoll"] => {
                out = self.do_rpoll();
            }
            ["fds", "end"] => {
                if simk::with_ring(self.rfd, |r, _| r.sq_pending()) > 0 {
                    out = self.do_rpoll();
                }
                out.extend(self.dump());
                self.check_quiescent();
            }
            _ => return bad(),
        }
        // Events not attributed above (there should be none that matter).
        let mut extra = Vec::new();
        self.kernel_events(&mut extra, true);
        out.extend(extra);
        out
    }

    fn dump(&mut self) -> Vec<String> {
        self.descs
            .iter()
            .enumerate()
            .map(|(d, e)| format!("d{d} {} closes={} {}", key(e.kind, e.raw), e.closes, e.st.show()))
            .collect()
    }

    /// Quiescence (nothing queued, nothing unprocessed): every descriptor the
    /// kernel handed out has been closed exactly once or has a live owner.
    fn check_quiescent(&mut self) {
        let mut fails: Vec<(String, String)> = Vec::new();
        for (d, e) in self.descs.iter().enumerate() {
            let k = key(e.kind, e.raw);
            // the kernel's own table
            let later_open = self.descs.iter().skip(d + 1).any(|x| x.kind == e.kind && x.raw == e.raw && x.closes == 0);
            let really_open = match e.kind {
                K::File => raw_fcntl_getfd(e.raw as i32) >= 0,
                K::Direct => simk::with_ring(self.rfd, |r, _| r.files.as_ref().and_then(|f| f.get(e.raw as usize)).is_some_and(|s| s.is_some())),
            };
            if e.closes == 0 && !really_open {
                fails.push(("C07/table-mismatch".into(), format!("d{d} {k} was never closed through a request the kernel saw, but it is not open any more")));
            }
            if e.closes >= 1 && really_open && !later_open {
                fails.push(("C07/table-mismatch".into(), format!("d{d} {k} was closed but the descriptor is still open")));
            }
            if e.closes > 1 {
                fails.push((format!("C07/double-close/{}", e.kind.name()), format!("d{d} {k} closed {} times", e.closes)));
            }
            if e.wraps > 1 {
                fails.push(("C07/wrapped-twice".into(), format!("d{d} {k} wrapped in {} AsyncFds", e.wraps)));
            }
            match &e.st {
                St::Closed | St::Owned(_) | St::Pending(_) | St::CloseFut(_) | St::Forfeited => {}
                St::Released => fails.push((format!("C07/not-closed/{}", e.kind.name()), format!("d{d} {k}: its AsyncFd is gone, nothing is queued, the kernel never closed it"))),
                St::Lost if e.opkind == "pipe-fallback" => fails.push((
                    "C07/never-closed/pipe-fallback".into(),
                    format!("d{d} {k}: {}; it is owned by no AsyncFd and is never closed", e.how),
                )),
                // reported when it happened (`C07/not-closed/accept-init-panic`)
                St::Lost if e.how.starts_with("the poll that read it panicked") => {}
                St::Lost => {
                    // an abandoned accept is an abandoned accept, whatever its address type
                    let opkind = if e.opkind == "acceptp" { "accept" } else { e.opkind.as_str() };
                    fails.push((
                        format!("C07/abandoned-fd/{opkind}"),
                        format!("d{d} {k} delivered to an abandoned {opkind} operation ({}) is never wrapped in an AsyncFd and never closed", e.how),
                    ))
                }
            }
        }
        for (sig, what) in fails {
            self.fail(&sig, what);
        }
    }

    /// Regular descriptor numbers / direct slots currently open (oracle view).
    fn open_raws(&self, k: K) -> Vec<u32> {
        self.descs.iter().filter(|d| d.kind == k && d.closes == 0).map(|d| d.raw).collect()
    }

    fn gen_raws(&self, rng: &mut Rng, k: K, n: usize) -> Option<Vec<u32>> {
        let open = self.open_raws(k);
        let mut free: Vec<u32> = match k {
            // a small window so that numbers are reused soon after they are closed
            K::File => (FLO..FLO + 8).filter(|r| !open.contains(r)).collect(),
            K::Direct => (self.slo..self.slots).filter(|r| !open.contains(r)).collect(),
        };
        let mut v = Vec::new();
        for _ in 0..n {
            if free.is_empty() {
                return None;
            }
            let idx = rng.below(free.len() as u64) as usize;
            v.push(free.remove(idx));
        }
        Some(v)
    }
}

impl FdsCase {
    fn gen_pipe2_poll(&self, rng: &mut Rng, i: usize) -> String {
        if rng.chance(1, 7) {
            return format!("fds poll {i} pipe2-err {}", *rng.pick(&[libc::EMFILE, libc::ENFILE, libc::ENOMEM]));
        }
        match self.gen_raws(rng, K::File, 2) {
            Some(raws) => format!("fds poll {i} pipe2 {}", list(&raws)),
            None => format!("fds poll {i} pipe2-err {}", libc::EMFILE),
        }
    }
}

fn list(v: &[u32]) -> String {
    v.iter().map(|x| x.to_string()).collect::<Vec<_>>().join(",")
}

impl Case for FdsCase {
    fn next_op(&mut self, rng: &mut Rng) -> Option<String> {
        if self.ended || self.poisoned {
            return None;
        }
        let live_ops: Vec<usize> = (0..self.ops.len()).filter(|i| self.ops[*i].obj.is_some()).collect();
        let live_h: Vec<usize> = (0..self.handles.len()).filter(|a| self.live_handle(*a)).collect();
        if self.steps_left == 0 {
            let cleanup = *self.cleanup.get_or_insert_with(|| rng.chance(3, 4));
            if cleanup {
                if let Some(i) = live_ops.first() {
                    return Some(format!("fds dropop {i}"));
                }
                if let Some(a) = live_h.first() {
                    return Some(format!("fds drop {a}"));
                }
            }
            self.ended = true;
            return Some("fds end".into());
        }
        self.steps_left -= 1;
        // an EINVAL completion of a live pipe future is usually followed at once by the poll
        // that calls pipe2(2) (two fresh regular numbers, sometimes an errno) or by its drop
        let due: Vec<usize> = live_ops.iter().copied().filter(|i| self.ops[*i].einval_due).collect();
        if !due.is_empty() && rng.chance(2, 3) {
            let i = *rng.pick(&due);
            if rng.chance(1, 6) {
                return Some(format!("fds dropop {i}"));
            }
            return Some(self.gen_pipe2_poll(rng, i));
        }
        if rng.chance(1, 60) {
            return Some(format!("fds tryclone {}", *rng.pick(&["ab", "ba"])));
        }
        // an owned conversion on a ring of its own (Signals::to_direct_descriptor)
        if rng.chance(1, 40) {
            let o = match rng.below(4) {
                0 | 1 => "ok".to_string(),
                _ => format!("err:{}", *rng.pick(&[libc::ENXIO, libc::ENFILE, libc::EINVAL, libc::EBADF, libc::ENOMEM, libc::EMFILE])),
            };
            return Some(format!("fds sigdirect {o}"));
        }
        let inflight: Vec<usize> = simk::with_ring(self.rfd, |r, _| {
            (0..self.ops.len())
                .filter(|i| self.ops[*i].ud_inflight.is_some_and(|ud| r.inflight.iter().any(|x| x.sqe.user_data == ud)))
                .collect()
        });
        let droppable: Vec<usize> = live_h.iter().copied().filter(|a| !self.borrowed(*a)).collect();
        let kind_of = |a: usize| self.handles[a].afd().map(|f| K::of(f.kind()));
        let file_h: Vec<usize> = live_h.iter().copied().filter(|a| kind_of(*a) == Some(K::File)).collect();
        let direct_h: Vec<usize> = live_h.iter().copied().filter(|a| kind_of(*a) == Some(K::Direct)).collect();
        let closable: Vec<usize> = droppable.iter().copied().filter(|a| !self.handles[*a].std).collect();
        let can_new = self.ops.len() < 10;
        let w_create = if can_new { 5 } else { 0 };
        let w_accept = if can_new && !live_h.is_empty() { 4 } else { 0 };
        let w_conv = if can_new && self.slots > 0 && (!file_h.is_empty() || !direct_h.is_empty()) { 2 } else { 0 };
        let w_close = if can_new && !closable.is_empty() { 3 } else { 0 };
        let w_poll = if live_ops.is_empty() { 0 } else { 9 };
        let w_dropop = if live_ops.is_empty() { 0 } else { 2 };
        let w_kpost = if inflight.is_empty() { 0 } else { 9 };
        let w_rpoll = 5;
        let w_droph = if droppable.is_empty() { 0 } else { 4 };
        let w_std = if self.handles.iter().filter(|h| h.std).count() < 2 { 1 } else { 0 };
        let w_bad = if rng.chance(1, 20) { 2 } else { 0 };
        let n = self.ops.len();
        let pick_kind = |rng: &mut Rng, slots: u32| if slots > 0 && rng.chance(1, 2) { "direct" } else { "file" };
        match rng.weighted(&[w_create, w_accept, w_conv, w_close, w_poll, w_dropop, w_kpost, w_rpoll, w_droph, w_std, w_bad]) {
            0 => {
                let kind = *rng.pick(&["open", "socket", "pipe"]);
                Some(format!("fds new {n} {kind} {}", pick_kind(rng, self.slots)))
            }
            1 => {
                // mostly real descriptors as listeners, sometimes a standard stream
                let non_std: Vec<usize> = live_h.iter().copied().filter(|a| !self.handles[*a].std).collect();
                let a = if !non_std.is_empty() && rng.chance(9, 10) { *rng.pick(&non_std) } else { *rng.pick(&live_h) };
                let kind = if rng.chance(1, 6) { "acceptp" } else if rng.chance(1, 2) { "accept" } else { "maccept" };
                Some(format!("fds new {n} {kind} {a}"))
            }
            2 => {
                if !file_h.is_empty() && (direct_h.is_empty() || rng.chance(1, 2)) {
                    Some(format!("fds new {n} todirect {}", rng.pick(&file_h)))
                } else {
                    Some(format!("fds new {n} tofd {}", rng.pick(&direct_h)))
                }
            }
            3 => Some(format!("fds new {n} close {}", rng.pick(&closable))),
            4 => {
                let i = *rng.pick(&live_ops);
                if self.ops[i].einval_due { Some(self.gen_pipe2_poll(rng, i)) } else { Some(format!("fds poll {i}")) }
            }
            5 => {
                // prefer abandoning operations whose submission is in flight
                let i = if !inflight.is_empty() && rng.chance(2, 3) {
                    let c: Vec<usize> = inflight.iter().copied().filter(|i| live_ops.contains(i)).collect();
                    if c.is_empty() { *rng.pick(&live_ops) } else { *rng.pick(&c) }
                } else {
                    *rng.pick(&live_ops)
                };
                Some(format!("fds dropop {i}"))
            }
            6 => {
                let i = *rng.pick(&inflight);
                let multi = self.ops[i].kind == "maccept";
                let more = if multi && rng.chance(3, 4) { 1 } else { 0 };
                let sqe = self.ops[i].ud_inflight.and_then(|ud| simk::with_ring(self.rfd, |r, _| r.inflight.iter().find(|x| x.sqe.user_data == ud).map(|x| x.sqe)));
                let k = sqe.map(|s| issue_kind(&s)).unwrap_or(K::File);
                let arity = if self.ops[i].kind == "pipe" { 2 } else { 1 };
                // EINVAL ("kernel too old") with its own weight: often for pipe (either
                // requested kind), occasionally for the other kinds
                let p_einval = if self.ops[i].kind == "pipe" { 4 } else { 20 };
                if rng.chance(1, p_einval) {
                    return Some(format!("fds kpost {i} err {} 0", libc::EINVAL));
                }
                if rng.chance(3, 4) {
                    if let Some(raws) = self.gen_raws(rng, k, arity) {
                        return Some(format!("fds kpost {i} ok {} {more}", list(&raws)));
                    }
                }
                let e = *rng.pick(&[libc::EINTR, libc::ECANCELED, libc::ECANCELED, libc::EIO, libc::EAGAIN, libc::EMFILE, libc::ENFILE]);
                Some(format!("fds kpost {i} err {e} 0"))
            }
            7 => Some(if rng.chance(1, 12) { format!("fds rpollfail {}", *rng.pick(&[libc::EBUSY, libc::ENOMEM, libc::EAGAIN, libc::EEXIST, libc::EBADR])) } else { "fds rpoll".into() }),
            8 => Some(if rng.chance(1, 6) {
                format!("fds dropfail {} {}", rng.pick(&droppable), *rng.pick(&[libc::EBUSY, libc::ENOMEM, libc::EEXIST]))
            } else {
                format!("fds drop {}", rng.pick(&droppable))
            }),
            9 => Some(format!("fds std {} {}", self.handles.len(), rng.below(3))),
            _ => {
                // malformed stream
                let i = rng.below(self.ops.len() as u64 + 2);
                let a = rng.below(self.handles.len() as u64 + 2);
                Some(match rng.below(17) {
                    14 => format!("fds poll {i} pipe2 {},{}", FLO + rng.below(10) as u32, FLO + rng.below(10) as u32),
                    15 => format!("fds poll {i} pipe2-err {}", *rng.pick(&[0u32, 24, 4096])),
                    16 => format!("fds poll {i} pipe2 {}", *rng.pick(&["-", "200", "200,201,202", "x,201", "2,3", "456,457"])),
                    0 => format!("fds poll {i}"),
                    1 => format!("fds dropop {i}"),
                    2 => format!("fds drop {a}"),
                    3 => format!("fds kpost {i} ok {} 0", FLO + rng.below(12) as u32),
                    4 => format!("fds kpost {i} ok {} 1", SLO + rng.below(4) as u32),
                    5 => format!("fds kpost {i} err {} {}", *rng.pick(&[0u32, 22, 4096, 5]), rng.below(2)),
                    6 => format!("fds kpost {i} ok {},{} 0", FLO + rng.below(3) as u32, FLO + rng.below(3) as u32),
                    7 => format!("fds kpost {i} ok {} 0", *rng.pick(&[0u32, 2, 39, 48, 199, 456, 2147483648, 4294967295])),
                    8 => format!("fds new {} open file", n + 1),
                    9 => format!("fds new {n} {} {a}", *rng.pick(&["todirect", "tofd", "close", "accept"])),
                    10 => format!("fds std {} {}", self.handles.len(), 3 + rng.below(3)),
                    11 => format!("fds new {n} socket {}", *rng.pick(&["fixed", "-", "Direct"])),
                    12 => "fds kpost x ok 200 0".into(),
                    _ => "fds frobnicate".into(),
                })
            }
        }
    }

    fn exec(&mut self, op: &str) -> Vec<String> {
        if self.poisoned {
            return vec!["unsafe-state".into()];
        }
        // pipe2(2) is trapped for the duration of every op: outside the poll that is
        // expected to call it, it fails with ENOSYS and is reported.
        simk::sync_trap(true);
        simk::sync_script(Some(simk::SyncScript { errno: Some(libc::ENOSYS), ..Default::default() }));
        let out = self.exec_inner(op);
        self.stray_sync_calls(op);
        simk::sync_trap(false);
        out
    }

    fn drain_oracle(&mut self) -> Vec<(String, String, String)> {
        std::mem::take(&mut self.oracle)
    }

    fn finish(&mut self) -> CaseReport {
        if self.poisoned {
            // Leak everything rather than let a10 close descriptors it does not own.
            for o in self.ops.iter_mut() {
                std::mem::forget(o.obj.take());
            }
            for h in self.handles.iter_mut() {
                std::mem::forget(h.obj.take());
            }
            std::mem::forget(self.ring.take());
            std::mem::forget(self.sq.take());
            for d in &self.descs {
                if d.kind == K::File && raw_fcntl_getfd(d.raw as i32) >= 0 {
                    unsafe { simk::raw_syscall(libc::SYS_close, d.raw as i64, 0, 0, 0, 0, 0) };
                }
            }
            simk::drain_events();
            util::drain_wakes();
            track::drain_frees();
            simk::deactivate();
            simk::with_sim(|s| {
                let fds: Vec<i32> = s.rings.keys().copied().collect();
                for fd in fds {
                    std::mem::forget(s.rings.remove(&fd));
                }
            });
            ensure_stdio();
            let features = std::mem::take(&mut self.feats);
            return CaseReport { oracle: std::mem::take(&mut self.oracle), features, nontrivial: true };
        }
        simk::sync_trap(true);
        simk::sync_script(Some(simk::SyncScript { errno: Some(libc::ENOSYS), ..Default::default() }));
        for o in self.ops.iter_mut() {
            if let Some(obj) = o.obj.take() {
                let _ = util::catch(move || drop(obj));
            }
        }
        self.stray_sync_calls("end of the case (remaining futures dropped)");
        simk::sync_trap(false);
        for h in self.handles.iter_mut() {
            if let Some(obj) = h.obj.take() {
                let _ = util::catch(move || unsafe {
                    match obj {
                        HObj::Fd(p) => drop(Box::from_raw(p)),
                        HObj::In(p) => drop(Box::from_raw(p)),
                        HObj::Out(p) => drop(Box::from_raw(p)),
                        HObj::Err(p) => drop(Box::from_raw(p)),
                    }
                });
            }
        }
        if let Some(ring) = self.ring.take() {
            let _ = util::catch(move || drop(ring));
        }
        drop(self.sq.take());
        // Whatever is still open in the range the simulated kernel uses was leaked.
        for d in &self.descs {
            if d.kind == K::File && raw_fcntl_getfd(d.raw as i32) >= 0 {
                unsafe { simk::raw_syscall(libc::SYS_close, d.raw as i64, 0, 0, 0, 0, 0) };
            }
        }
        simk::drain_events();
        util::drain_wakes();
        track::drain_frees();
        simk::reset();
        track::release_quarantine();
        ensure_stdio();
        let mut features = std::mem::take(&mut self.feats);
        features.sort();
        features.dedup();
        let nontrivial = features.iter().any(|f| {
            matches!(f.as_str(), "queue-full-fallback" | "direct-descriptor" | "abandoned-late-result" | "abandoned-with-unread-result" | "pipe-fallback-run")
        });
        CaseReport { oracle: std::mem::take(&mut self.oracle), features, nontrivial }
    }
}

/// The kind of descriptor a submission asks the kernel for.
fn issue_kind(sqe: &simk::Sqe) -> K {
    match sqe.opcode {
        simk::OP_FILES_UPDATE => K::Direct,
        simk::OP_FIXED_FD_INSTALL => K::File,
        _ => {
            if sqe.file_index == u32::MAX {
                K::Direct
            } else {
                K::File
            }
        }
    }
}

impl Comp for FdsComp {
    fn name(&self) -> &'static str {
        "fds"
    }
    fn rule(&self) -> String {
        "each case = a random script of ≤ 60 ops on a ring with sq ∈ {1,2,4} and a direct table handing out {0,2,4,8} slots (numbers 40..): descriptor-creating operations (open, socket, pipe with file/direct kind; accept and multishot accept on regular, direct and standard-stream listeners; to_direct_descriptor, to_file_descriptor), AsyncFd::close, stdin/stdout/stderr, poll / drop of futures, drop of AsyncFds (CLOSE submission or the queue-full fallback), kernel answers with script-chosen fresh descriptor numbers (8 regular numbers, so numbers are reused) or errnos (incl. EINTR/ECANCELED restarts, F_MORE; EINVAL = kernel too old with its own weight: 1 in 4 answers to a pipe of either requested kind, 1 in 20 to the other kinds, to live and to abandoned futures; a live pipe future that got it is then — 2 times in 3 at once — polled with the trapped pipe2(2) answering two fresh regular numbers backed by real descriptors (6 in 7) or EMFILE/ENFILE/ENOMEM, or dropped (1 in 6)), Ring::poll, and in 3 of 4 cases a final clean-up that drops everything before the quiescence check; plus a malformed stream (unknown indices, non-fresh / out-of-range numbers, wrong arity, F_MORE on single-shot, illegal conversions, pipe2 answers for futures that do not call it / plain polls of futures that do, junk). non-trivial = the case closes through the queue-full fallback, uses a direct descriptor, delivers a descriptor to an abandoned operation, or runs the pipe2 fallback; distinct = distinct op scripts".into()
    }
    fn gen_header(&mut self, rng: &mut Rng, id: u64, _tier: &str) -> String {
        let sq = *rng.pick(&[1u32, 2, 2, 4]);
        let cq = (2 * sq).max(4);
        // direct slots handed out: SLO..slots
        let slots = *rng.pick(&[0u32, SLO + 2, SLO + 4, SLO + 8]);
        format!("fds begin {id} sq={sq} cq={cq} slo={SLO} slots={slots} flo={FLO} fhi={FHI} steps={}", rng.range(10, 60))
    }
    fn begin(&mut self, header: &str) -> Box<dyn Case> {
        Box::new(FdsCase::new(header))
    }
}
