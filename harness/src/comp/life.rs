//! Operation life cycle against the simulated kernel (C01, C02, C03a, C06, C09).
//!
//! Several real a10 operations share one small ring. The script decides when
//! futures are polled and dropped, when the kernel consumes submissions
//! (inside `Ring::poll`), which completions it posts, in which order and
//! batches, and when the ring is dropped.

use std::collections::{HashMap, VecDeque};
use std::future::Future;
use std::pin::Pin;
use std::task::{Context, Poll};
use std::time::Duration;

use a10::io::ReadBufPool;
use a10::{AsyncFd, Ring, SubmissionQueue};

use crate::comp::{Case, CaseReport, Comp};
use crate::sched::{self, Status as SchedStatus};
use crate::simk::{self, KEv, PostSpec, Target, CQE_F_MORE, CQE_F_NOTIF};
use crate::track;
use crate::util::{self, Rng};

pub struct LifeComp;

/// Type-erased operation under test. `None` = Pending.
trait Pollable: Send {
    fn poll(&mut self, cx: &mut Context<'_>) -> Option<String>;
}

struct FutOp<F, T> {
    fut: Pin<Box<F>>,
    canon: fn(T) -> String,
}

impl<F: Future<Output = std::io::Result<T>> + Send, T: Send> Pollable for FutOp<F, T> {
    fn poll(&mut self, cx: &mut Context<'_>) -> Option<String> {
        match self.fut.as_mut().poll(cx) {
            Poll::Pending => None,
            Poll::Ready(Ok(v)) => Some(format!("ready ok {}", (self.canon)(v))),
            Poll::Ready(Err(e)) => Some(format!("ready err {}", err_num(&e))),
        }
    }
}

fn err_num(e: &std::io::Error) -> String {
    match e.raw_os_error() {
        Some(n) => n.to_string(),
        None => format!("{:?}", e.kind()),
    }
}

struct MRead(Pin<Box<a10::io::MultishotRead<'static>>>);
impl Pollable for MRead {
    fn poll(&mut self, cx: &mut Context<'_>) -> Option<String> {
        match self.0.as_mut().poll_next(cx) {
            Poll::Pending => None,
            Poll::Ready(None) => Some("ready none".into()),
            Poll::Ready(Some(Ok(buf))) => Some(format!("ready ok {}", buf.len())),
            Poll::Ready(Some(Err(e))) => Some(format!("ready err {}", err_num(&e))),
        }
    }
}

struct OpSlot {
    kind: String,
    multi: bool,
    obj: Option<Box<dyn Pollable>>,
    /// address of the `Data` box (== user_data & !1)
    state_addr: Option<usize>,
    state_block: Option<u64>,
    user_data: Option<u64>,
    /// user_data while a submission of this operation is published / in flight
    ud_inflight: Option<u64>,
    /// blocks of the resources handed to the operation (buffers)
    res_blocks: Vec<u64>,
    /// (address, length) of those resources
    res_addrs: Vec<(usize, usize)>,
    /// number of submissions published for it
    attempts: u32,
    // --- oracle state ---
    /// C02: results the caller must still observe, in order.
    expected: VecDeque<i64>,
    /// C02 single-shot: value of the first non-NOTIF CQE of the current submission.
    slot: Option<i64>,
    /// C03: waker of the last poll that returned Pending.
    last_pending: Option<u32>,
    /// C03: a ready-making completion was posted since that poll.
    ready_since: bool,
    /// C03: ready-making completions posted for it and not yet processed by Ring::poll
    unprocessed_ready: u32,
    woken_since: bool,
    /// C09: the SQE of the previous attempt.
    last_sqe: Option<[u8; 64]>,
    finished: bool,
    frees: u32,
    dropped_running: bool,
    started_after_rdrop: bool,
}

struct LifeCase {
    ring: Option<Ring>,
    sq: Option<SubmissionQueue>,
    rfd: i32,
    fd: &'static AsyncFd,
    pool: Option<ReadBufPool>,
    ops: Vec<OpSlot>,
    addr2op: HashMap<usize, usize>,
    steps_left: u32,
    max_ops: usize,
    sq_len: u32,
    oracle: Vec<(String, String, String)>,
    feats: Vec<String>,
    ring_dropped: bool,
    lost_at_drop: usize,
    /// a use-after-free was detected: stop calling into a10 for this case
    poisoned: bool,
    /// outputs recorded by a `race`, replayed by the next ops: (op line, output lines)
    raced: Vec<(String, Vec<String>)>,
}

const KINDS: &[&str] = &["read", "write", "sendzc", "mread", "readv", "writev", "sendto", "sendmsgzc", "recvv"];

fn opcode_of(kind: &str) -> &'static str {
    match kind {
        "read" => "READ",
        "write" => "WRITE",
        "sendzc" => "SEND_ZC",
        "mread" => "READ_MULTISHOT",
        "readv" => "READV",
        "writev" => "WRITEV",
        "sendto" => "SEND",
        "sendmsgzc" => "SENDMSG_ZC",
        "recvv" => "RECVMSG",
        _ => "?",
    }
}

impl LifeCase {
    fn new(header: &str) -> LifeCase {
        let t: Vec<&str> = header.split(' ').collect();
        let get = |k: &str| -> u32 {
            t.iter()
                .find_map(|x| x.strip_prefix(&format!("{k}=")))
                .and_then(|v| v.parse().ok())
                .unwrap_or(0)
        };
        let (sq_len, cq_len, sqh, cqh) = (get("sq"), get("cq"), get("sqh"), get("cqh"));
        simk::reset();
        simk::activate(simk::SetupCfg {
            sq_head0: sqh,
            cq_head0: cqh,
            ..Default::default()
        });
        let ring = Ring::config()
            .with_submission_queue_size(sq_len)
            .with_completion_queue_size(cq_len)
            .build()
            .expect("ring build");
        let sq = ring.sq();
        let rfd = simk::with_sim(|s| *s.rings.keys().next().unwrap());
        let raw = simk::with_ring(rfd, |r, _| r.fresh_fd());
        let fd: &'static AsyncFd =
            Box::leak(Box::new(unsafe { AsyncFd::from_raw_fd(raw, sq.clone()) }));
        let pool = ReadBufPool::new(sq.clone(), 64, 64).expect("pool");
        simk::drain_events();
        util::drain_wakes();
        track::drain_frees();
        LifeCase {
            ring: Some(ring),
            sq: Some(sq),
            rfd,
            fd,
            pool: Some(pool),
            ops: Vec::new(),
            addr2op: HashMap::new(),
            steps_left: get("steps"),
            max_ops: 5,
            sq_len,
            oracle: Vec::new(),
            feats: Vec::new(),
            ring_dropped: false,
            lost_at_drop: 0,
            poisoned: false,
            raced: Vec::new(),
        }
    }

    fn fail(&mut self, prop: &str, sig: &str, what: String) {
        self.oracle.push((prop.into(), sig.into(), what));
    }

    /// Lines for submissions published since `old_tail`; learns user_data.
    fn new_sqes(&mut self, old_tail: u32, polled: Option<usize>, dropping: Option<usize>) -> Vec<String> {
        let mut lines = Vec::new();
        let entries: Vec<simk::Sqe> = simk::with_ring(self.rfd, |r, _| {
            let tail = r.sq_tail();
            let mut v = Vec::new();
            let mut t = old_tail;
            while t != tail {
                v.push(r.sqe_at(t));
                t = t.wrapping_add(1);
            }
            v
        });
        for sqe in entries {
            if sqe.opcode == simk::OP_ASYNC_CANCEL {
                let target = match dropping {
                    Some(d) if self.ops[d].user_data == Some(sqe.addr) => Some(d),
                    _ => self.ops.iter().position(|o| o.ud_inflight == Some(sqe.addr)),
                };
                match target {
                    Some(t) => lines.push(format!("cancel op{t}")),
                    None => lines.push(format!("cancel unknown:{:#x}", sqe.addr)),
                }
                if sqe.user_data != 2 || sqe.flags & simk::IOSQE_CQE_SKIP_SUCCESS == 0 {
                    self.fail("C06", "C06/cancel-encoding", format!("cancel request with user_data {} flags {:#x}", sqe.user_data, sqe.flags));
                }
                continue;
            }
            let Some(i) = polled else {
                lines.push(format!("sqe ? {}", simk::opcode_name(sqe.opcode)));
                continue;
            };
            let op = &mut self.ops[i];
            let addr = (sqe.user_data & !1) as usize;
            if let Some(a) = op.state_addr {
                if a != addr {
                    self.oracle.push(("C01".into(), "C01/user-data-moved".into(), format!("op{i} user_data {:#x} is not its state box {:#x}", addr, a)));
                }
            }
            if (sqe.user_data & 1 == 1) != op.multi {
                self.oracle.push(("C02".into(), "C02/tag".into(), format!("op{i} multishot tag mismatch")));
            }
            op.user_data = Some(sqe.user_data);
            op.ud_inflight = Some(sqe.user_data);
            op.state_addr = Some(addr);
            self.addr2op.insert(addr, i);
            // C09: a re-issued request is byte-identical to the previous attempt.
            let bytes = sqe.bytes();
            if let Some(prev) = op.last_sqe {
                if prev != bytes {
                    self.oracle.push(("C09".into(), format!("C09/resubmit-differs/{}", op.kind), format!("op{i}: re-issued submission differs from the first attempt")));
                }
            }
            op.last_sqe = Some(bytes);
            op.attempts += 1;
            op.slot = None;
            lines.push(format!("sqe op{i} {}", simk::opcode_name(sqe.opcode)));
        }
        lines
    }

    fn collect_frees(&mut self) -> Vec<usize> {
        let mut v = Vec::new();
        for b in track::drain_double_frees() {
            let who = self.ops.iter().position(|o| o.state_block == Some(b.id));
            match who {
                Some(i) => self.fail("C06", "C06/double-free", format!("state of op{i} freed twice (use after free)")),
                None => {
                    self.fail("C06", "C06/double-free-resources", format!("a resource buffer ({} bytes) was freed twice", b.size));
                    let restarted = self.ops.iter().position(|o| o.attempts >= 2 && o.res_blocks.contains(&b.id));
                    if let Some(i) = restarted {
                        let kind = self.ops[i].kind.clone();
                        self.fail("C09", &format!("C09/resources-released-before-reissue/{kind}"), format!("the buffer of the re-issued op{i} was released twice: once when the interruption was swallowed, once at the end"));
                    }
                }
            }
        }
        for b in track::drain_frees() {
            if let Some(i) = self.addr2op.get(&b.base).copied() {
                let i = &i;
                self.ops[*i].frees += 1;
                if self.ops[*i].frees > 1 {
                    self.fail("C06", "C06/double-free", format!("state of op{i} freed twice"));
                }
                v.push(*i);
                self.addr2op.remove(&b.base);
            }
        }
        v
    }

    fn kernel_events(&mut self) {
        for e in simk::drain_events() {
            match e {
                KEv::BadMemory { seq, what, addr } => {
                    let sig = format!("C01/freed-while-in-flight/{what}");
                    self.fail("C01", &sig, format!("kernel about to touch {what} at {addr:#x} of submission #{seq}, which is no longer the block it was at submission"));
                    // C09: was it a re-issued operation whose resources were released in between?
                    let restarted = self.ops.iter().position(|o| o.attempts >= 2 && o.res_addrs.iter().any(|(a, l)| addr >= *a && addr < *a + (*l).max(1)));
                    if let Some(i) = restarted {
                        let kind = self.ops[i].kind.clone();
                        self.fail("C09", &format!("C09/resources-released-before-reissue/{kind}"), format!("op{i} was re-issued after an interruption with {what} at {addr:#x}, which had been released (not the same resources)"));
                    }
                }
                KEv::FreedState { seq, user_data } => {
                    self.fail("C01", "C01/state-freed-before-final-cqe", format!("operation state {user_data:#x} (submission #{seq}) freed before its final completion"));
                }
                KEv::TornEntry { index } => {
                    self.fail("C04", "C04/torn-entry", format!("kernel consumed an unwritten submission at slot {index}"));
                }
                _ => {}
            }
        }
    }

    /// C01/C06: every completion a10 is about to process must belong to a
    /// live operation state (it dereferences `user_data`). Returns false if a
    /// stale one was found (the call into a10 is then skipped: it would
    /// corrupt memory or hang on a freed mutex).
    fn completions_safe(&mut self) -> bool {
        let cqes: Vec<simk::Cqe> = simk::with_ring(self.rfd, |r, _| {
            let mut v = r.cq_pending();
            v.extend(r.overflow.iter().map(|(_, c)| *c));
            v
        });
        let mut ok = true;
        for c in cqes {
            if c.user_data <= 3 || c.flags & simk::CQE_F_SKIP != 0 {
                continue;
            }
            let addr = (c.user_data & !1) as usize;
            let live = track::block_of(addr);
            let owner = self.ops.iter().position(|o| o.state_addr == Some(addr) && o.state_block.is_some() && live.map(|b| b.id) == o.state_block);
            if owner.is_none() {
                ok = false;
                self.fail("C01", "C01/state-freed-before-final-cqe", format!("a completion for operation state {addr:#x} is pending, but that state has already been freed"));
            }
        }
        ok
    }

    /// Bookkeeping after a10 processed completions: which operations had a
    /// ready-making completion processed, then which wakers were invoked.
    fn after_ring_poll(&mut self, wakes: &[u32]) {
        let pending: Vec<simk::Cqe> = simk::with_ring(self.rfd, |r, _| {
            let mut v = r.cq_pending();
            v.extend(r.overflow.iter().map(|(_, c)| *c));
            v
        });
        for o in self.ops.iter_mut() {
            if o.unprocessed_ready == 0 {
                continue;
            }
            let Some(addr) = o.state_addr else { continue };
            let still = pending
                .iter()
                .filter(|c| c.user_data > 3 && (c.user_data & !1) as usize == addr && (o.multi || c.flags & CQE_F_MORE == 0))
                .count() as u32;
            let processed = o.unprocessed_ready.saturating_sub(still);
            if processed > 0 {
                o.ready_since = true;
                o.unprocessed_ready -= processed;
            }
        }
        self.note_wakes(wakes);
    }

    fn note_wakes(&mut self, wakes: &[u32]) {
        for w in wakes {
            for o in self.ops.iter_mut() {
                if o.last_pending == Some(*w) {
                    o.woken_since = true;
                }
            }
        }
    }

    /// C03 quiescence check: nothing is ready-but-unwoken once the CQ is drained.
    fn check_wakeups(&mut self) {
        let drained = simk::with_ring(self.rfd, |r, _| r.cq_count() == 0 && r.overflow.is_empty());
        if !drained {
            return;
        }
        let mut fails = Vec::new();
        for (i, o) in self.ops.iter().enumerate() {
            if o.obj.is_some() && !o.finished && o.last_pending.is_some() && o.ready_since && !o.woken_since {
                fails.push((i, o.kind.clone(), o.last_pending.unwrap()));
            }
        }
        for (i, kind, w) in fails {
            self.fail("C03", &format!("C03/lost-completion-wake/{kind}"), format!("op{i} returned Pending with waker {w}, its completion was processed, the waker was never called"));
        }
    }

    fn make_spec(&self, i: usize, res: i32, flags: u32) -> Option<PostSpec> {
        let ud = self.ops.get(i)?.ud_inflight?;
        let kind = &self.ops[i].kind;
        let mut spec = PostSpec::new(Target::UserData(ud), res, flags);
        if res > 0 && (kind == "read" || kind == "mread" || kind == "readv" || kind == "recvv") {
            spec.data = Some(vec![0xCD; res as usize]);
            spec.select_buf = kind == "mread";
        }
        Some(spec)
    }

    fn do_post(&mut self, i: usize, res: i32, flags: u32) -> Option<bool> {
        let spec = self.make_spec(i, res, flags)?;
        let r = simk::with_ring(self.rfd, |r, ev| {
            r.find_inflight(&spec.target)?;
            let n = ev.len();
            r.post(&spec, ev);
            let overflowed = ev[n..].iter().any(|e| matches!(e, KEv::Posted { overflowed: true, .. }));
            Some(!overflowed)
        })?;
        self.note_posted(i, res, flags);
        Some(r)
    }

    /// Oracle bookkeeping for a posted completion (C02 expected values, C03 readiness).
    fn note_posted(&mut self, i: usize, res: i32, flags: u32) {
        let fin = flags & CQE_F_MORE == 0;
        if fin && (res == -libc::EINTR || res == -libc::ECANCELED) && self.ops[i].obj.is_some() {
            self.feats.push("restart".into());
        }
        if flags & CQE_F_NOTIF != 0 {
            self.feats.push("zc-two-step".into());
        }
        if self.ops[i].multi && !fin {
            self.feats.push("multi-batch".into());
        }
        // completed before an operation that was submitted earlier?
        let older_in_flight = simk::with_ring(self.rfd, |r, _| {
            let uds: Vec<u64> = r.inflight.iter().map(|x| x.sqe.user_data).collect();
            let me = self.ops[i].ud_inflight;
            uds.first().copied() != me && uds.len() > 0 && me.is_some()
        });
        if older_in_flight {
            self.feats.push("out-of-order".into());
        }
        let op = &mut self.ops[i];
        if fin {
            op.ud_inflight = None;
        }
        if op.multi {
            let restart = fin && (res == -libc::EINTR || res == -libc::ECANCELED);
            if !restart {
                op.expected.push_back(res as i64);
            }
            op.unprocessed_ready += 1;
        } else {
            if flags & CQE_F_NOTIF == 0 {
                op.slot = Some(res as i64);
            }
            if fin {
                let v = op.slot.unwrap_or(0);
                let restart = v == -(libc::EINTR as i64) || v == -(libc::ECANCELED as i64);
                if !restart {
                    op.expected.push_back(v);
                }
                op.unprocessed_ready += 1;
            }
        }
        if op.dropped_running || op.obj.is_none() {
            // nobody will ever observe it
            op.expected.clear();
        }
    }
}

fn list<T: std::fmt::Display>(v: &[T]) -> String {
    if v.is_empty() { "-".into() } else { v.iter().map(|x| x.to_string()).collect::<Vec<_>>().join(",") }
}

impl Case for LifeCase {
    fn next_op(&mut self, rng: &mut Rng) -> Option<String> {
        if !self.raced.is_empty() {
            return Some(self.raced[0].0.clone());
        }
        if self.steps_left == 0 || self.poisoned {
            return None;
        }
        self.steps_left -= 1;
        // A race between a drop/poll of a future and the processing of its
        // completions (needs a completion already waiting in the queue).
        if self.ring.is_some() && rng.chance(1, 6) {
            let all: Vec<usize> = simk::with_ring(self.rfd, |r, _| {
                r.cq_pending().iter().filter(|c| c.user_data > 3).filter_map(|c| self.ops.iter().position(|o| o.obj.is_some() && o.state_addr == Some((c.user_data & !1) as usize))).collect()
            });
            let cands: Vec<usize> = all.iter().copied().filter(|i| all.iter().filter(|j| *j == i).count() == 1).collect();
            if !cands.is_empty() {
                let i = *rng.pick(&cands);
                let kind = if rng.chance(2, 3) { "drop" } else { "poll" };
                let n = rng.range(4, 24);
                let sc: String = (0..n).map(|_| if rng.chance(1, 2) { '0' } else { '1' }).collect();
                return Some(format!("life race {kind} {i} {} sched={sc}", i * 10));
            }
        }
        if self.steps_left == 0 && !self.ring_dropped {
            return Some("life rdrop".into());
        }
        let live: Vec<usize> = (0..self.ops.len()).filter(|i| self.ops[*i].obj.is_some()).collect();
        let inflight: Vec<usize> = simk::with_ring(self.rfd, |r, _| {
            r.inflight.iter().filter_map(|inf| self.ops.iter().position(|o| o.ud_inflight == Some(inf.sqe.user_data))).collect()
        });
        let can_new = self.ops.len() < self.max_ops;
        let w_new = if can_new { 4 } else { 0 };
        let w_poll = if live.is_empty() { 0 } else { 8 };
        let w_drop = if live.is_empty() { 0 } else { 2 };
        let w_kpost = if inflight.is_empty() { 0 } else { 8 };
        let w_rpoll = 6;
        let w_rdrop = if self.ring_dropped { 0 } else if rng.chance(1, 30) { 1 } else { 0 };
        let w_bad = if rng.chance(1, 25) { 1 } else { 0 };
        match rng.weighted(&[w_new, w_poll, w_drop, w_kpost, w_rpoll, w_rdrop, w_bad]) {
            0 => {
                let kind = *rng.pick(KINDS);
                Some(format!("life new {} {kind}", self.ops.len()))
            }
            1 => {
                let i = *rng.pick(&live);
                // mostly the same waker per op, sometimes a replaced one
                let w = if rng.chance(3, 4) { i as u64 * 10 } else { i as u64 * 10 + rng.range(1, 3) };
                Some(format!("life poll {i} {w}"))
            }
            2 => Some(format!("life drop {}", rng.pick(&live))),
            3 => {
                let i = *rng.pick(&inflight);
                let (res, flags) = self.gen_result(rng, i);
                Some(format!("life kpost {i} {res} {flags}"))
            }
            4 => {
                // completions posted during the enter call
                let mut posts = Vec::new();
                if rng.chance(1, 3) {
                    let n = rng.range(1, 3);
                    for _ in 0..n {
                        // may name ops whose submission is only consumed by this very call
                        if self.ops.is_empty() {
                            break;
                        }
                        let i = rng.below(self.ops.len() as u64) as usize;
                        let (res, flags) = self.gen_result(rng, i);
                        posts.push(format!("{i}:{res}:{flags}"));
                    }
                }
                let p = if posts.is_empty() { "-".to_string() } else { posts.join(",") };
                Some(format!("life rpoll {p}"))
            }
            5 => Some("life rdrop".into()),
            _ => {
                // malformed stream: ops on unknown / dropped operations
                let i = rng.below(self.ops.len() as u64 + 2);
                Some(match rng.below(3) {
                    0 => format!("life poll {i} 99"),
                    1 => format!("life drop {i}"),
                    _ => format!("life kpost {i} 1 0"),
                })
            }
        }
    }

    fn exec(&mut self, op: &str) -> Vec<String> {
        let t: Vec<&str> = op.split(' ').collect();
        let mut out = Vec::new();
        if self.poisoned {
            return vec!["unsafe-state".into()];
        }
        if !self.raced.is_empty() {
            // the constituent ops of the race, in linearisation order
            if self.raced[0].0 == op {
                let (_, lines) = self.raced.remove(0);
                self.kernel_events();
                return lines;
            }
            return vec!["bad-op".into()];
        }
        match t.as_slice() {
            ["life", "new", i, kind] => {
                let Ok(i) = i.parse::<usize>() else { return vec!["bad-op".into()] };
                if i != self.ops.len() || !KINDS.contains(kind) {
                    return vec!["bad-op".into()];
                }
                let fd = self.fd;
                let mut res_blocks = Vec::new();
                let mut res_addrs: Vec<(usize, usize)> = Vec::new();
                let (obj, state): (Box<dyn Pollable>, Option<usize>) = match *kind {
                    "read" => {
                        let buf: Vec<u8> = Vec::with_capacity(64);
                        res_blocks.extend(track::watch(buf.as_ptr() as usize).map(|b| b.id));
                        res_addrs.push((buf.as_ptr() as usize, buf.capacity()));
                        let mark = track::next_id();
                        let fut = fd.read(buf);
                        let st = single_new_block(mark);
                        (Box::new(FutOp { fut: Box::pin(fut), canon: |b: Vec<u8>| b.len().to_string() }), st)
                    }
                    "write" => {
                        let buf: Vec<u8> = vec![0x5A; 64];
                        res_blocks.extend(track::watch(buf.as_ptr() as usize).map(|b| b.id));
                        res_addrs.push((buf.as_ptr() as usize, buf.capacity()));
                        let mark = track::next_id();
                        let fut = fd.write(buf);
                        let st = single_new_block(mark);
                        (Box::new(FutOp { fut: Box::pin(fut), canon: |n: usize| n.to_string() }), st)
                    }
                    "sendzc" => {
                        let buf: Vec<u8> = vec![0x7E; 64];
                        res_blocks.extend(track::watch(buf.as_ptr() as usize).map(|b| b.id));
                        res_addrs.push((buf.as_ptr() as usize, buf.capacity()));
                        let mark = track::next_id();
                        let fut = fd.send(buf).zc();
                        let st = single_new_block(mark);
                        (Box::new(FutOp { fut: Box::pin(fut), canon: |n: usize| n.to_string() }), st)
                    }
                    "readv" | "recvv" => {
                        let b0: Vec<u8> = Vec::with_capacity(32);
                        let b1: Vec<u8> = Vec::with_capacity(32);
                        for b in [&b0, &b1] {
                            res_blocks.extend(track::watch(b.as_ptr() as usize).map(|b| b.id));
                            res_addrs.push((b.as_ptr() as usize, b.capacity()));
                        }
                        let mark = track::next_id();
                        if *kind == "readv" {
                            let fut = fd.read_vectored([b0, b1]);
                            let st = single_new_block(mark);
                            (Box::new(FutOp { fut: Box::pin(fut), canon: |b: [Vec<u8>; 2]| (b[0].len() + b[1].len()).to_string() }), st)
                        } else {
                            let fut = fd.recv_vectored([b0, b1]);
                            let st = single_new_block(mark);
                            (Box::new(FutOp { fut: Box::pin(fut), canon: |(b, _): ([Vec<u8>; 2], i32)| (b[0].len() + b[1].len()).to_string() }), st)
                        }
                    }
                    "writev" | "sendmsgzc" => {
                        let b0: Vec<u8> = vec![0x11; 32];
                        let b1: Vec<u8> = vec![0x22; 32];
                        for b in [&b0, &b1] {
                            res_blocks.extend(track::watch(b.as_ptr() as usize).map(|b| b.id));
                            res_addrs.push((b.as_ptr() as usize, b.capacity()));
                        }
                        let mark = track::next_id();
                        if *kind == "writev" {
                            let fut = fd.write_vectored([b0, b1]);
                            let st = single_new_block(mark);
                            (Box::new(FutOp { fut: Box::pin(fut), canon: |n: usize| n.to_string() }), st)
                        } else {
                            let fut = fd.send_vectored([b0, b1]).zc();
                            let st = single_new_block(mark);
                            (Box::new(FutOp { fut: Box::pin(fut), canon: |n: usize| n.to_string() }), st)
                        }
                    }
                    "sendto" => {
                        let buf: Vec<u8> = vec![0x33; 64];
                        res_blocks.extend(track::watch(buf.as_ptr() as usize).map(|b| b.id));
                        res_addrs.push((buf.as_ptr() as usize, buf.capacity()));
                        let addr: std::net::SocketAddr = "127.0.0.1:9".parse().unwrap();
                        let mark = track::next_id();
                        let fut = fd.send_to(buf, addr);
                        let st = single_new_block(mark);
                        (Box::new(FutOp { fut: Box::pin(fut), canon: |n: usize| n.to_string() }), st)
                    }
                    _ => {
                        let pool = self.pool.as_ref().unwrap().clone();
                        let mark = track::next_id();
                        let it = fd.multishot_read(pool);
                        let st = single_new_block(mark);
                        (Box::new(MRead(Box::pin(it))), st)
                    }
                };
                // NOTE: the pinned box of the future itself is allocated after `mark`
                // too; `single_new_block` ran before `Box::pin`.
                let state_block = state.and_then(|a| track::block_of(a)).map(|b| b.id);
                if let Some(a) = state {
                    track::watch(a);
                    self.addr2op.insert(a, i);
                }
                self.ops.push(OpSlot {
                    kind: kind.to_string(),
                    multi: *kind == "mread",
                    obj: Some(obj),
                    state_addr: state,
                    state_block,
                    user_data: None,
                    ud_inflight: None,
                    res_blocks,
                    res_addrs,
                    attempts: 0,
                    expected: VecDeque::new(),
                    slot: None,
                    last_pending: None,
                    ready_since: false,
                    unprocessed_ready: 0,
                    woken_since: false,
                    last_sqe: None,
                    finished: false,
                    frees: 0,
                    dropped_running: false,
                    started_after_rdrop: false,
                });
                out.push("ok".into());
            }
            ["life", "poll", i, w] => {
                let (Ok(i), Ok(w)) = (i.parse::<usize>(), w.parse::<u32>()) else { return vec!["bad-op".into()] };
                if i >= self.ops.len() || self.ops[i].obj.is_none() {
                    return vec!["bad-op".into()];
                }
                let old_tail = simk::with_ring(self.rfd, |r, _| r.sq_tail());
                let waker = util::waker(w);
                let mut cx = Context::from_waker(&waker);
                let mut obj = self.ops[i].obj.take().unwrap();
                let r = util::catch(|| obj.poll(&mut cx));
                self.ops[i].obj = Some(obj);
                match r {
                    Err(_) => out.push("panic".into()),
                    Ok(None) => {
                        out.push("pending".into());
                        let o = &mut self.ops[i];
                        if o.last_pending != Some(w) || o.woken_since {
                            o.woken_since = false;
                        }
                        o.last_pending = Some(w);
                        // a result that is already queued counts as readiness only if it
                        // was posted after this poll
                        o.ready_since = false;
                    }
                    Ok(Some(line)) => {
                        // C02 oracle: the value is the next expected one.
                        let o = &mut self.ops[i];
                        o.last_pending = None;
                        o.ready_since = false;
                        let mut bad: Option<String> = None;
                        if line == "ready none" {
                            o.finished = true;
                            if !o.expected.is_empty() {
                                bad = Some(format!("op{i} ended with {} results undelivered", o.expected.len()));
                            }
                        } else {
                            let got: i64 = if let Some(v) = line.strip_prefix("ready ok ") {
                                v.parse().unwrap_or(i64::MIN)
                            } else if let Some(v) = line.strip_prefix("ready err ") {
                                v.parse::<i64>().map(|n| -n).unwrap_or(i64::MIN)
                            } else {
                                i64::MIN
                            };
                            match o.expected.pop_front() {
                                Some(e) if e == got => {}
                                Some(e) => bad = Some(format!("op{i} returned {got}, the kernel's next result for it was {e}")),
                                None => bad = Some(format!("op{i} returned {got} but no result is outstanding for it")),
                            }
                            if !o.multi {
                                o.finished = true;
                            }
                        }
                        let kind = o.kind.clone();
                        if let Some(b) = bad {
                            self.fail("C02", &format!("C02/wrong-result/{kind}"), b);
                        }
                        out.push(line);
                    }
                }
                let pend = simk::with_ring(self.rfd, |r, _| r.sq_pending());
                let lines = self.new_sqes(old_tail, Some(i), None);
                if lines.is_empty() && pend >= self.sq_len && out.first().map(|s| s.as_str()) == Some("pending") {
                    self.feats.push("queue-full".into());
                }
                if !lines.is_empty() && self.ring_dropped {
                    self.ops[i].started_after_rdrop = true;
                }
                out.extend(lines);
            }
            ["life", "drop", i] => {
                let Ok(i) = i.parse::<usize>() else { return vec!["bad-op".into()] };
                if i >= self.ops.len() || self.ops[i].obj.is_none() {
                    return vec!["bad-op".into()];
                }
                let old_tail = simk::with_ring(self.rfd, |r, _| r.sq_tail());
                let obj = self.ops[i].obj.take();
                // "running" as far as the kernel can tell: published and not finalised
                let running = self.ops[i].ud_inflight.is_some();
                self.ops[i].dropped_running = running;
                let ud = self.ops[i].ud_inflight;
                let in_flight = simk::with_ring(self.rfd, |r, _| {
                    ud.is_some_and(|u| r.inflight.iter().any(|x| x.sqe.user_data == u) || {
                        // published but not yet consumed
                        let (mut h, t) = (r.sq_head(), r.sq_tail());
                        let mut found = false;
                        while h != t { if r.sqe_at(h).user_data == u { found = true; } h = h.wrapping_add(1); }
                        found
                    })
                });
                if in_flight {
                    self.feats.push("drop-in-flight".into());
                }
                drop(obj);
                let mut lines = self.new_sqes(old_tail, None, Some(i));
                for l in &lines {
                    if let Some(tg) = l.strip_prefix("cancel op") {
                        if tg.parse::<usize>().ok() != Some(i) {
                            self.fail("C06", "C06/cancel-wrong-target", format!("dropping op{i} requested cancellation of op{tg}"));
                        }
                    } else if l.starts_with("cancel unknown") {
                        self.fail("C06", "C06/cancel-wrong-target", format!("dropping op{i} requested cancellation of an unknown target"));
                    }
                }
                for f in self.collect_frees() {
                    lines.push(format!("free op{f}"));
                }
                if lines.is_empty() {
                    lines.push("-".into());
                }
                out.extend(lines);
            }
            ["life", "kpost", i, res, flags] => {
                let (Ok(i), Ok(res), Ok(flags)) = (i.parse::<usize>(), res.parse::<i32>(), flags.parse::<u32>()) else {
                    return vec!["bad-op".into()];
                };
                match self.do_post(i, res, flags) {
                    None => out.push("miss".into()),
                    Some(true) => out.push("posted".into()),
                    Some(false) => out.push("overflow".into()),
                }
            }
            ["life", "rpoll", posts] => {
                if self.ring.is_none() {
                    return vec!["bad-op".into()];
                }
                let mut ps: Vec<(usize, i32, u32)> = Vec::new();
                if *posts != "-" {
                    for p in posts.split(',') {
                        let f: Vec<&str> = p.split(':').collect();
                        if f.len() != 3 {
                            return vec!["bad-op".into()];
                        }
                        let (Ok(a), Ok(b), Ok(c)) = (f[0].parse(), f[1].parse(), f[2].parse()) else {
                            return vec!["bad-op".into()];
                        };
                        ps.push((a, b, c));
                    }
                }
                if !self.completions_safe() {
                    self.poisoned = true;
                    return vec!["unsafe-state".into()];
                }
                let will_enter = simk::with_ring(self.rfd, |r, _| r.cq_count() == 0);
                let mut scripted: Vec<(usize, i32, u32, u64)> = Vec::new();
                if will_enter {
                    let mut specs = Vec::new();
                    for (i, res, flags) in &ps {
                        if let Some(spec) = self.make_spec(*i, *res, *flags) {
                            if let Target::UserData(ud) = spec.target {
                                scripted.push((*i, *res, *flags, ud));
                            }
                            specs.push(spec);
                        }
                    }
                    simk::with_ring(self.rfd, |r, _| {
                        r.enter_scripts.clear();
                        r.enter_scripts.push_back(simk::EnterScript { post: specs, ..Default::default() });
                    });
                }
                let mut ring = self.ring.take().unwrap();
                let r = util::catch(|| ring.poll(Some(Duration::ZERO)));
                self.ring = Some(ring);
                simk::with_ring(self.rfd, |r, _| r.enter_scripts.clear());
                // Which scripted posts happened (their target was in flight)?
                let evs = simk::with_sim(|s| s.events.clone());
                let mut posted: Vec<&simk::Cqe> = evs.iter().filter_map(|e| match e {
                    KEv::Posted { seq: Some(_), cqe, .. } => Some(cqe),
                    _ => None,
                }).collect();
                for (i, res, flags, ud) in scripted {
                    if let Some(pos) = posted.iter().position(|c| c.user_data == ud && c.res == res) {
                        posted.remove(pos);
                        self.note_posted(i, res, flags);
                    }
                }
                let entered = evs.iter().find_map(|e| match e {
                    KEv::Enter { to_submit, .. } => Some(*to_submit),
                    _ => None,
                });
                match entered {
                    Some(n) => out.push(format!("enter submit={n}")),
                    None => out.push("noenter".into()),
                }
                let wakes = util::drain_wakes();
                self.after_ring_poll(&wakes);
                let frees = self.collect_frees();
                out.push(format!("wakes {} frees {}", list(&wakes), list(&frees)));
                if r.is_err() {
                    out.push("panic".into());
                } else if let Ok(Err(e)) = &r {
                    out.push(format!("error {}", err_num(e)));
                }
                let head = simk::with_ring(self.rfd, |r, _| r.cq_head());
                out.push(format!("cqhead={head}"));
                self.check_wakeups();
            }
            ["life", "race", kind @ ("drop" | "poll"), i, w, schedule] => {
                // Two threads race on operation `i`: thread A drops / polls its
                // future, thread B runs `Ring::poll` which processes completions
                // already sitting in the completion queue (so it does not enter
                // the kernel). They are interleaved at a10's scheduling points by
                // `schedule`; the observable effects are recorded per thread and
                // replayed by the two following ops in linearisation order.
                let (Ok(i), Ok(w)) = (i.parse::<usize>(), w.parse::<u32>()) else { return vec!["bad-op".into()] };
                let sched_s = schedule.strip_prefix("sched=").unwrap_or("");
                if i >= self.ops.len() || self.ops[i].obj.is_none() || self.ring.is_none() || !self.raced.is_empty()
                    || sched_s.is_empty() || !sched_s.bytes().all(|b| b == b'0' || b == b'1')
                {
                    return vec!["bad-op".into()];
                }
                // exactly one completion of this operation is waiting: the ring thread
                // then has a single critical section on the operation
                let addr = self.ops[i].state_addr;
                let mine = simk::with_ring(self.rfd, |r, _| r.cq_pending().iter().filter(|c| c.user_data > 3 && Some((c.user_data & !1) as usize) == addr).count());
                if mine != 1 || !self.completions_safe() {
                    return vec!["bad-op".into()];
                }
                self.run_race(kind, i, w, sched_s);
                out.push("ok".into());
            }
            ["life", "rdrop"] => {
                if self.ring.is_none() {
                    return vec!["bad-op".into()];
                }
                if !self.completions_safe() {
                    self.poisoned = true;
                    return vec!["unsafe-state".into()];
                }
                let ring = self.ring.take().unwrap();
                let r = util::catch(move || drop(ring));
                self.ring_dropped = true;
                let evs = simk::with_sim(|s| s.events.clone());
                let n = evs.iter().find_map(|e| match e {
                    KEv::Enter { to_submit, .. } => Some(*to_submit),
                    _ => None,
                }).unwrap_or(0);
                out.push(format!("flush submit={n}"));
                let wakes = util::drain_wakes();
                self.after_ring_poll(&wakes);
                let frees = self.collect_frees();
                out.push(format!("wakes {} frees {}", list(&wakes), list(&frees)));
                if r.is_err() {
                    out.push("panic".into());
                }
                let (head, lost) = simk::with_ring(self.rfd, |r, _| (r.cq_head(), r.overflow.len()));
                out.push(format!("cqhead={head} lost={lost}"));
                self.lost_at_drop = lost;
            }
            _ => out.push("bad-op".into()),
        }
        self.kernel_events();
        out
    }

    fn drain_oracle(&mut self) -> Vec<(String, String, String)> {
        std::mem::take(&mut self.oracle)
    }

    fn finish(&mut self) -> CaseReport {
        // Clean up: drop every future, the ring, the pool and the descriptor.
        if self.poisoned || !self.completions_safe() {
            // Memory is in an unsafe state: leak everything rather than run a10 code on it.
            for o in self.ops.iter_mut() {
                std::mem::forget(o.obj.take());
            }
            std::mem::forget(self.ring.take());
            std::mem::forget(self.pool.take());
            std::mem::forget(self.sq.take());
            simk::drain_events();
            util::drain_wakes();
            track::drain_frees();
            simk::deactivate();
            simk::with_sim(|s| { let fds: Vec<i32> = s.rings.keys().copied().collect(); for fd in fds { std::mem::forget(s.rings.remove(&fd)); } });
            let features = std::mem::take(&mut self.feats);
            return CaseReport { oracle: std::mem::take(&mut self.oracle), features, nontrivial: true };
        }
        let started_after_drop: Vec<bool> = self.ops.iter().map(|o| o.started_after_rdrop).collect();
        for i in 0..self.ops.len() {
            if let Some(obj) = self.ops[i].obj.take() {
                let running = self.ops[i].user_data.is_some() && !self.ops[i].finished;
                self.ops[i].dropped_running = running;
                let _ = util::catch(move || drop(obj));
            }
        }
        if let Some(ring) = self.ring.take() {
            let _ = util::catch(move || drop(ring));
            self.lost_at_drop = simk::with_ring(self.rfd, |r, _| r.overflow.len());
        }
        self.collect_frees();
        self.kernel_events();
        // C06: with every future dropped and the ring dropped, every operation
        // state has been freed exactly once.
        let mut leaks = Vec::new();
        for (i, o) in self.ops.iter().enumerate() {
            if o.state_addr.is_some() && o.frees == 0 && !started_after_drop[i] {
                leaks.push((i, o.kind.clone()));
            }
        }
        for (i, kind) in leaks {
            if self.lost_at_drop > 0 {
                self.fail("C12", "C12/ring-drop-cq-overflow", format!("op{i} ({kind}) state never reclaimed: {} completions were left on the overflow list when the ring was dropped", self.lost_at_drop));
            } else {
                self.fail("C06", &format!("C06/state-leaked/{kind}"), format!("state of op{i} was never freed although its future and the ring were dropped"));
            }
        }
        drop(self.pool.take());
        let raw = self.fd.as_fd().map(|f| std::os::fd::AsRawFd::as_raw_fd(&f));
        if let Some(raw) = raw {
            unsafe { libc::close(raw) };
        }
        unsafe { drop(Box::from_raw(std::ptr::from_ref(self.fd).cast_mut())) };
        drop(self.sq.take());
        simk::drain_events();
        util::drain_wakes();
        track::drain_frees();
        simk::reset();
        track::release_quarantine();
        let mut features = std::mem::take(&mut self.feats);
        features.sort();
        features.dedup();
        let nontrivial = features.iter().any(|f| f == "drop-in-flight" || f == "restart" || f == "out-of-order" || f == "multi-batch" || f == "zc-two-step" || f == "queue-full" || f == "race");
        CaseReport { oracle: std::mem::take(&mut self.oracle), features, nontrivial }
    }
}

fn single_new_block(mark: u64) -> Option<usize> {
    let v = track::live_since(mark - 1);
    if v.len() == 1 { Some(v[0].base) } else { None }
}

impl LifeCase {
    fn run_race(&mut self, kind: &str, i: usize, w: u32, schedule: &str) {
        use std::sync::{Arc, Mutex};
        self.feats.push("race".into());
        let op_addr = self.ops[i].state_addr;
        let old_tail = simk::with_ring(self.rfd, |r, _| r.sq_tail());
        let obj_slot: Arc<Mutex<Option<Box<dyn Pollable>>>> = Arc::new(Mutex::new(self.ops[i].obj.take()));
        let ring_slot: Arc<Mutex<Option<Ring>>> = Arc::new(Mutex::new(self.ring.take()));
        sched::install();
        let is_drop = kind == "drop";
        let a_slot = obj_slot.clone();
        let ta = sched::spawn(move || {
            let mut obj = util::lockp(&a_slot).take().unwrap();
            if is_drop {
                drop(obj);
                "dropped".to_string()
            } else {
                let waker = util::waker(w);
                let mut cx = Context::from_waker(&waker);
                let r = obj.poll(&mut cx);
                *util::lockp(&a_slot) = Some(obj);
                r.unwrap_or_else(|| "pending".to_string())
            }
        });
        let b_slot = ring_slot.clone();
        let tb = sched::spawn(move || {
            let mut ring = util::lockp(&b_slot).take().unwrap();
            let r = ring.poll(Some(Duration::ZERO));
            *util::lockp(&b_slot) = Some(ring);
            if r.is_err() { "error".to_string() } else { String::new() }
        });
        // per-thread observations
        let mut a_sqes: Vec<String> = Vec::new();
        let mut a_frees: Vec<usize> = Vec::new();
        let mut b_wakes: Vec<u32> = Vec::new();
        let mut b_frees: Vec<usize> = Vec::new();
        let mut first: Option<char> = None;
        let mut tail_seen = old_tail;
        let tids = [ta, tb];
        let mut order: Vec<char> = schedule.chars().collect();
        for _ in 0..400 {
            order.push('0');
            order.push('1');
        }
        for c in order {
            let k = if c == '0' { 0 } else { 1 };
            let tid = tids[k];
            let before = sched::status(tid);
            if matches!(before, Some(SchedStatus::Done(_))) {
                if matches!(sched::status(tids[1 - k]), Some(SchedStatus::Done(_))) {
                    break;
                }
                continue;
            }
            let after = sched::step(tid);
            // who took the operation's mutex first decides the linearisation order
            if first.is_none() {
                if let (Some(SchedStatus::Parked(sched::LOCK, a)), Some(oa)) = (&before, op_addr) {
                    let still = matches!(&after, SchedStatus::Parked(sched::LOCK, b) if b == a);
                    if *a == oa && !still {
                        first = Some(c);
                    }
                }
            }
            // attribute what just happened to the thread that ran
            let wakes = util::drain_wakes();
            let frees = self.collect_frees();
            if k == 0 {
                let lines = self.new_sqes(tail_seen, if is_drop { None } else { Some(i) }, if is_drop { Some(i) } else { None });
                tail_seen = simk::with_ring(self.rfd, |r, _| r.sq_tail());
                a_sqes.extend(lines);
                a_frees.extend(frees);
                if !wakes.is_empty() {
                    self.fail("C03", "C03/wake-from-wrong-thread", "the future's own thread invoked a waker during a race".into());
                }
            } else {
                b_wakes.extend(wakes);
                b_frees.extend(frees);
            }
        }
        sched::finish_all();
        sched::uninstall();
        self.ring = util::lockp(&ring_slot).take();
        let a_result = match sched_result(ta) { Some(r) => r, None => "panic".to_string() };
        if first == Some('1') {
            // the completion was processed before the future's action
            self.after_ring_poll(&b_wakes);
        }
        // A's output lines (same format as the plain ops)
        let mut a_lines: Vec<String> = Vec::new();
        let a_op: String;
        if is_drop {
            self.ops[i].dropped_running = self.ops[i].ud_inflight.is_some();
            for l in &a_sqes {
                if let Some(tg) = l.strip_prefix("cancel op") {
                    if tg.parse::<usize>().ok() != Some(i) {
                        self.fail("C06", "C06/cancel-wrong-target", format!("dropping op{i} requested cancellation of op{tg}"));
                    }
                }
            }
            a_lines.extend(a_sqes);
            for f in a_frees {
                a_lines.push(format!("free op{f}"));
            }
            if a_lines.is_empty() {
                a_lines.push("-".into());
            }
            a_op = format!("life drop {i}");
        } else {
            self.ops[i].obj = util::lockp(&obj_slot).take();
            a_lines.push(a_result.clone());
            a_lines.extend(a_sqes);
            a_op = format!("life poll {i} {w}");
            // oracle bookkeeping as in the plain poll
            let o = &mut self.ops[i];
            if a_result == "pending" {
                o.last_pending = Some(w);
                o.woken_since = false;
                o.ready_since = false;
            } else if a_result != "panic" {
                o.last_pending = None;
                o.ready_since = false;
                if a_result == "ready none" {
                    o.finished = true;
                } else {
                    let got: i64 = if let Some(v) = a_result.strip_prefix("ready ok ") { v.parse().unwrap_or(i64::MIN) } else if let Some(v) = a_result.strip_prefix("ready err ") { v.parse::<i64>().map(|n| -n).unwrap_or(i64::MIN) } else { i64::MIN };
                    let exp = o.expected.pop_front();
                    if !o.multi {
                        o.finished = true;
                    }
                    if exp != Some(got) {
                        let kind = o.kind.clone();
                        self.fail("C02", &format!("C02/wrong-result/{kind}"), format!("op{i} returned {got} in a race with completion processing, expected {exp:?}"));
                    }
                }
            }
        }
        if first != Some('1') {
            self.after_ring_poll(&b_wakes);
        }
        // B's output lines (a Ring::poll that did not enter the kernel)
        let head = simk::with_ring(self.rfd, |r, _| r.cq_head());
        let b_lines = vec!["noenter".to_string(), format!("wakes {} frees {}", list(&b_wakes), list(&b_frees)), format!("cqhead={head}")];
        let b_op = "life rpoll -".to_string();
        if first == Some('1') {
            self.raced = vec![(b_op, b_lines), (a_op, a_lines)];
            self.feats.push("race-completion-first".into());
        } else {
            self.raced = vec![(a_op, a_lines), (b_op, b_lines)];
            self.feats.push("race-future-first".into());
        }
        self.check_wakeups();
    }
}

fn sched_result(tid: usize) -> Option<String> {
    match sched::status(tid) {
        Some(SchedStatus::Done(r)) => if r == "panic" { None } else { Some(r) },
        _ => None,
    }
}

impl LifeCase {
    /// A plausible next completion for operation `i` (mostly valid, all outcomes).
    fn gen_result(&mut self, rng: &mut Rng, i: usize) -> (i32, u32) {
        let Some(op) = self.ops.get(i) else { return (1, 0) };
        let posted = simk::with_ring(self.rfd, |r, _| {
            op.ud_inflight.and_then(|ud| r.inflight.iter().find(|x| x.sqe.user_data == ud).map(|x| x.posted)).unwrap_or(0)
        });
        let errs = [-libc::EINTR, -libc::ECANCELED, -libc::EIO, -libc::EAGAIN, -libc::EPIPE];
        let small = |rng: &mut Rng| rng.range(1, 64) as i32;
        match op.kind.as_str() {
            "sendzc" | "sendmsgzc" => {
                if posted >= 1 {
                    (0, CQE_F_NOTIF)
                } else {
                    match rng.weighted(&[6, 2, 2]) {
                        0 => (small(rng), CQE_F_MORE),
                        1 => (*rng.pick(&errs), 0),
                        _ => (*rng.pick(&errs[..2]), CQE_F_MORE),
                    }
                }
            }
            "mread" => match rng.weighted(&[8, 2, 2, 1]) {
                0 => (small(rng), CQE_F_MORE),
                1 => (0, 0),
                2 => (*rng.pick(&[-libc::ECANCELED, -libc::EINTR, -libc::ENOBUFS, -libc::EIO]), 0),
                _ => (small(rng), 0),
            },
            _ => match rng.weighted(&[7, 1, 3]) {
                0 => (small(rng), 0),
                1 => (0, 0),
                _ => (*rng.pick(&errs), 0),
            },
        }
    }
}

impl Comp for LifeComp {
    fn name(&self) -> &'static str {
        "life"
    }
    fn rule(&self) -> String {
        "each case = a random script of ≤ 40 ops over ≤ 5 concurrent real operations (read, write, zero-copy send, multishot read) on a ring with sq ∈ {1,2,4}, cq ∈ {2,4,8} and random initial 32-bit counters (0, 2^31, 2^32-k): new/poll(with same or replaced waker)/drop/kpost(any outcome incl. EINTR/ECANCELED, F_MORE, F_NOTIF)/rpoll(with completions posted during enter)/rdrop + a malformed stream; non-trivial = the case drops a future while its submission is in flight, restarts after EINTR/ECANCELED, completes operations out of submission order, splits a multishot batch across polls, goes through the zero-copy two-step, or hits a full submission queue; distinct = distinct op scripts".into()
    }
    fn gen_header(&mut self, rng: &mut Rng, id: u64, _tier: &str) -> String {
        let sq = *rng.pick(&[1u32, 2, 2, 4]);
        let cq = (*rng.pick(&[1u32, 2, 4])) * sq.max(1);
        let cq = cq.max(2);
        let ctr = |rng: &mut Rng| -> u32 {
            match rng.below(4) {
                0 => 0,
                1 => 1 << 31,
                _ => u32::MAX - rng.below(6) as u32,
            }
        };
        format!("life begin {id} sq={sq} cq={cq} sqh={} cqh={} steps={}", ctr(rng), ctr(rng), rng.range(8, 40))
    }
    fn begin(&mut self, header: &str) -> Box<dyn Case> {
        Box::new(LifeCase::new(header))
    }
}
