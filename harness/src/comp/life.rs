//! Operation life cycle against the simulated kernel (C01, C02, C03a, C06, C09).
//!
//! Several real a10 operations share one small ring. The script decides when
//! futures are polled and dropped, when the kernel consumes submissions
//! (inside `Ring::poll`), which completions it posts, in which order and
//! batches, and when the ring is dropped.

use std::collections::{HashMap, VecDeque};
use std::future::Future;
use std::net::SocketAddr;
use std::os::fd::AsRawFd;
use std::path::PathBuf;
use std::pin::Pin;
use std::sync::Mutex;
use std::sync::atomic::Ordering;
use std::task::{Context, Poll};
use std::time::Duration;

use a10::io::ReadBufPool;
use a10::{AsyncFd, Ring, SubmissionQueue};

use crate::comp::{Case, CaseReport, Comp};
use crate::sched::{self, Status as SchedStatus};
use crate::simk::{self, KEv, PostSpec, Target, CQE_F_MORE, CQE_F_NOTIF};
use crate::track;
use crate::util::{self, Rng};

pub struct LifeComp;

/// Type-erased operation under test. `None` = Pending.
trait Pollable: Send {
    fn poll(&mut self, cx: &mut Context<'_>) -> Option<String>;
    /// The scripted `drop` of the future. Everything but `ReceiveSignals` is
    /// simply dropped; at the end of a case whatever is left is dropped plainly.
    fn discard(self: Box<Self>) {}
}

struct FutOp<F, T> {
    fut: Pin<Box<F>>,
    canon: fn(T) -> String,
}

impl<F: Future<Output = std::io::Result<T>> + Send, T: Send> Pollable for FutOp<F, T> {
    fn poll(&mut self, cx: &mut Context<'_>) -> Option<String> {
        match self.fut.as_mut().poll(cx) {
            Poll::Pending => None,
            Poll::Ready(Ok(v)) => Some(format!("ready ok {}", (self.canon)(v))),
            Poll::Ready(Err(e)) => Some(format!("ready err {}", err_num(&e))),
        }
    }
}

fn err_num(e: &std::io::Error) -> String {
    match e.raw_os_error() {
        Some(n) => n.to_string(),
        None => format!("{:?}", e.kind()),
    }
}

struct MRead(Pin<Box<a10::io::MultishotRead<'static>>>);
impl Pollable for MRead {
    fn poll(&mut self, cx: &mut Context<'_>) -> Option<String> {
        match self.0.as_mut().poll_next(cx) {
            Poll::Pending => None,
            Poll::Ready(None) => Some("ready none".into()),
            Poll::Ready(Some(Ok(buf))) => Some(format!("ready ok {}", buf.len())),
            Poll::Ready(Some(Err(e))) => Some(format!("ready err {}", err_num(&e))),
        }
    }
}

/// Multishot streams other than `MultishotRead` (`poll_next` is an inherent
/// method of each type, hence the function pointer).
struct MIter<S: Send> {
    it: Pin<Box<S>>,
    next: fn(Pin<&mut S>, &mut Context<'_>) -> Poll<Option<std::io::Result<String>>>,
}
impl<S: Send> Pollable for MIter<S> {
    fn poll(&mut self, cx: &mut Context<'_>) -> Option<String> {
        match (self.next)(self.it.as_mut(), cx) {
            Poll::Pending => None,
            Poll::Ready(None) => Some("ready none".into()),
            Poll::Ready(Some(Ok(v))) => Some(format!("ready ok {v}")),
            Poll::Ready(Some(Err(e))) => Some(format!("ready err {}", err_num(&e))),
        }
    }
}

/// `a10::process::ReceiveSignals`: a stream that re-arms ONE single-shot
/// operation state (`reset`) after every delivered signal. The operation model
/// describes one operation, so the stream is observed for its first item only:
/// after it delivered `Ok` the wrapper does not call into a10 again (a poll
/// then is a contract violation, reported as `panic` like for any completed
/// future). The scripted drop goes through `into_inner` (one of its two
/// hand-written drop paths; the returned `Signals` is parked so that closing
/// its descriptor does not take a submission slot), the drop at the end of a
/// case through its `Drop`.
struct SigStream {
    it: Option<Pin<Box<a10::process::ReceiveSignals>>>,
    delivered: bool,
}
impl Pollable for SigStream {
    fn poll(&mut self, cx: &mut Context<'_>) -> Option<String> {
        if self.delivered {
            panic!("first item of the signal stream already delivered");
        }
        match self.it.as_mut().unwrap().as_mut().poll_next(cx) {
            Poll::Pending => None,
            Poll::Ready(None) => Some("ready none".into()),
            Poll::Ready(Some(Ok(info))) => {
                self.delivered = true;
                Some(format!("ready ok {}", canon_siginfo(info)))
            }
            Poll::Ready(Some(Err(e))) => Some(format!("ready err {}", err_num(&e))),
        }
    }
    fn discard(mut self: Box<Self>) {
        if let Some(it) = self.it.take() {
            // SAFETY: `ReceiveSignals` is not structurally pinned by anything the
            // harness relies on; `into_inner` consumes it by value.
            let rs = unsafe { Pin::into_inner_unchecked(it) };
            let signals = rs.into_inner();
            util::lockp(&PARK_SIGNALS).push(signals);
        }
    }
}

// --- results that are descriptors --------------------------------------------
//
// The script names a descriptor result by a small number; the simulated
// kernel hands out a real descriptor for it and the value printed when the
// future resolves is the script's number again. Descriptors the operations
// return are parked until the end of the case: dropping an `AsyncFd` queues a
// CLOSE submission, which is not part of the operation life cycle.

static FDMAP: Mutex<Vec<(i32, i64)>> = Mutex::new(Vec::new());
static PARK: Mutex<Vec<AsyncFd>> = Mutex::new(Vec::new());
static PARK_SIGNALS: Mutex<Vec<a10::process::Signals>> = Mutex::new(Vec::new());

fn canon_fd(fd: AsyncFd) -> String {
    let raw = fd.as_fd().map(|f| f.as_raw_fd());
    let s = match raw {
        Some(raw) => {
            let mut m = util::lockp(&FDMAP);
            match m.iter().position(|(r, _)| *r == raw) {
                Some(p) => m.remove(p).1.to_string(),
                None => "fd".to_string(),
            }
        }
        None => "direct".to_string(),
    };
    util::lockp(&PARK).push(fd);
    s
}

/// The address the simulated kernel writes into address out-parameters.
fn kernel_addr() -> SocketAddr {
    "127.0.0.1:4660".parse().unwrap()
}

fn canon_addr(a: SocketAddr, ok: &str) -> String {
    if a == kernel_addr() { ok.to_string() } else { format!("wrong-address:{a}") }
}

fn canon_siginfo(info: a10::process::SignalInfo) -> String {
    if info.signal() == a10::process::Signal::USER2 && info.pid() == 4242 { "128".into() } else { "wrong-siginfo".into() }
}

/// How the completions of a kind look like (what the generator posts, what
/// the future's output is reduced to).
#[derive(Copy, Clone, PartialEq, Debug)]
enum Cls {
    /// transferred length
    Len,
    /// zero-copy send: length, then the notification
    Zc,
    /// a new descriptor
    Fd,
    /// 0
    Zero,
    /// a fixed positive value (option length, size of the signal record, number of slots)
    Fixed(i32),
    /// multishot: lengths with pool buffers
    MBuf,
    /// multishot: descriptors
    MFd,
    /// multishot: a fixed positive value
    MFixed(i32),
}

#[allow(dead_code)] // `opc` documents the opcode; the model prints it (Model/Life.lean `kinds`)
struct KindDef {
    name: &'static str,
    opc: &'static str,
    cls: Cls,
    /// the kernel writes payload bytes (data buffers)
    reads: bool,
}

const fn kd(name: &'static str, opc: &'static str, cls: Cls, reads: bool) -> KindDef {
    KindDef { name, opc, cls, reads }
}

const KIND_TABLE: &[KindDef] = &[
    kd("read", "READ", Cls::Len, true),
    kd("write", "WRITE", Cls::Len, false),
    kd("sendzc", "SEND_ZC", Cls::Zc, false),
    kd("mread", "READ_MULTISHOT", Cls::MBuf, true),
    // a multishot read that owns the LAST handle of its buffer pool
    kd("mreado", "READ_MULTISHOT", Cls::MBuf, true),
    kd("readv", "READV", Cls::Len, true),
    kd("writev", "WRITEV", Cls::Len, false),
    kd("sendto", "SEND", Cls::Len, false),
    kd("sendmsgzc", "SENDMSG_ZC", Cls::Zc, false),
    kd("recvv", "RECVMSG", Cls::Len, true),
    // 1. plain socket I/O
    kd("recv", "RECV", Cls::Len, true),
    kd("send", "SEND", Cls::Len, false),
    kd("recvfrom", "RECVMSG", Cls::Len, true),
    kd("recvfromv", "RECVMSG", Cls::Len, true),
    kd("sendtov", "SENDMSG", Cls::Len, false),
    kd("sendmsg", "SENDMSG", Cls::Len, false),
    // 2. connections, names, options
    kd("accept", "ACCEPT", Cls::Fd, false),
    kd("maccept", "ACCEPT", Cls::MFd, false),
    kd("mrecv", "RECV", Cls::MBuf, true),
    kd("connect", "CONNECT", Cls::Zero, false),
    kd("bind", "BIND", Cls::Zero, false),
    // the same with Unix addresses (address storage = sockaddr_un + its length)
    kd("connectu", "CONNECT", Cls::Zero, false),
    kd("bindu", "BIND", Cls::Zero, false),
    kd("sendtou", "SEND", Cls::Len, false),
    kd("listen", "LISTEN", Cls::Zero, false),
    kd("shutdown", "SHUTDOWN", Cls::Zero, false),
    kd("sockname", "URING_CMD", Cls::Zero, false),
    kd("peername", "URING_CMD", Cls::Zero, false),
    kd("getsockopt", "URING_CMD", Cls::Fixed(4), false),
    kd("setsockopt", "URING_CMD", Cls::Zero, false),
    // 3. file system
    kd("open", "OPENAT", Cls::Fd, false),
    kd("statx", "STATX", Cls::Zero, false),
    kd("rename", "RENAMEAT", Cls::Zero, false),
    kd("unlink", "UNLINKAT", Cls::Zero, false),
    kd("rmdir", "UNLINKAT", Cls::Zero, false),
    kd("mkdir", "MKDIRAT", Cls::Zero, false),
    kd("truncate", "FTRUNCATE", Cls::Zero, false),
    kd("fsync", "FSYNC", Cls::Zero, false),
    kd("fdatasync", "FSYNC", Cls::Zero, false),
    kd("fallocate", "FALLOCATE", Cls::Zero, false),
    kd("fadvise", "FADVISE", Cls::Zero, false),
    kd("splice", "SPLICE", Cls::Len, false),
    // 4. processes, signals, descriptors
    kd("waitid", "WAITID", Cls::Zero, false),
    kd("sigrecv", "READ", Cls::Fixed(128), true),
    kd("sigstream", "READ", Cls::Fixed(128), true),
    kd("pipe", "PIPE", Cls::Zero, false),
    kd("mpoll", "POLL_ADD", Cls::MFixed(1), false),
    kd("close", "CLOSE", Cls::Zero, false),
    kd("todirect", "FILES_UPDATE", Cls::Fixed(1), false),
    kd("tofd", "FIXED_FD_INSTALL", Cls::Fd, false),
    kd("socket", "SOCKET", Cls::Fd, false),
];

fn kind_def(kind: &str) -> Option<&'static KindDef> {
    KIND_TABLE.iter().find(|k| k.name == kind)
}

struct OpSlot {
    kind: String,
    cls: Cls,
    reads: bool,
    multi: bool,
    obj: Option<Box<dyn Pollable>>,
    /// address of the `Data` box (== user_data & !1)
    state_addr: Option<usize>,
    state_block: Option<u64>,
    user_data: Option<u64>,
    /// user_data while a submission of this operation is published / in flight
    ud_inflight: Option<u64>,
    /// blocks of the resources handed to the operation (buffers)
    res_blocks: Vec<u64>,
    /// (address, length) of those resources
    res_addrs: Vec<(usize, usize)>,
    /// number of submissions published for it
    attempts: u32,
    // --- oracle state ---
    /// C02: results the caller must still observe, in order.
    expected: VecDeque<i64>,
    /// C02 single-shot: value of the first non-NOTIF CQE of the current submission.
    slot: Option<i64>,
    /// C03: waker of the last poll that returned Pending.
    last_pending: Option<u32>,
    /// C03: a ready-making completion was posted since that poll.
    ready_since: bool,
    /// C03: ready-making completions posted for it and not yet processed by Ring::poll
    unprocessed_ready: u32,
    woken_since: bool,
    /// C09: the SQE of the previous attempt.
    last_sqe: Option<[u8; 64]>,
    finished: bool,
    frees: u32,
    dropped_running: bool,
    started_after_rdrop: bool,
    /// a final EINTR/ECANCELED completion was posted while the future was alive
    restart_seen: bool,
    /// a final completion that is not a restart was posted
    final_nonrestart: bool,
}

struct LifeCase {
    ring: Option<Ring>,
    sq: Option<SubmissionQueue>,
    rfd: i32,
    fd: &'static AsyncFd,
    pool: Option<ReadBufPool>,
    ops: Vec<OpSlot>,
    addr2op: HashMap<usize, usize>,
    steps_left: u32,
    max_ops: usize,
    sq_len: u32,
    oracle: Vec<(String, String, String)>,
    feats: Vec<String>,
    ring_dropped: bool,
    lost_at_drop: usize,
    /// a use-after-free was detected: stop calling into a10 for this case
    poisoned: bool,
    /// Wakers of polls that returned Pending because the submission queue was full and that
    /// have not been invoked since (C03, second sentence).
    blocked_wakers: Vec<u32>,
    /// Generator: an operation that was just woken from the blocked list and is to be blocked a second
    /// time with the same waker (the queue is filled up again first), and a fresh operation to poll next.
    reblock: Option<(usize, u32)>,
    /// generator pattern "the same operation is interrupted / cancelled over and over": (op, rounds left, phase)
    storm: Option<(usize, u32, u8)>,
    fill_pending: Option<usize>,
    /// outputs recorded by a `race`, replayed by the next ops: (op line, output lines)
    raced: Vec<(String, Vec<String>)>,
    /// a direct descriptor (made by `to_direct_descriptor` before the script starts)
    dfd: &'static AsyncFd,
    /// second ring whose readiness `mpoll` operations wait for (made on demand)
    other: Option<Ring>,
    /// `Signals` the `sigrecv` futures borrow
    signals: Vec<&'static a10::process::Signals>,
}

/// Size of the record `signalfd(2)` returns.
const SIGINFO_LEN: usize = 128;

impl LifeCase {
    fn new(header: &str) -> LifeCase {
        let t: Vec<&str> = header.split(' ').collect();
        let get = |k: &str| -> u32 {
            t.iter()
                .find_map(|x| x.strip_prefix(&format!("{k}=")))
                .and_then(|v| v.parse().ok())
                .unwrap_or(0)
        };
        let (sq_len, cq_len, sqh, cqh) = (get("sq"), get("cq"), get("sqh"), get("cqh"));
        simk::reset();
        // One submission and one completion are used up before the script starts
        // (see `make_direct`), so the counters start one earlier.
        simk::activate(simk::SetupCfg {
            sq_head0: sqh.wrapping_sub(1),
            cq_head0: cqh.wrapping_sub(1),
            ..Default::default()
        });
        simk::WRITE_OUT_PARAMS.store(true, Ordering::SeqCst);
        simk::DEFER_CLOSE_OPS.store(true, Ordering::SeqCst);
        track::quarantine_all(true);
        util::lockp(&FDMAP).clear();
        // `kt=1`: a ring with a kernel thread (IORING_SETUP_SQPOLL). The simulated thread is the
        // deterministic one (`simk::SQPOLL_EAGER`): it takes what is published at every enter and
        // is idle (NEED_WAKEUP) in between, so a10 has to wake it with every enter — the model is
        // the same as without a kernel thread.
        let kt = get("kt") == 1;
        simk::SQPOLL_EAGER.store(kt, Ordering::SeqCst);
        let cfg = Ring::config().with_submission_queue_size(sq_len).with_completion_queue_size(cq_len);
        let cfg = if kt { cfg.with_kernel_thread() } else { cfg };
        let mut ring = cfg.build().expect("ring build");
        simk::SQPOLL_EAGER.store(false, Ordering::SeqCst);
        let sq = ring.sq();
        let rfd = simk::with_sim(|s| *s.rings.keys().next().unwrap());
        let raw = simk::with_ring(rfd, |r, _| r.fresh_fd());
        let fd: &'static AsyncFd =
            Box::leak(Box::new(unsafe { AsyncFd::from_raw_fd(raw, sq.clone()) }));
        let pool = ReadBufPool::new(sq.clone(), 64, 64).expect("pool");
        let dfd = make_direct(&mut ring, fd, rfd);
        simk::drain_events();
        util::drain_wakes();
        track::drain_frees();
        // Kernel contract KC1 (every published submission is consumed by the next enter, also after
        // one of them is rejected) holds only for rings created with IORING_SETUP_SUBMIT_ALL; the
        // model and the simulated kernel presuppose it.
        let mut oracle: Vec<(String, String, String)> = Vec::new();
        let kflags = simk::with_ring(rfd, |r, _| r.flags);
        if kflags & simk::SETUP_SUBMIT_ALL == 0 {
            for p in ["C06", "C12"] {
                oracle.push((p.into(), format!("{p}/kernel-contract/submit-all-not-requested"), format!("the ring was set up without IORING_SETUP_SUBMIT_ALL (flags {kflags:#x}): a rejected submission stops the batch, so the flush at Ring drop and the cancel requests of dropped operations can stay unsubmitted while SYNC_CANCEL runs; the correspondence (KC1) no longer covers this code")));
            }
        }
        LifeCase {
            ring: Some(ring),
            sq: Some(sq),
            rfd,
            fd,
            pool: Some(pool),
            ops: Vec::new(),
            addr2op: HashMap::new(),
            steps_left: get("steps"),
            max_ops: 5,
            sq_len,
            oracle,
            feats: if kt { vec!["kernel-thread".into()] } else { Vec::new() },
            ring_dropped: false,
            lost_at_drop: 0,
            poisoned: false,
            blocked_wakers: Vec::new(),
            reblock: None,
            storm: None,
            fill_pending: None,
            raced: Vec::new(),
            dfd,
            other: None,
            signals: Vec::new(),
        }
    }

    fn fail(&mut self, prop: &str, sig: &str, what: String) {
        self.oracle.push((prop.into(), sig.into(), what));
    }

    /// Lines for submissions published since `old_tail`; learns user_data.
    fn new_sqes(&mut self, old_tail: u32, polled: Option<usize>, dropping: Option<usize>) -> Vec<String> {
        let mut lines = Vec::new();
        let entries: Vec<simk::Sqe> = simk::with_ring(self.rfd, |r, _| {
            let tail = r.sq_tail();
            let mut v = Vec::new();
            let mut t = old_tail;
            while t != tail {
                v.push(r.sqe_at(t));
                t = t.wrapping_add(1);
            }
            v
        });
        for sqe in entries {
            if sqe.opcode == simk::OP_ASYNC_CANCEL {
                let target = match dropping {
                    Some(d) if self.ops[d].user_data == Some(sqe.addr) => Some(d),
                    _ => self.ops.iter().position(|o| o.ud_inflight == Some(sqe.addr)),
                };
                match target {
                    Some(t) => lines.push(format!("cancel op{t}")),
                    None => lines.push(format!("cancel unknown:{:#x}", sqe.addr)),
                }
                if sqe.user_data != 2 || sqe.flags & simk::IOSQE_CQE_SKIP_SUCCESS == 0 {
                    self.fail("C06", "C06/cancel-encoding", format!("cancel request with user_data {} flags {:#x}", sqe.user_data, sqe.flags));
                }
                continue;
            }
            let Some(i) = polled else {
                lines.push(format!("sqe ? {}", simk::opcode_name(sqe.opcode)));
                continue;
            };
            let op = &mut self.ops[i];
            let addr = (sqe.user_data & !1) as usize;
            if let Some(a) = op.state_addr {
                if a != addr {
                    self.oracle.push(("C01".into(), "C01/user-data-moved".into(), format!("op{i} user_data {:#x} is not its state box {:#x}", addr, a)));
                }
            }
            if (sqe.user_data & 1 == 1) != op.multi {
                self.oracle.push(("C02".into(), "C02/tag".into(), format!("op{i} multishot tag mismatch")));
            }
            op.user_data = Some(sqe.user_data);
            op.ud_inflight = Some(sqe.user_data);
            op.state_addr = Some(addr);
            if op.state_block.is_none() {
                op.state_block = track::watch(addr).map(|b| b.id);
            }
            // Every heap region this submission hands to the kernel is watched from
            // now on: a free / reallocation before the final completion is recorded
            // (and the block quarantined), whatever kind of resource it is.
            for r in simk::regions_of(&sqe) {
                if let Some(b) = track::watch(r.addr) {
                    if !op.res_blocks.contains(&b.id) {
                        op.res_blocks.push(b.id);
                    }
                }
                if r.block.is_some() && !op.res_addrs.contains(&(r.addr, r.len)) {
                    op.res_addrs.push((r.addr, r.len));
                }
            }
            self.addr2op.insert(addr, i);
            // C09: a re-issued request is byte-identical to the previous attempt.
            let bytes = sqe.bytes();
            if let Some(prev) = op.last_sqe {
                if prev != bytes {
                    self.oracle.push(("C09".into(), format!("C09/resubmit-differs/{}", op.kind), format!("op{i}: re-issued submission differs from the first attempt")));
                }
            }
            op.last_sqe = Some(bytes);
            op.attempts += 1;
            op.slot = None;
            lines.push(format!("sqe op{i} {}", simk::opcode_name(sqe.opcode)));
        }
        lines
    }

    fn collect_frees(&mut self) -> Vec<usize> {
        let mut v = Vec::new();
        for b in track::drain_double_frees() {
            let who = self.ops.iter().position(|o| o.state_block == Some(b.id));
            match who {
                Some(i) => self.fail("C06", "C06/double-free", format!("state of op{i} freed twice (use after free)")),
                None => {
                    self.fail("C06", "C06/double-free-resources", format!("a resource buffer ({} bytes) was freed twice", b.size));
                    let restarted = self.ops.iter().position(|o| o.attempts >= 2 && o.res_blocks.contains(&b.id));
                    if let Some(i) = restarted {
                        let kind = self.ops[i].kind.clone();
                        self.fail("C09", &format!("C09/resources-released-before-reissue/{kind}"), format!("the buffer of the re-issued op{i} was released twice: once when the interruption was swallowed, once at the end"));
                    }
                }
            }
        }
        for b in track::drain_frees() {
            if let Some(i) = self.addr2op.get(&b.base).copied() {
                let i = &i;
                self.ops[*i].frees += 1;
                if self.ops[*i].frees > 1 {
                    self.fail("C06", "C06/double-free", format!("state of op{i} freed twice"));
                }
                v.push(*i);
                self.addr2op.remove(&b.base);
            }
        }
        v
    }

    fn kernel_events(&mut self) {
        for e in simk::drain_events() {
            match e {
                KEv::BadMemory { seq, what, addr } => {
                    let sig = format!("C01/freed-while-in-flight/{what}");
                    self.fail("C01", &sig, format!("kernel about to touch {what} at {addr:#x} of submission #{seq}, which is no longer the block it was at submission"));
                    // C09: was it a re-issued operation whose resources were released in between?
                    let restarted = self.ops.iter().position(|o| o.attempts >= 2 && o.res_addrs.iter().any(|(a, l)| addr >= *a && addr < *a + (*l).max(1)));
                    if let Some(i) = restarted {
                        let kind = self.ops[i].kind.clone();
                        self.fail("C09", &format!("C09/resources-released-before-reissue/{kind}"), format!("op{i} was re-issued after an interruption with {what} at {addr:#x}, which had been released (not the same resources)"));
                    }
                }
                KEv::FreedState { seq, user_data } => {
                    self.fail("C01", "C01/state-freed-before-final-cqe", format!("operation state {user_data:#x} (submission #{seq}) freed before its final completion"));
                    self.fail("C02", "C02/completion-without-owner", format!("operation state {user_data:#x} (submission #{seq}) was freed although the kernel still owes it a completion: that completion will be delivered to whatever is allocated there next"));
                }
                KEv::TornEntry { index } => {
                    self.fail("C04", "C04/torn-entry", format!("kernel consumed an unwritten submission at slot {index}"));
                }
                _ => {}
            }
        }
    }

    /// Does operation `i` have a submission queued (unconsumed), in flight, or completed but not yet processed?
    fn has_submission(&self, i: usize) -> bool {
        let Some(addr) = self.ops[i].state_addr else { return false };
        if self.ops[i].state_block.is_none() {
            return false;
        }
        simk::with_ring(self.rfd, |r, _| {
            let (mut h, t) = (r.sq_head(), r.sq_tail());
            while h != t {
                let ud = r.sqe_at(h).user_data;
                if ud > 3 && (ud & !1) as usize == addr {
                    return true;
                }
                h = h.wrapping_add(1);
            }
            if r.inflight.iter().any(|x| x.sqe.user_data > 3 && (x.sqe.user_data & !1) as usize == addr) {
                return true;
            }
            // a completion of an earlier submission that a10 has not processed yet
            r.cq_pending().iter().chain(r.overflow.iter().map(|(_, c)| c)).any(|c| c.user_data > 3 && (c.user_data & !1) as usize == addr)
        })
    }

    /// C01/C06: every completion a10 is about to process must belong to a
    /// live operation state (it dereferences `user_data`). Returns false if a
    /// stale one was found (the call into a10 is then skipped: it would
    /// corrupt memory or hang on a freed mutex).
    fn completions_safe(&mut self) -> bool {
        let cqes: Vec<simk::Cqe> = simk::with_ring(self.rfd, |r, _| {
            let mut v = r.cq_pending();
            v.extend(r.overflow.iter().map(|(_, c)| *c));
            v
        });
        let mut ok = true;
        for c in cqes {
            if c.user_data <= 3 || c.flags & simk::CQE_F_SKIP != 0 {
                continue;
            }
            let addr = (c.user_data & !1) as usize;
            let live = track::block_of(addr);
            let owner = self.ops.iter().position(|o| o.state_addr == Some(addr) && o.state_block.is_some() && live.map(|b| b.id) == o.state_block);
            if owner.is_none() {
                ok = false;
                self.fail("C01", "C01/state-freed-before-final-cqe", format!("a completion for operation state {addr:#x} is pending, but that state has already been freed"));
                self.fail("C02", "C02/completion-without-owner", format!("a completion for operation state {addr:#x} is pending, but that state has already been freed: whatever is allocated there next receives a result the kernel never produced for it"));
            }
        }
        ok
    }

    /// Bookkeeping after a10 processed completions: which operations had a
    /// ready-making completion processed, then which wakers were invoked.
    fn after_ring_poll(&mut self, wakes: &[u32]) {
        let pending: Vec<simk::Cqe> = simk::with_ring(self.rfd, |r, _| {
            let mut v = r.cq_pending();
            v.extend(r.overflow.iter().map(|(_, c)| *c));
            v
        });
        for o in self.ops.iter_mut() {
            if o.unprocessed_ready == 0 {
                continue;
            }
            let Some(addr) = o.state_addr else { continue };
            let still = pending
                .iter()
                .filter(|c| c.user_data > 3 && (c.user_data & !1) as usize == addr && (o.multi || c.flags & CQE_F_MORE == 0))
                .count() as u32;
            let processed = o.unprocessed_ready.saturating_sub(still);
            if processed > 0 {
                o.ready_since = true;
                o.unprocessed_ready -= processed;
            }
        }
        self.note_wakes(wakes);
    }

    fn note_wakes(&mut self, wakes: &[u32]) {
        for w in wakes {
            for o in self.ops.iter_mut() {
                if o.last_pending == Some(*w) {
                    o.woken_since = true;
                }
            }
        }
    }

    /// C03 quiescence check: nothing is ready-but-unwoken once the CQ is drained.
    fn check_wakeups(&mut self) {
        let drained = simk::with_ring(self.rfd, |r, _| r.cq_count() == 0 && r.overflow.is_empty());
        if !drained {
            return;
        }
        let mut fails = Vec::new();
        for (i, o) in self.ops.iter().enumerate() {
            if o.obj.is_some() && !o.finished && o.last_pending.is_some() && o.ready_since && !o.woken_since {
                fails.push((i, o.kind.clone(), o.last_pending.unwrap()));
            }
        }
        for (i, kind, w) in fails {
            self.fail("C03", &format!("C03/lost-completion-wake/{kind}"), format!("op{i} returned Pending with waker {w}, its completion was processed, the waker was never called"));
        }
    }

    /// The completion the simulated kernel posts for `(res, flags)` of the script:
    /// descriptor results get a real descriptor, operations that read get payload
    /// bytes, PIPE gets its two descriptors, FILES_UPDATE the allocated slot.
    fn make_spec(&mut self, i: usize, res: i32, flags: u32) -> Option<PostSpec> {
        let ud = self.ops.get(i)?.ud_inflight?;
        let (cls, reads) = (self.ops[i].cls, self.ops[i].reads);
        let kind = self.ops[i].kind.clone();
        let mut spec = PostSpec::new(Target::UserData(ud), res, flags);
        match cls {
            Cls::Fd | Cls::MFd if res >= 0 && flags & CQE_F_NOTIF == 0 => {
                let real = simk::with_ring(self.rfd, |r, _| r.fresh_fd());
                util::lockp(&FDMAP).push((real, res as i64));
                spec.res = real;
            }
            _ => {}
        }
        if res > 0 && reads {
            if kind == "sigrecv" || kind == "sigstream" {
                let mut d = vec![0u8; (res as usize).min(SIGINFO_LEN)];
                if d.len() == SIGINFO_LEN {
                    d[0..4].copy_from_slice(&(libc::SIGUSR2 as u32).to_ne_bytes()); // ssi_signo
                    d[12..16].copy_from_slice(&4242u32.to_ne_bytes()); // ssi_pid
                }
                spec.data = Some(d);
            } else {
                spec.data = Some(vec![0xCD; res as usize]);
                spec.select_buf = cls == Cls::MBuf;
            }
        }
        if kind == "pipe" && res == 0 {
            let (a, b) = simk::with_ring(self.rfd, |r, _| (r.fresh_fd(), r.fresh_fd()));
            let mut d = a.to_ne_bytes().to_vec();
            d.extend_from_slice(&b.to_ne_bytes());
            spec.data = Some(d);
        }
        if kind == "todirect" && res > 0 {
            spec.data = Some(1i32.to_ne_bytes().to_vec());
        }
        Some(spec)
    }

    fn do_post(&mut self, i: usize, res: i32, flags: u32) -> Option<bool> {
        let ud = self.ops.get(i)?.ud_inflight?;
        simk::with_ring(self.rfd, |r, _| r.find_inflight(&Target::UserData(ud)))?;
        let spec = self.make_spec(i, res, flags)?;
        let r = simk::with_ring(self.rfd, |r, ev| {
            r.find_inflight(&spec.target)?;
            let n = ev.len();
            r.post(&spec, ev);
            let overflowed = ev[n..].iter().any(|e| matches!(e, KEv::Posted { overflowed: true, .. }));
            Some(!overflowed)
        })?;
        self.note_posted(i, res, flags);
        Some(r)
    }

    /// Oracle bookkeeping for a posted completion (C02 expected values, C03 readiness).
    fn note_posted(&mut self, i: usize, res: i32, flags: u32) {
        let fin = flags & CQE_F_MORE == 0;
        if fin && (res == -libc::EINTR || res == -libc::ECANCELED) && self.ops[i].obj.is_some() {
            self.feats.push("restart".into());
            self.feats.push(format!("kind/{}/restart", self.ops[i].kind));
        }
        if flags & CQE_F_NOTIF != 0 {
            self.feats.push("zc-two-step".into());
        }
        if self.ops[i].multi && !fin {
            self.feats.push("multi-batch".into());
        }
        // completed before an operation that was submitted earlier?
        let older_in_flight = simk::with_ring(self.rfd, |r, _| {
            let uds: Vec<u64> = r.inflight.iter().map(|x| x.sqe.user_data).collect();
            let me = self.ops[i].ud_inflight;
            uds.first().copied() != me && uds.len() > 0 && me.is_some()
        });
        if older_in_flight {
            self.feats.push("out-of-order".into());
        }
        let op = &mut self.ops[i];
        if fin {
            op.ud_inflight = None;
        }
        if op.multi {
            let restart = fin && (res == -libc::EINTR || res == -libc::ECANCELED);
            if restart && op.obj.is_some() {
                op.restart_seen = true;
            } else if fin {
                op.final_nonrestart = true;
            }
            if !restart {
                op.expected.push_back(res as i64);
            }
            op.unprocessed_ready += 1;
        } else {
            if flags & CQE_F_NOTIF == 0 {
                op.slot = Some(res as i64);
            }
            if fin {
                let v = op.slot.unwrap_or(0);
                let restart = v == -(libc::EINTR as i64) || v == -(libc::ECANCELED as i64);
                if restart && op.obj.is_some() {
                    op.restart_seen = true;
                } else {
                    op.final_nonrestart = true;
                }
                if !restart {
                    op.expected.push_back(v);
                }
                op.unprocessed_ready += 1;
            }
        }
        if op.dropped_running || op.obj.is_none() {
            // nobody will ever observe it
            op.expected.clear();
        }
    }
}

fn list<T: std::fmt::Display>(v: &[T]) -> String {
    if v.is_empty() { "-".into() } else { v.iter().map(|x| x.to_string()).collect::<Vec<_>>().join(",") }
}

impl Case for LifeCase {
    fn next_op(&mut self, rng: &mut Rng) -> Option<String> {
        if !self.raced.is_empty() {
            return Some(self.raced[0].0.clone());
        }
        if self.steps_left == 0 || self.poisoned {
            return None;
        }
        self.steps_left -= 1;
        // A race between a drop/poll of a future and the processing of its
        // completions (needs a completion already waiting in the queue).
        if self.ring.is_some() && rng.chance(1, 6) {
            let all: Vec<usize> = simk::with_ring(self.rfd, |r, _| {
                r.cq_pending().iter().filter(|c| c.user_data > 3).filter_map(|c| self.ops.iter().position(|o| o.obj.is_some() && o.state_addr == Some((c.user_data & !1) as usize))).collect()
            });
            let cands: Vec<usize> = all.iter().copied().filter(|i| all.iter().filter(|j| *j == i).count() == 1).collect();
            if !cands.is_empty() {
                let i = *rng.pick(&cands);
                let kind = if rng.chance(2, 3) { "drop" } else { "poll" };
                let n = rng.range(4, 24);
                let sc: String = (0..n).map(|_| if rng.chance(1, 2) { '0' } else { '1' }).collect();
                return Some(format!("life race {kind} {i} {} sched={sc}", i * 10));
            }
        }
        if self.steps_left == 0 && !self.ring_dropped {
            return Some("life rdrop".into());
        }
        // "blocked, woken, blocked again with the same waker": fill the queue up again before the
        // woken operation is polled
        if let Some(n) = self.fill_pending.take() {
            if n < self.ops.len() && self.ops[n].obj.is_some() && !self.ring_dropped {
                return Some(format!("life poll {n} {}", n * 10));
            }
        }
        if let Some((i, w)) = self.reblock {
            let usable = !self.ring_dropped && i < self.ops.len() && self.ops[i].obj.is_some() && !self.has_submission(i);
            if !usable {
                self.reblock = None;
            } else {
                let room = simk::with_ring(self.rfd, |r, _| r.sq_entries.saturating_sub(r.sq_tail().wrapping_sub(r.sq_head())));
                if room == 0 {
                    self.reblock = None;
                    return Some(format!("life poll {i} {w}"));
                }
                if self.ops.len() < self.max_ops + 3 {
                    let n = self.ops.len();
                    self.fill_pending = Some(n);
                    let kind = *rng.pick(&["read", "write", "recv", "fsync"]);
                    return Some(format!("life new {n} {kind}"));
                }
                self.reblock = None;
            }
        }
        let live: Vec<usize> = (0..self.ops.len()).filter(|i| self.ops[*i].obj.is_some()).collect();
        let inflight: Vec<usize> = simk::with_ring(self.rfd, |r, _| {
            r.inflight.iter().filter_map(|inf| self.ops.iter().position(|o| o.ud_inflight == Some(inf.sqe.user_data))).collect()
        });
        // "interrupted again and again": the same in-flight operation is finished with EINTR /
        // ECANCELED, processed, polled (restarted), submitted — a dozen times in a row
        if let Some((i, rounds, phase)) = self.storm {
            let usable = !self.ring_dropped && i < self.ops.len() && self.ops[i].obj.is_some();
            if !usable || rounds == 0 {
                self.storm = None;
            } else {
                self.storm = Some(if phase == 3 { (i, rounds - 1, 0) } else { (i, rounds, phase + 1) });
                match phase {
                    0 if inflight.contains(&i) => return Some(format!("life kpost {i} {} 0", if rng.chance(1, 2) { -libc::ECANCELED } else { -libc::EINTR })),
                    0 => self.storm = None,
                    1 | 3 => return Some("life rpoll -".into()),
                    _ => return Some(format!("life poll {i} {}", i * 10)),
                }
            }
        } else if !self.ring_dropped && !inflight.is_empty() && rng.chance(1, 50) {
            let i = *rng.pick(&inflight);
            self.storm = Some((i, 12, 0));
            self.steps_left += 50;
        }
        let can_new = self.ops.len() < self.max_ops;
        let w_new = if can_new { 4 } else { 0 };
        let w_poll = if live.is_empty() { 0 } else { 8 };
        let w_drop = if live.is_empty() { 0 } else { 2 };
        let w_kpost = if inflight.is_empty() { 0 } else { 8 };
        let w_rpoll = 6;
        let w_rdrop = if self.ring_dropped { 0 } else if rng.chance(1, 30) { 1 } else { 0 };
        let w_bad = if rng.chance(1, 25) { 1 } else { 0 };
        match rng.weighted(&[w_new, w_poll, w_drop, w_kpost, w_rpoll, w_rdrop, w_bad]) {
            0 => {
                let kind = rng.pick(KIND_TABLE).name;
                Some(format!("life new {} {kind}", self.ops.len()))
            }
            1 => {
                let i = *rng.pick(&live);
                let room = simk::with_ring(self.rfd, |r, _| r.sq_entries.saturating_sub(r.sq_tail().wrapping_sub(r.sq_head())));
                if self.ops[i].attempts == 0 && !self.ops[i].finished && !self.ring_dropped && room > 0 && rng.chance(1, 12) {
                    return Some(format!("life cpoll {i}"));
                }
                // mostly the same waker per op, sometimes a replaced one
                let w = if rng.chance(3, 4) { i as u64 * 10 } else { i as u64 * 10 + rng.range(1, 3) };
                if rng.chance(1, 25) && !self.ring_dropped {
                    Some(format!("life pollfail {i} {w} {}", *rng.pick(&[libc::EBUSY, libc::ENOMEM, libc::EEXIST])))
                } else {
                    Some(format!("life poll {i} {w}"))
                }
            }
            2 => Some(if rng.chance(1, 12) && !self.ring_dropped {
                format!("life dropfail {} {}", rng.pick(&live), *rng.pick(&[libc::EBUSY, libc::ENOMEM, libc::EEXIST]))
            } else {
                format!("life {} {}", if rng.chance(1, 8) { "pdrop" } else { "drop" }, rng.pick(&live))
            }),
            3 => {
                let i = *rng.pick(&inflight);
                let (res, flags) = self.gen_result(rng, i);
                Some(format!("life kpost {i} {res} {flags}"))
            }
            4 => {
                // completions posted during the enter call
                let mut posts = Vec::new();
                if rng.chance(1, 3) {
                    let n = rng.range(1, 3);
                    for _ in 0..n {
                        // may name ops whose submission is only consumed by this very call
                        if self.ops.is_empty() {
                            break;
                        }
                        let i = rng.below(self.ops.len() as u64) as usize;
                        let (res, flags) = self.gen_result(rng, i);
                        posts.push(format!("{i}:{res}:{flags}"));
                    }
                }
                let p = if posts.is_empty() { "-".to_string() } else { posts.join(",") };
                if posts.is_empty() && rng.chance(1, 15) {
                    return Some(format!("life rpollfail {}", *rng.pick(&[libc::EBUSY, libc::ENOMEM, libc::EAGAIN, libc::EEXIST, libc::EBADR])));
                }
                Some(format!("life rpoll {p}"))
            }
            5 => Some("life rdrop".into()),
            _ => {
                // malformed stream: ops on unknown / dropped operations
                let i = rng.below(self.ops.len() as u64 + 2);
                Some(match rng.below(3) {
                    0 => format!("life poll {i} 99"),
                    1 => format!("life drop {i}"),
                    _ => format!("life kpost {i} {} 0", self.ok_value(i as usize)),
                })
            }
        }
    }

    fn exec(&mut self, op: &str) -> Vec<String> {
        let t: Vec<&str> = op.split(' ').collect();
        let mut out = Vec::new();
        if self.poisoned {
            return vec!["unsafe-state".into()];
        }
        if !self.raced.is_empty() {
            // the constituent ops of the race, in linearisation order
            if self.raced[0].0 == op {
                let (_, lines) = self.raced.remove(0);
                self.kernel_events();
                return lines;
            }
            return vec!["bad-op".into()];
        }
        match t.as_slice() {
            ["life", "new", i, kind] => {
                let Ok(i) = i.parse::<usize>() else { return vec!["bad-op".into()] };
                let Some(def) = kind_def(kind) else { return vec!["bad-op".into()] };
                if i != self.ops.len() {
                    return vec!["bad-op".into()];
                }
                let mut res_blocks = Vec::new();
                let mut res_addrs: Vec<(usize, usize)> = Vec::new();
                let (obj, state) = self.make_op(kind, &mut res_blocks, &mut res_addrs);
                // NOTE: the pinned box of the future itself is allocated after `mark`
                // too; `single_new_block` ran before `Box::pin`.
                let state_block = state.and_then(|a| track::block_of(a)).map(|b| b.id);
                if let Some(a) = state {
                    track::watch(a);
                    self.addr2op.insert(a, i);
                }
                self.feats.push(format!("kind/{kind}"));
                self.ops.push(OpSlot {
                    kind: kind.to_string(),
                    cls: def.cls,
                    reads: def.reads,
                    multi: matches!(def.cls, Cls::MBuf | Cls::MFd | Cls::MFixed(_)),
                    obj: Some(obj),
                    state_addr: state,
                    state_block,
                    user_data: None,
                    ud_inflight: None,
                    res_blocks,
                    res_addrs,
                    attempts: 0,
                    expected: VecDeque::new(),
                    slot: None,
                    last_pending: None,
                    ready_since: false,
                    unprocessed_ready: 0,
                    woken_since: false,
                    last_sqe: None,
                    finished: false,
                    frees: 0,
                    dropped_running: false,
                    started_after_rdrop: false,
                    restart_seen: false,
                    final_nonrestart: false,
                });
                out.push("ok".into());
            }
            ["life", "poll", i, w] => {
                let (Ok(i), Ok(w)) = (i.parse::<usize>(), w.parse::<u32>()) else { return vec!["bad-op".into()] };
                if i >= self.ops.len() || self.ops[i].obj.is_none() {
                    return vec!["bad-op".into()];
                }
                let old_tail = simk::with_ring(self.rfd, |r, _| r.sq_tail());
                let waker = util::waker(w);
                let mut cx = Context::from_waker(&waker);
                let mut obj = self.ops[i].obj.take().unwrap();
                let r = util::catch(|| obj.poll(&mut cx));
                self.ops[i].obj = Some(obj);
                match r {
                    Err(_) => {
                        out.push("panic".into());
                        // A poll may only panic when the operation had already resolved
                        // ("polled after completion"): otherwise the caller lost its result.
                        let (fin, kind, rs) = (self.ops[i].finished, self.ops[i].kind.clone(), self.ops[i].restart_seen);
                        if !fin {
                            self.fail("C02", &format!("C02/poll-panicked/{kind}"), format!("polling op{i} panicked although it had not resolved yet: its results are lost"));
                            if rs {
                                self.fail("C09", &format!("C09/poll-panicked-after-interruption/{kind}"), format!("polling op{i} panicked after the kernel reported it interrupted/cancelled: the restart was not transparent"));
                            }
                        }
                    }
                    Ok(None) => {
                        out.push("pending".into());
                        // Pending without a submission of its own anywhere: the queue was full and
                        // the waker went on the blocked list.
                        let new_tail = simk::with_ring(self.rfd, |r, _| r.sq_tail());
                        if new_tail == old_tail && self.ring.is_some() && !self.has_submission(i) {
                            self.blocked_wakers.push(w);
                        }
                        let o = &mut self.ops[i];
                        if o.last_pending != Some(w) || o.woken_since {
                            o.woken_since = false;
                        }
                        o.last_pending = Some(w);
                        // a result that is already queued counts as readiness only if it
                        // was posted after this poll
                        o.ready_since = false;
                    }
                    Ok(Some(line)) => {
                        // C02 oracle: the value is the next expected one.
                        let o = &mut self.ops[i];
                        o.last_pending = None;
                        o.ready_since = false;
                        let mut bad: Option<String> = None;
                        let mut interrupted: Option<i64> = None;
                        let mut ended_on_restart = false;
                        if line == "ready none" {
                            o.finished = true;
                            if !o.expected.is_empty() {
                                bad = Some(format!("op{i} ended with {} results undelivered", o.expected.len()));
                            } else if !o.final_nonrestart {
                                bad = Some(format!("op{i} (multishot) ended although the kernel never posted a final result for it"));
                                if o.restart_seen {
                                    ended_on_restart = true;
                                }
                            }
                        } else {
                            let got: i64 = if let Some(v) = line.strip_prefix("ready ok ") {
                                v.parse().unwrap_or(i64::MIN)
                            } else if let Some(v) = line.strip_prefix("ready err ") {
                                v.parse::<i64>().map(|n| -n).unwrap_or(i64::MIN)
                            } else {
                                i64::MIN
                            };
                            if got == -(libc::EINTR as i64) || got == -(libc::ECANCELED as i64) {
                                interrupted = Some(got);
                            }
                            match o.expected.pop_front() {
                                Some(e) if e == got => {}
                                Some(e) => bad = Some(format!("op{i} returned {got}, the kernel's next result for it was {e}")),
                                None => bad = Some(format!("op{i} returned {got} but no result is outstanding for it")),
                            }
                            if !o.multi {
                                o.finished = true;
                            }
                        }
                        let kind = o.kind.clone();
                        if let Some(b) = bad {
                            self.fail("C02", &format!("C02/wrong-result/{kind}"), b);
                        }
                        if ended_on_restart {
                            self.fail("C09", &format!("C09/ended-instead-of-reissued/{kind}"), format!("op{i} ended its stream after an EINTR/ECANCELED completion instead of being re-issued"));
                        }
                        if let Some(v) = interrupted {
                            // C09 oracle: the caller never observes the interruption itself
                            self.fail("C09", &format!("C09/interruption-observed/{kind}"), format!("op{i} (not dropped) resolved with errno {}: the interrupted/cancelled attempt was reported to the caller instead of being re-issued", -v));
                        }
                        self.feats.push(format!("kind/{kind}/resolved"));
                        out.push(line);
                    }
                }
                let pend = simk::with_ring(self.rfd, |r, _| r.sq_pending());
                let lines = self.new_sqes(old_tail, Some(i), None);
                if lines.is_empty() && pend >= self.sq_len && out.first().map(|s| s.as_str()) == Some("pending") {
                    self.feats.push("queue-full".into());
                }
                if !lines.is_empty() && self.ring_dropped {
                    self.ops[i].started_after_rdrop = true;
                }
                out.extend(lines);
            }
            ["life", "cpoll", i] => {
                // First poll of an operation with a waker whose `clone` panics: the submission is
                // queued before the waker is stored, so the operation must count as running when
                // the panic unwinds out of the poll (fix c6c693c) — with no waker stored.
                let Ok(i) = i.parse::<usize>() else { return vec!["bad-op".into()] };
                if i >= self.ops.len() || self.ops[i].obj.is_none() || self.ops[i].attempts != 0 || self.ops[i].finished || self.ring_dropped {
                    return vec!["bad-op".into()];
                }
                let room = simk::with_ring(self.rfd, |r, _| r.sq_entries.saturating_sub(r.sq_tail().wrapping_sub(r.sq_head())));
                if room == 0 {
                    return vec!["bad-op".into()];
                }
                let old_tail = simk::with_ring(self.rfd, |r, _| r.sq_tail());
                let waker = util::clone_panicking_waker();
                let mut cx = Context::from_waker(&waker);
                let mut obj = self.ops[i].obj.take().unwrap();
                let r = util::catch(|| obj.poll(&mut cx));
                self.ops[i].obj = Some(obj);
                out.push(match r {
                    Err(_) => "panic".to_string(),
                    Ok(None) => "pending".to_string(),
                    Ok(Some(l)) => l,
                });
                self.feats.push("waker-clone-panics".into());
                self.ops[i].last_pending = None;
                let lines = self.new_sqes(old_tail, Some(i), None);
                out.extend(lines);
            }
            ["life", dropkind @ ("drop" | "pdrop"), i] => {
                // `pdrop`: the future is dropped while its thread unwinds from a panic (what an
                // executor with `catch_unwind` does to a task that panicked); same effects as `drop`
                let unwinding = *dropkind == "pdrop";
                let Ok(i) = i.parse::<usize>() else { return vec!["bad-op".into()] };
                if i >= self.ops.len() || self.ops[i].obj.is_none() {
                    return vec!["bad-op".into()];
                }
                let old_tail = simk::with_ring(self.rfd, |r, _| r.sq_tail());
                let obj = self.ops[i].obj.take();
                // "running" as far as the kernel can tell: published and not finalised
                let running = self.ops[i].ud_inflight.is_some();
                self.ops[i].dropped_running = running;
                let ud = self.ops[i].ud_inflight;
                let in_flight = simk::with_ring(self.rfd, |r, _| {
                    ud.is_some_and(|u| r.inflight.iter().any(|x| x.sqe.user_data == u) || {
                        // published but not yet consumed
                        let (mut h, t) = (r.sq_head(), r.sq_tail());
                        let mut found = false;
                        while h != t { if r.sqe_at(h).user_data == u { found = true; } h = h.wrapping_add(1); }
                        found
                    })
                });
                if in_flight {
                    self.feats.push("drop-in-flight".into());
                    self.feats.push(format!("kind/{}/drop-in-flight", self.ops[i].kind));
                }
                if let Some(obj) = obj {
                    // (`ReceiveSignals` is discarded through `into_inner` in every script: see `discard`)
                    if unwinding && self.ops[i].kind != "sigstream" {
                        self.feats.push("drop-while-unwinding".into());
                        let _ = util::catch(move || {
                            let _dropped_by_unwinding = obj;
                            panic!("task panicked");
                        });
                    } else {
                        obj.discard();
                    }
                }
                let mut lines = self.new_sqes(old_tail, None, Some(i));
                for l in &lines {
                    if let Some(tg) = l.strip_prefix("cancel op") {
                        if tg.parse::<usize>().ok() != Some(i) {
                            self.fail("C06", "C06/cancel-wrong-target", format!("dropping op{i} requested cancellation of op{tg}"));
                        }
                    } else if l.starts_with("cancel unknown") {
                        self.fail("C06", "C06/cancel-wrong-target", format!("dropping op{i} requested cancellation of an unknown target"));
                    }
                }
                for f in self.collect_frees() {
                    lines.push(format!("free op{f}"));
                }
                if lines.is_empty() {
                    lines.push("-".into());
                }
                out.extend(lines);
            }
            ["life", "kpost", i, res, flags] => {
                let (Ok(i), Ok(res), Ok(flags)) = (i.parse::<usize>(), res.parse::<i32>(), flags.parse::<u32>()) else {
                    return vec!["bad-op".into()];
                };
                match self.do_post(i, res, flags) {
                    None => out.push("miss".into()),
                    Some(true) => out.push("posted".into()),
                    Some(false) => out.push("overflow".into()),
                }
            }
            ["life", "rpollfail", e] => {
                let Ok(e) = e.parse::<i32>() else { return vec!["bad-op".into()] };
                if !(1..4096).contains(&e) || e == libc::EINTR || e == libc::ETIME || self.ring.is_none() {
                    return vec!["bad-op".into()];
                }
                let will_enter = simk::with_ring(self.rfd, |r, _| r.cq_count() == 0);
                if !will_enter {
                    return self.exec("life rpoll -");
                }
                if !self.completions_safe() {
                    self.poisoned = true;
                    return vec!["unsafe-state".into()];
                }
                simk::with_ring(self.rfd, |r, _| {
                    r.enter_scripts.clear();
                    r.enter_scripts.push_back(simk::EnterScript { fail: Some(e), ..Default::default() });
                });
                self.feats.push("ring-poll-enter-fails".into());
                let mut ring = self.ring.take().unwrap();
                let r = util::catch(|| ring.poll(Some(Duration::ZERO)));
                self.ring = Some(ring);
                simk::with_ring(self.rfd, |r, _| r.enter_scripts.clear());
                let evs = simk::with_sim(|s| s.events.clone());
                let entered = evs.iter().find_map(|ev| match ev {
                    KEv::Enter { to_submit, .. } => Some(*to_submit),
                    _ => None,
                });
                match entered {
                    Some(n) => out.push(format!("enter submit={n}")),
                    None => out.push("noenter".into()),
                }
                let wakes = util::drain_wakes();
                self.after_ring_poll(&wakes);
                self.blocked_wakers.retain(|w| !wakes.contains(w));
                let frees = self.collect_frees();
                out.push(format!("wakes {} frees {}", list(&wakes), list(&frees)));
                match &r {
                    Err(_) => out.push("panic".into()),
                    Ok(Err(e)) => out.push(format!("error {}", err_num(e))),
                    Ok(Ok(())) => {}
                }
                let head = simk::with_ring(self.rfd, |r, _| r.cq_head());
                out.push(format!("cqhead={head}"));
            }
            ["life", "pollfail", i, w, e] => {
                let Ok(e) = e.parse::<i32>() else { return vec!["bad-op".into()] };
                if !(1..4096).contains(&e) || e == libc::EINTR || e == libc::ETIME {
                    return vec!["bad-op".into()];
                }
                if self.ring.is_some() {
                    simk::with_ring(self.rfd, |r, _| {
                        r.enter_scripts.clear();
                        r.enter_scripts.push_back(simk::EnterScript { fail: Some(e), ..Default::default() });
                    });
                }
                self.feats.push("poll-while-enter-fails".into());
                let lines = self.exec(&format!("life poll {i} {w}"));
                if self.ring.is_some() {
                    simk::with_ring(self.rfd, |r, _| r.enter_scripts.clear());
                }
                return lines;
            }
            ["life", "dropfail", i, e] => {
                let Ok(e) = e.parse::<i32>() else { return vec!["bad-op".into()] };
                if !(1..4096).contains(&e) || e == libc::EINTR || e == libc::ETIME {
                    return vec!["bad-op".into()];
                }
                if self.ring.is_some() {
                    simk::with_ring(self.rfd, |r, _| {
                        r.enter_scripts.clear();
                        r.enter_scripts.push_back(simk::EnterScript { fail: Some(e), ..Default::default() });
                    });
                }
                self.feats.push("drop-while-enter-fails".into());
                let lines = self.exec(&format!("life drop {i}"));
                if self.ring.is_some() {
                    simk::with_ring(self.rfd, |r, _| r.enter_scripts.clear());
                }
                return lines;
            }
            ["life", "rpoll", posts] => {
                if self.ring.is_none() {
                    return vec!["bad-op".into()];
                }
                let mut ps: Vec<(usize, i32, u32)> = Vec::new();
                if *posts != "-" {
                    for p in posts.split(',') {
                        let f: Vec<&str> = p.split(':').collect();
                        if f.len() != 3 {
                            return vec!["bad-op".into()];
                        }
                        let (Ok(a), Ok(b), Ok(c)) = (f[0].parse(), f[1].parse(), f[2].parse()) else {
                            return vec!["bad-op".into()];
                        };
                        ps.push((a, b, c));
                    }
                }
                if !self.completions_safe() {
                    self.poisoned = true;
                    return vec!["unsafe-state".into()];
                }
                let will_enter = simk::with_ring(self.rfd, |r, _| r.cq_count() == 0);
                let mut scripted: Vec<(usize, i32, u32, u64, i32)> = Vec::new();
                if will_enter {
                    let mut specs = Vec::new();
                    for (i, res, flags) in &ps {
                        if let Some(spec) = self.make_spec(*i, *res, *flags) {
                            if let Target::UserData(ud) = spec.target {
                                scripted.push((*i, *res, *flags, ud, spec.res));
                            }
                            specs.push(spec);
                        }
                    }
                    simk::with_ring(self.rfd, |r, _| {
                        r.enter_scripts.clear();
                        r.enter_scripts.push_back(simk::EnterScript { post: specs, ..Default::default() });
                    });
                }
                let mut ring = self.ring.take().unwrap();
                let r = util::catch(|| ring.poll(Some(Duration::ZERO)));
                self.ring = Some(ring);
                simk::with_ring(self.rfd, |r, _| r.enter_scripts.clear());
                // Which scripted posts happened (their target was in flight)?
                let evs = simk::with_sim(|s| s.events.clone());
                let mut posted: Vec<&simk::Cqe> = evs.iter().filter_map(|e| match e {
                    KEv::Posted { seq: Some(_), cqe, .. } => Some(cqe),
                    _ => None,
                }).collect();
                for (i, res, flags, ud, actual) in scripted {
                    if let Some(pos) = posted.iter().position(|c| c.user_data == ud && c.res == actual) {
                        posted.remove(pos);
                        self.note_posted(i, res, flags);
                    }
                }
                let entered = evs.iter().find_map(|e| match e {
                    KEv::Enter { to_submit, .. } => Some(*to_submit),
                    _ => None,
                });
                match entered {
                    Some(n) => out.push(format!("enter submit={n}")),
                    None => out.push("noenter".into()),
                }
                let wakes = util::drain_wakes();
                self.after_ring_poll(&wakes);
                // C03: a poll that entered the kernel wakes futures waiting for a submission slot
                // when room is available afterwards.
                let had_blocked = !self.blocked_wakers.is_empty();
                if let Some(w) = self.blocked_wakers.iter().copied().find(|w| wakes.contains(w)) {
                    let i = (w / 10) as usize;
                    if i < self.ops.len() && self.ops[i].obj.is_some() && !self.has_submission(i) {
                        self.reblock = Some((i, w));
                    }
                }
                self.blocked_wakers.retain(|w| !wakes.contains(w));
                if entered.is_some() && had_blocked && r.as_ref().is_ok_and(|x| x.is_ok()) {
                    let room = simk::with_ring(self.rfd, |r, _| r.sq_entries.saturating_sub(r.sq_tail().wrapping_sub(r.sq_head())));
                    let woken = wakes.len();
                    if room > 0 && !self.blocked_wakers.is_empty() && woken == 0 {
                        self.fail("C03", "C03/blocked-not-woken-by-poll", format!("Ring::poll entered the kernel and {room} submission slots are free afterwards, but none of the {} futures waiting for a slot (wakers {:?}) was woken", self.blocked_wakers.len(), self.blocked_wakers));
                    }
                }
                let frees = self.collect_frees();
                out.push(format!("wakes {} frees {}", list(&wakes), list(&frees)));
                if r.is_err() {
                    out.push("panic".into());
                } else if let Ok(Err(e)) = &r {
                    out.push(format!("error {}", err_num(e)));
                }
                let head = simk::with_ring(self.rfd, |r, _| r.cq_head());
                out.push(format!("cqhead={head}"));
                self.check_wakeups();
            }
            ["life", "race", kind @ ("drop" | "poll"), i, w, schedule] => {
                // Two threads race on operation `i`: thread A drops / polls its
                // future, thread B runs `Ring::poll` which processes completions
                // already sitting in the completion queue (so it does not enter
                // the kernel). They are interleaved at a10's scheduling points by
                // `schedule`; the observable effects are recorded per thread and
                // replayed by the two following ops in linearisation order.
                let (Ok(i), Ok(w)) = (i.parse::<usize>(), w.parse::<u32>()) else { return vec!["bad-op".into()] };
                let sched_s = schedule.strip_prefix("sched=").unwrap_or("");
                if i >= self.ops.len() || self.ops[i].obj.is_none() || self.ring.is_none() || !self.raced.is_empty()
                    || sched_s.is_empty() || !sched_s.bytes().all(|b| b == b'0' || b == b'1')
                {
                    return vec!["bad-op".into()];
                }
                // exactly one completion of this operation is waiting: the ring thread
                // then has a single critical section on the operation
                let addr = self.ops[i].state_addr;
                let mine = simk::with_ring(self.rfd, |r, _| r.cq_pending().iter().filter(|c| c.user_data > 3 && Some((c.user_data & !1) as usize) == addr).count());
                if mine != 1 || !self.completions_safe() {
                    return vec!["bad-op".into()];
                }
                self.run_race(kind, i, w, sched_s);
                out.push("ok".into());
            }
            ["life", "rdrop"] => {
                if self.ring.is_none() {
                    return vec!["bad-op".into()];
                }
                if !self.completions_safe() {
                    self.poisoned = true;
                    return vec!["unsafe-state".into()];
                }
                for o in self.ops.iter() {
                    if o.ud_inflight.is_some() {
                        self.feats.push(format!("kind/{}/ring-drop", o.kind));
                    }
                }
                let ring = self.ring.take().unwrap();
                let r = util::catch(move || drop(ring));
                self.ring_dropped = true;
                let evs = simk::with_sim(|s| s.events.clone());
                let n = evs.iter().find_map(|e| match e {
                    KEv::Enter { to_submit, .. } => Some(*to_submit),
                    _ => None,
                }).unwrap_or(0);
                out.push(format!("flush submit={n}"));
                let wakes = util::drain_wakes();
                self.after_ring_poll(&wakes);
                let frees = self.collect_frees();
                out.push(format!("wakes {} frees {}", list(&wakes), list(&frees)));
                if r.is_err() {
                    out.push("panic".into());
                }
                let (head, lost) = simk::with_ring(self.rfd, |r, _| (r.cq_head(), r.overflow.len()));
                out.push(format!("cqhead={head} lost={lost}"));
                self.lost_at_drop = lost;
            }
            _ => out.push("bad-op".into()),
        }
        self.kernel_events();
        out
    }

    fn drain_oracle(&mut self) -> Vec<(String, String, String)> {
        std::mem::take(&mut self.oracle)
    }

    fn finish(&mut self) -> CaseReport {
        // Clean up: drop every future, the ring, the pool and the descriptor.
        if self.poisoned || !self.completions_safe() {
            // Memory is in an unsafe state: leak everything rather than run a10 code on it.
            for o in self.ops.iter_mut() {
                std::mem::forget(o.obj.take());
            }
            std::mem::forget(self.ring.take());
            std::mem::forget(self.other.take());
            std::mem::forget(self.pool.take());
            std::mem::forget(self.sq.take());
            std::mem::forget(std::mem::take(&mut *util::lockp(&PARK)));
            std::mem::forget(std::mem::take(&mut *util::lockp(&PARK_SIGNALS)));
            util::lockp(&FDMAP).clear();
            simk::WRITE_OUT_PARAMS.store(false, Ordering::SeqCst);
            simk::DEFER_CLOSE_OPS.store(false, Ordering::SeqCst);
            track::quarantine_all(false);
            simk::drain_events();
            util::drain_wakes();
            track::drain_frees();
            simk::deactivate();
            simk::with_sim(|s| { let fds: Vec<i32> = s.rings.keys().copied().collect(); for fd in fds { std::mem::forget(s.rings.remove(&fd)); } });
            let features = std::mem::take(&mut self.feats);
            return CaseReport { oracle: std::mem::take(&mut self.oracle), features, nontrivial: true };
        }
        let started_after_drop: Vec<bool> = self.ops.iter().map(|o| o.started_after_rdrop).collect();
        for i in 0..self.ops.len() {
            if let Some(obj) = self.ops[i].obj.take() {
                let running = self.ops[i].user_data.is_some() && !self.ops[i].finished;
                self.ops[i].dropped_running = running;
                let _ = util::catch(move || drop(obj));
            }
        }
        if let Some(ring) = self.ring.take() {
            let _ = util::catch(move || drop(ring));
            self.lost_at_drop = simk::with_ring(self.rfd, |r, _| r.overflow.len());
        }
        self.collect_frees();
        self.kernel_events();
        // C06: with every future dropped and the ring dropped, every operation
        // state has been freed exactly once.
        let mut leaks = Vec::new();
        for (i, o) in self.ops.iter().enumerate() {
            if o.state_addr.is_some() && o.frees == 0 && !started_after_drop[i] {
                leaks.push((i, o.kind.clone()));
            }
        }
        for (i, kind) in leaks {
            if self.lost_at_drop > 0 {
                self.fail("C12", "C12/ring-drop-cq-overflow", format!("op{i} ({kind}) state never reclaimed: {} completions were left on the overflow list when the ring was dropped", self.lost_at_drop));
            } else {
                self.fail("C06", &format!("C06/state-leaked/{kind}"), format!("state of op{i} was never freed although its future and the ring were dropped"));
                // the same leak is an allocation left behind after teardown (C12)
                self.fail("C12", &format!("C12/state-left-behind/{kind}"), format!("state of op{i} was never freed although its future, the ring and every handle were dropped"));
            }
        }
        // C06: the resources of an operation whose state was reclaimed were dropped
        // with it (or handed to the caller, who dropped them): no block the
        // operation handed to the kernel is still allocated.
        let mut res_leaks = Vec::new();
        for (i, o) in self.ops.iter().enumerate() {
            if o.frees >= 1 {
                let n = o.res_blocks.iter().filter(|id| track::is_live(**id)).count();
                if n > 0 {
                    res_leaks.push((i, o.kind.clone(), n));
                }
            }
        }
        for (i, kind, n) in res_leaks {
            self.fail("C06", &format!("C06/resources-leaked/{kind}"), format!("the state of op{i} was reclaimed but {n} of the memory blocks it shared with the kernel (buffers, paths, …) were never freed"));
            self.fail("C12", &format!("C12/resources-left-behind/{kind}"), format!("after teardown {n} of the memory blocks op{i} shared with the kernel were never freed"));
        }
        drop(self.pool.take());
        if let Some(other) = self.other.take() {
            let _ = util::catch(move || drop(other));
        }
        // Descriptors the operations returned, the `Signals` objects, the direct
        // descriptor: dropped the normal way (CLOSE submission or the synchronous
        // fallback), after everything the properties are about.
        let parked = std::mem::take(&mut *util::lockp(&PARK));
        let _ = util::catch(move || drop(parked));
        let parked = std::mem::take(&mut *util::lockp(&PARK_SIGNALS));
        let _ = util::catch(move || drop(parked));
        for sg in std::mem::take(&mut self.signals) {
            let _ = util::catch(move || unsafe { drop(Box::from_raw(std::ptr::from_ref(sg).cast_mut())) });
        }
        let dfd = self.dfd;
        let _ = util::catch(move || unsafe { drop(Box::from_raw(std::ptr::from_ref(dfd).cast_mut())) });
        let raw = self.fd.as_fd().map(|f| std::os::fd::AsRawFd::as_raw_fd(&f));
        if let Some(raw) = raw {
            unsafe { libc::close(raw) };
        }
        unsafe { drop(Box::from_raw(std::ptr::from_ref(self.fd).cast_mut())) };
        drop(self.sq.take());
        // Descriptors the simulated kernel handed out that nobody closed (delivered
        // to abandoned operations, never delivered, `Close` futures): not this
        // component's business (C07), but they must not leak into the next case.
        let left: Vec<i32> = simk::with_sim(|s| s.rings.values_mut().flat_map(|r| std::mem::take(&mut r.issued_fds)).collect());
        for fd in left {
            unsafe { simk::raw_syscall(libc::SYS_close, fd as i64, 0, 0, 0, 0, 0) };
        }
        util::lockp(&FDMAP).clear();
        simk::WRITE_OUT_PARAMS.store(false, Ordering::SeqCst);
        simk::DEFER_CLOSE_OPS.store(false, Ordering::SeqCst);
        simk::drain_events();
        util::drain_wakes();
        track::drain_frees();
        simk::reset();
        track::quarantine_all(false);
        track::release_quarantine();
        let mut features = std::mem::take(&mut self.feats);
        features.sort();
        features.dedup();
        let nontrivial = features.iter().any(|f| f == "drop-in-flight" || f == "restart" || f == "out-of-order" || f == "multi-batch" || f == "zc-two-step" || f == "queue-full" || f == "race");
        CaseReport { oracle: std::mem::take(&mut self.oracle), features, nontrivial }
    }
}

fn single_new_block(mark: u64) -> Option<usize> {
    let v = track::live_since(mark - 1);
    if v.len() == 1 { Some(v[0].base) } else { None }
}

/// The operation state is the last block an a10 constructor allocates
/// (`State::new` runs after the resources were built; checked against
/// `user_data` at the first submission: `C01/user-data-moved`). Every block
/// allocated since `mark` (paths, the state, …) is watched.
fn last_new_block(mark: u64, res_blocks: &mut Vec<u64>) -> Option<usize> {
    let v = track::live_since(mark - 1);
    for b in &v {
        if track::watch(b.base).is_some() {
            res_blocks.push(b.id);
        }
    }
    v.iter().max_by_key(|b| b.id).map(|b| b.base)
}

/// A direct descriptor made the public way before the script starts:
/// `to_direct_descriptor`, the simulated kernel allocating slot 0.
fn make_direct(ring: &mut Ring, fd: &'static AsyncFd, rfd: i32) -> &'static AsyncFd {
    let w = util::waker(9999);
    let mut cx = Context::from_waker(&w);
    let mut fut = Box::pin(fd.to_direct_descriptor());
    assert!(fut.as_mut().poll(&mut cx).is_pending(), "setup: to_direct_descriptor");
    simk::with_ring(rfd, |r, _| {
        let mut spec = PostSpec::new(Target::Nth(0), 1, 0);
        spec.data = Some(0i32.to_ne_bytes().to_vec());
        r.enter_scripts.push_back(simk::EnterScript { post: vec![spec], ..Default::default() });
    });
    ring.poll(Some(Duration::ZERO)).expect("setup: ring poll");
    simk::with_ring(rfd, |r, _| r.enter_scripts.clear());
    match fut.as_mut().poll(&mut cx) {
        Poll::Ready(Ok(d)) => Box::leak(Box::new(d)),
        _ => panic!("setup: no direct descriptor"),
    }
}

fn fut_op<F, T>(fut: F, canon: fn(T) -> String) -> Box<dyn Pollable>
where
    F: Future<Output = std::io::Result<T>> + Send + 'static,
    T: Send + 'static,
{
    Box::new(FutOp { fut: Box::pin(fut), canon })
}

fn unit0((): ()) -> String {
    "0".into()
}

impl LifeCase {
    /// Build the operation of `kind` through a10's public API, exactly as a user
    /// would. Returns the object and the address of its state box.
    fn make_op(&mut self, kind: &str, res_blocks: &mut Vec<u64>, res_addrs: &mut Vec<(usize, usize)>) -> (Box<dyn Pollable>, Option<usize>) {
        use a10::net::option::KeepAlive;
        use a10::process::{Signal, Signals, WaitOn};
        let fd = self.fd;
        let sq = self.sq.clone().unwrap();
        let addr: SocketAddr = "127.0.0.1:9".parse().unwrap();
        let mut watch_buf = |b: &Vec<u8>| {
            res_blocks.extend(track::watch(b.as_ptr() as usize).map(|b| b.id));
            res_addrs.push((b.as_ptr() as usize, b.capacity()));
        };
        match kind {
            "read" => {
                let buf: Vec<u8> = Vec::with_capacity(64);
                watch_buf(&buf);
                let mark = track::next_id();
                let fut = fd.read(buf);
                let st = single_new_block(mark);
                (fut_op(fut, |b: Vec<u8>| b.len().to_string()), st)
            }
            "write" => {
                let buf: Vec<u8> = vec![0x5A; 64];
                watch_buf(&buf);
                let mark = track::next_id();
                let fut = fd.write(buf);
                let st = single_new_block(mark);
                (fut_op(fut, |n: usize| n.to_string()), st)
            }
            "sendzc" => {
                let buf: Vec<u8> = vec![0x7E; 64];
                watch_buf(&buf);
                let mark = track::next_id();
                let fut = fd.send(buf).zc();
                let st = single_new_block(mark);
                (fut_op(fut, |n: usize| n.to_string()), st)
            }
            "readv" | "recvv" | "recvfromv" => {
                let b0: Vec<u8> = Vec::with_capacity(32);
                let b1: Vec<u8> = Vec::with_capacity(32);
                watch_buf(&b0);
                watch_buf(&b1);
                let mark = track::next_id();
                match kind {
                    "readv" => {
                        let fut = fd.read_vectored([b0, b1]);
                        let st = single_new_block(mark);
                        (fut_op(fut, |b: [Vec<u8>; 2]| (b[0].len() + b[1].len()).to_string()), st)
                    }
                    "recvv" => {
                        let fut = fd.recv_vectored([b0, b1]);
                        let st = single_new_block(mark);
                        (fut_op(fut, |(b, _): ([Vec<u8>; 2], i32)| (b[0].len() + b[1].len()).to_string()), st)
                    }
                    _ => {
                        let fut = fd.recv_from_vectored::<[Vec<u8>; 2], SocketAddr, 2>([b0, b1]);
                        let st = last_new_block(mark, res_blocks);
                        (fut_op(fut, |(b, a, _): ([Vec<u8>; 2], SocketAddr, i32)| canon_addr(a, &(b[0].len() + b[1].len()).to_string())), st)
                    }
                }
            }
            "writev" | "sendmsgzc" | "sendtov" | "sendmsg" => {
                let b0: Vec<u8> = vec![0x11; 32];
                let b1: Vec<u8> = vec![0x22; 32];
                watch_buf(&b0);
                watch_buf(&b1);
                let mark = track::next_id();
                match kind {
                    "writev" => {
                        let fut = fd.write_vectored([b0, b1]);
                        let st = single_new_block(mark);
                        (fut_op(fut, |n: usize| n.to_string()), st)
                    }
                    "sendmsgzc" => {
                        let fut = fd.send_vectored([b0, b1]).zc();
                        let st = single_new_block(mark);
                        (fut_op(fut, |n: usize| n.to_string()), st)
                    }
                    "sendtov" => {
                        let fut = fd.send_to_vectored([b0, b1], addr);
                        let st = last_new_block(mark, res_blocks);
                        (fut_op(fut, |n: usize| n.to_string()), st)
                    }
                    _ => {
                        let fut = fd.send_vectored([b0, b1]);
                        let st = last_new_block(mark, res_blocks);
                        (fut_op(fut, |n: usize| n.to_string()), st)
                    }
                }
            }
            "sendto" => {
                let buf: Vec<u8> = vec![0x33; 64];
                watch_buf(&buf);
                let mark = track::next_id();
                let fut = fd.send_to(buf, addr);
                let st = single_new_block(mark);
                (fut_op(fut, |n: usize| n.to_string()), st)
            }
            "mread" => {
                let pool = self.pool.as_ref().unwrap().clone();
                let mark = track::next_id();
                let it = fd.multishot_read(pool);
                let st = single_new_block(mark);
                (Box::new(MRead(Box::pin(it))), st)
            }
            "mreado" => {
                // a pool of its own, moved into the operation: no other handle, no `ReadBuf` yet
                let pool = ReadBufPool::new(self.sq.as_ref().unwrap().clone(), 64, 64).expect("pool");
                let mark = track::next_id();
                let it = fd.multishot_read(pool);
                let st = single_new_block(mark);
                (Box::new(MRead(Box::pin(it))), st)
            }
            // ---- 1. plain socket I/O
            "recv" => {
                let buf: Vec<u8> = Vec::with_capacity(64);
                watch_buf(&buf);
                let mark = track::next_id();
                let fut = fd.recv(buf);
                let st = last_new_block(mark, res_blocks);
                (fut_op(fut, |b: Vec<u8>| b.len().to_string()), st)
            }
            "send" => {
                let buf: Vec<u8> = vec![0x44; 64];
                watch_buf(&buf);
                let mark = track::next_id();
                let fut = fd.send(buf);
                let st = last_new_block(mark, res_blocks);
                (fut_op(fut, |n: usize| n.to_string()), st)
            }
            "recvfrom" => {
                let buf: Vec<u8> = Vec::with_capacity(64);
                watch_buf(&buf);
                let mark = track::next_id();
                let fut = fd.recv_from::<Vec<u8>, SocketAddr>(buf);
                let st = last_new_block(mark, res_blocks);
                (fut_op(fut, |(b, a, _): (Vec<u8>, SocketAddr, i32)| canon_addr(a, &b.len().to_string())), st)
            }
            // ---- 2. connections, names, options
            "accept" => {
                let mark = track::next_id();
                let fut = fd.accept::<SocketAddr>();
                let st = last_new_block(mark, res_blocks);
                (fut_op(fut, |(f, a): (AsyncFd, SocketAddr)| { let n = canon_fd(f); canon_addr(a, &n) }), st)
            }
            "maccept" => {
                let mark = track::next_id();
                let it = fd.multishot_accept();
                let st = last_new_block(mark, res_blocks);
                (Box::new(MIter { it: Box::pin(it), next: |it, cx| it.poll_next(cx).map(|o| o.map(|r| r.map(canon_fd))) }), st)
            }
            "mrecv" => {
                let pool = self.pool.as_ref().unwrap().clone();
                let mark = track::next_id();
                let it = fd.multishot_recv(pool);
                let st = last_new_block(mark, res_blocks);
                (Box::new(MIter { it: Box::pin(it), next: |it, cx| it.poll_next(cx).map(|o| o.map(|r| r.map(|b| b.len().to_string()))) }), st)
            }
            "connectu" | "bindu" | "sendtou" => {
                let ua = if kind == "bindu" {
                    std::os::unix::net::SocketAddr::from_pathname("/tmp/a10v-life.sock").unwrap()
                } else {
                    <std::os::unix::net::SocketAddr as std::os::linux::net::SocketAddrExt>::from_abstract_name(b"a10v-life").unwrap()
                };
                match kind {
                    "connectu" => {
                        let mark = track::next_id();
                        let fut = fd.connect(ua);
                        let st = last_new_block(mark, res_blocks);
                        (fut_op(fut, unit0), st)
                    }
                    "bindu" => {
                        let mark = track::next_id();
                        let fut = fd.bind(ua);
                        let st = last_new_block(mark, res_blocks);
                        (fut_op(fut, unit0), st)
                    }
                    _ => {
                        let buf: Vec<u8> = vec![0x34; 48];
                        watch_buf(&buf);
                        let mark = track::next_id();
                        let fut = fd.send_to(buf, ua);
                        let st = single_new_block(mark);
                        (fut_op(fut, |n: usize| n.to_string()), st)
                    }
                }
            }
            "connect" => {
                let mark = track::next_id();
                let fut = fd.connect(addr);
                let st = last_new_block(mark, res_blocks);
                (fut_op(fut, unit0), st)
            }
            "bind" => {
                let mark = track::next_id();
                let fut = fd.bind(addr);
                let st = last_new_block(mark, res_blocks);
                (fut_op(fut, unit0), st)
            }
            "listen" => {
                let mark = track::next_id();
                let fut = fd.listen(16);
                let st = last_new_block(mark, res_blocks);
                (fut_op(fut, unit0), st)
            }
            "shutdown" => {
                let mark = track::next_id();
                let fut = fd.shutdown(std::net::Shutdown::Both);
                let st = last_new_block(mark, res_blocks);
                (fut_op(fut, unit0), st)
            }
            "sockname" | "peername" => {
                let mark = track::next_id();
                let fut = if kind == "sockname" { fd.local_addr::<SocketAddr>() } else { fd.peer_addr::<SocketAddr>() };
                let st = last_new_block(mark, res_blocks);
                (fut_op(fut, |a: SocketAddr| canon_addr(a, "0")), st)
            }
            "getsockopt" => {
                let mark = track::next_id();
                let fut = fd.socket_option::<KeepAlive>();
                let st = last_new_block(mark, res_blocks);
                (fut_op(fut, |on: bool| if on { "4".to_string() } else { "wrong-option-value".to_string() }), st)
            }
            "setsockopt" => {
                let mark = track::next_id();
                let fut = fd.set_socket_option::<KeepAlive>(true);
                let st = last_new_block(mark, res_blocks);
                (fut_op(fut, unit0), st)
            }
            // ---- 3. file system
            "open" => {
                let path = PathBuf::from("/tmp/a10-verif-life/some-file-to-open");
                let mark = track::next_id();
                let fut = a10::fs::open_file(sq, path);
                let st = last_new_block(mark, res_blocks);
                (fut_op(fut, canon_fd), st)
            }
            "statx" => {
                let mark = track::next_id();
                let fut = fd.metadata();
                let st = last_new_block(mark, res_blocks);
                (fut_op(fut, |m: a10::fs::Metadata| if m.len() == 1234 && m.is_file() { "0".to_string() } else { "wrong-metadata".to_string() }), st)
            }
            "rename" => {
                let from = PathBuf::from("/tmp/a10-verif-life/rename-from");
                let to = PathBuf::from("/tmp/a10-verif-life/rename-to-a-longer-name");
                let mark = track::next_id();
                let fut = a10::fs::rename(sq, from, to);
                let st = last_new_block(mark, res_blocks);
                (fut_op(fut, unit0), st)
            }
            "unlink" | "rmdir" | "mkdir" => {
                let path = PathBuf::from("/tmp/a10-verif-life/some-directory-entry");
                let mark = track::next_id();
                match kind {
                    "unlink" => {
                        let fut = a10::fs::remove_file(sq, path);
                        let st = last_new_block(mark, res_blocks);
                        (fut_op(fut, unit0), st)
                    }
                    "rmdir" => {
                        let fut = a10::fs::remove_dir(sq, path);
                        let st = last_new_block(mark, res_blocks);
                        (fut_op(fut, unit0), st)
                    }
                    _ => {
                        let fut = a10::fs::create_dir(sq, path);
                        let st = last_new_block(mark, res_blocks);
                        (fut_op(fut, unit0), st)
                    }
                }
            }
            "truncate" => {
                let mark = track::next_id();
                let fut = fd.truncate(4096);
                let st = last_new_block(mark, res_blocks);
                (fut_op(fut, unit0), st)
            }
            "fsync" | "fdatasync" => {
                let mark = track::next_id();
                let fut = if kind == "fsync" { fd.sync_all() } else { fd.sync_data() };
                let st = last_new_block(mark, res_blocks);
                (fut_op(fut, unit0), st)
            }
            "fallocate" => {
                let mark = track::next_id();
                let fut = fd.allocate(0, 4096);
                let st = last_new_block(mark, res_blocks);
                (fut_op(fut, unit0), st)
            }
            "fadvise" => {
                let mark = track::next_id();
                let fut = fd.advise(0, 0, a10::fs::AdviseFlag::SEQUENTIAL);
                let st = last_new_block(mark, res_blocks);
                (fut_op(fut, unit0), st)
            }
            "splice" => {
                let target = fd.as_fd().expect("regular descriptor");
                let mark = track::next_id();
                let fut = fd.splice_to(target, 32);
                let st = last_new_block(mark, res_blocks);
                (fut_op(fut, |n: usize| n.to_string()), st)
            }
            // ---- 4. processes, signals, descriptors
            "waitid" => {
                let mark = track::next_id();
                let fut = a10::process::wait(sq, WaitOn::Process(4242));
                let st = last_new_block(mark, res_blocks);
                (fut_op(fut, |w: a10::process::WaitInfo| if w.pid() == 4242 { "0".to_string() } else { "wrong-wait-info".to_string() }), st)
            }
            "sigrecv" => {
                let signals: &'static Signals = Box::leak(Box::new(Signals::from_signals(sq, [Signal::USER2]).expect("signalfd")));
                self.signals.push(signals);
                let mark = track::next_id();
                let fut = signals.receive();
                let st = last_new_block(mark, res_blocks);
                (fut_op(fut, canon_siginfo), st)
            }
            "sigstream" => {
                let signals = Signals::from_signals(sq, [Signal::USER2]).expect("signalfd");
                let mark = track::next_id();
                let it = signals.receive_signals();
                let st = last_new_block(mark, res_blocks);
                (Box::new(SigStream { it: Some(Box::pin(it)), delivered: false }), st)
            }
            "pipe" => {
                let mark = track::next_id();
                let fut = a10::pipe::pipe(sq);
                let st = last_new_block(mark, res_blocks);
                (fut_op(fut, |fds: [AsyncFd; 2]| { util::lockp(&PARK).extend(fds); "0".to_string() }), st)
            }
            "mpoll" => {
                if self.other.is_none() {
                    self.other = Some(Ring::config().with_submission_queue_size(2).build().expect("second ring"));
                    simk::drain_events();
                }
                let mark = track::next_id();
                let it = self.other.as_ref().unwrap().pollable(sq);
                let st = last_new_block(mark, res_blocks);
                (Box::new(MIter { it: Box::pin(it), next: |it, cx| it.poll_next(cx).map(|o| o.map(|r| r.map(|()| "1".to_string()))) }), st)
            }
            "close" => {
                let raw = simk::with_ring(self.rfd, |r, _| r.fresh_fd());
                let afd = unsafe { AsyncFd::from_raw_fd(raw, sq) };
                let mark = track::next_id();
                let fut = afd.close();
                let st = last_new_block(mark, res_blocks);
                (fut_op(fut, unit0), st)
            }
            "todirect" => {
                let mark = track::next_id();
                let fut = fd.to_direct_descriptor();
                let st = last_new_block(mark, res_blocks);
                (fut_op(fut, |f: AsyncFd| { let _ = canon_fd(f); "1".to_string() }), st)
            }
            "tofd" => {
                let mark = track::next_id();
                let fut = self.dfd.to_file_descriptor();
                let st = last_new_block(mark, res_blocks);
                (fut_op(fut, canon_fd), st)
            }
            "socket" => {
                let mark = track::next_id();
                let fut = a10::net::socket(sq, a10::net::Domain::IPV4, a10::net::Type::STREAM, None);
                let st = last_new_block(mark, res_blocks);
                (fut_op(fut, canon_fd), st)
            }
            other => unreachable!("kind {other} is in KIND_TABLE but has no constructor"),
        }
    }
}

impl LifeCase {
    fn run_race(&mut self, kind: &str, i: usize, w: u32, schedule: &str) {
        use std::sync::{Arc, Mutex};
        self.feats.push("race".into());
        let op_addr = self.ops[i].state_addr;
        let old_tail = simk::with_ring(self.rfd, |r, _| r.sq_tail());
        let obj_slot: Arc<Mutex<Option<Box<dyn Pollable>>>> = Arc::new(Mutex::new(self.ops[i].obj.take()));
        let ring_slot: Arc<Mutex<Option<Ring>>> = Arc::new(Mutex::new(self.ring.take()));
        sched::install();
        let is_drop = kind == "drop";
        let a_slot = obj_slot.clone();
        let ta = sched::spawn(move || {
            let mut obj = util::lockp(&a_slot).take().unwrap();
            if is_drop {
                obj.discard();
                "dropped".to_string()
            } else {
                let waker = util::waker(w);
                let mut cx = Context::from_waker(&waker);
                let r = obj.poll(&mut cx);
                *util::lockp(&a_slot) = Some(obj);
                r.unwrap_or_else(|| "pending".to_string())
            }
        });
        let b_slot = ring_slot.clone();
        let tb = sched::spawn(move || {
            let mut ring = util::lockp(&b_slot).take().unwrap();
            let r = ring.poll(Some(Duration::ZERO));
            *util::lockp(&b_slot) = Some(ring);
            if r.is_err() { "error".to_string() } else { String::new() }
        });
        // per-thread observations
        let mut a_sqes: Vec<String> = Vec::new();
        let mut a_frees: Vec<usize> = Vec::new();
        let mut b_wakes: Vec<u32> = Vec::new();
        let mut b_frees: Vec<usize> = Vec::new();
        let mut first: Option<char> = None;
        let mut tail_seen = old_tail;
        let tids = [ta, tb];
        let mut order: Vec<char> = schedule.chars().collect();
        for _ in 0..400 {
            order.push('0');
            order.push('1');
        }
        for c in order {
            let k = if c == '0' { 0 } else { 1 };
            let tid = tids[k];
            let before = sched::status(tid);
            if matches!(before, Some(SchedStatus::Done(_))) {
                if matches!(sched::status(tids[1 - k]), Some(SchedStatus::Done(_))) {
                    break;
                }
                continue;
            }
            let after = sched::step(tid);
            // who took the operation's mutex first decides the linearisation order
            if first.is_none() {
                if let (Some(SchedStatus::Parked(sched::LOCK, a)), Some(oa)) = (&before, op_addr) {
                    let still = matches!(&after, SchedStatus::Parked(sched::LOCK, b) if b == a);
                    if *a == oa && !still {
                        first = Some(c);
                    }
                }
            }
            // attribute what just happened to the thread that ran
            let wakes = util::drain_wakes();
            let frees = self.collect_frees();
            if k == 0 {
                let lines = self.new_sqes(tail_seen, if is_drop { None } else { Some(i) }, if is_drop { Some(i) } else { None });
                tail_seen = simk::with_ring(self.rfd, |r, _| r.sq_tail());
                a_sqes.extend(lines);
                a_frees.extend(frees);
                if !wakes.is_empty() {
                    self.fail("C03", "C03/wake-from-wrong-thread", "the future's own thread invoked a waker during a race".into());
                }
            } else {
                b_wakes.extend(wakes);
                b_frees.extend(frees);
            }
        }
        let stuck = sched::finish_all();
        if !stuck.is_empty() {
            for pr in ["C02", "C03", "C06"] {
                self.fail(pr, &format!("{pr}/race-never-finishes"), "a thread racing a future's poll/drop against the processing of its completion did not return within 100000 scheduling steps".into());
            }
        }
        sched::uninstall();
        self.ring = util::lockp(&ring_slot).take();
        let a_result = match sched_result(ta) { Some(r) => r, None => "panic".to_string() };
        if first == Some('1') {
            // the completion was processed before the future's action
            self.after_ring_poll(&b_wakes);
        }
        // A's output lines (same format as the plain ops)
        let mut a_lines: Vec<String> = Vec::new();
        let a_op: String;
        if is_drop {
            self.ops[i].dropped_running = self.ops[i].ud_inflight.is_some();
            if self.ops[i].dropped_running {
                self.feats.push(format!("kind/{}/drop-in-flight", self.ops[i].kind));
            }
            for l in &a_sqes {
                if let Some(tg) = l.strip_prefix("cancel op") {
                    if tg.parse::<usize>().ok() != Some(i) {
                        self.fail("C06", "C06/cancel-wrong-target", format!("dropping op{i} requested cancellation of op{tg}"));
                    }
                }
            }
            a_lines.extend(a_sqes);
            for f in a_frees {
                a_lines.push(format!("free op{f}"));
            }
            if a_lines.is_empty() {
                a_lines.push("-".into());
            }
            a_op = format!("life drop {i}");
        } else {
            self.ops[i].obj = util::lockp(&obj_slot).take();
            a_lines.push(a_result.clone());
            a_lines.extend(a_sqes);
            a_op = format!("life poll {i} {w}");
            // oracle bookkeeping as in the plain poll
            let o = &mut self.ops[i];
            if a_result == "pending" {
                o.last_pending = Some(w);
                o.woken_since = false;
                o.ready_since = false;
            } else if a_result != "panic" {
                o.last_pending = None;
                o.ready_since = false;
                if a_result == "ready none" {
                    o.finished = true;
                } else {
                    let got: i64 = if let Some(v) = a_result.strip_prefix("ready ok ") { v.parse().unwrap_or(i64::MIN) } else if let Some(v) = a_result.strip_prefix("ready err ") { v.parse::<i64>().map(|n| -n).unwrap_or(i64::MIN) } else { i64::MIN };
                    let exp = o.expected.pop_front();
                    if !o.multi {
                        o.finished = true;
                    }
                    let kind = o.kind.clone();
                    if exp != Some(got) {
                        self.fail("C02", &format!("C02/wrong-result/{kind}"), format!("op{i} returned {got} in a race with completion processing, expected {exp:?}"));
                    }
                    if got == -(libc::EINTR as i64) || got == -(libc::ECANCELED as i64) {
                        self.fail("C09", &format!("C09/interruption-observed/{kind}"), format!("op{i} (not dropped) resolved with errno {} in a race with completion processing: the interruption was reported to the caller", -got));
                    }
                }
            }
        }
        if first != Some('1') {
            self.after_ring_poll(&b_wakes);
        }
        // B's output lines (a Ring::poll that did not enter the kernel)
        let head = simk::with_ring(self.rfd, |r, _| r.cq_head());
        let b_lines = vec!["noenter".to_string(), format!("wakes {} frees {}", list(&b_wakes), list(&b_frees)), format!("cqhead={head}")];
        let b_op = "life rpoll -".to_string();
        if first == Some('1') {
            self.raced = vec![(b_op, b_lines), (a_op, a_lines)];
            self.feats.push("race-completion-first".into());
        } else {
            self.raced = vec![(a_op, a_lines), (b_op, b_lines)];
            self.feats.push("race-future-first".into());
        }
        self.check_wakeups();
    }
}

fn sched_result(tid: usize) -> Option<String> {
    match sched::status(tid) {
        Some(SchedStatus::Done(r)) => if r == "panic" { None } else { Some(r) },
        _ => None,
    }
}

impl LifeCase {
    /// A plausible next completion for operation `i` (mostly valid, all outcomes).
    fn gen_result(&mut self, rng: &mut Rng, i: usize) -> (i32, u32) {
        let Some(op) = self.ops.get(i) else { return (1, 0) };
        let posted = simk::with_ring(self.rfd, |r, _| {
            op.ud_inflight.and_then(|ud| r.inflight.iter().find(|x| x.sqe.user_data == ud).map(|x| x.posted)).unwrap_or(0)
        });
        let errs = [-libc::EINTR, -libc::ECANCELED, -libc::EIO, -libc::EAGAIN, -libc::EPIPE];
        let merrs = [-libc::ECANCELED, -libc::EINTR, -libc::ENOBUFS, -libc::EIO];
        let small = |rng: &mut Rng| rng.range(1, 64) as i32;
        match op.cls {
            Cls::Zc => {
                if posted >= 1 {
                    (0, CQE_F_NOTIF)
                } else {
                    match rng.weighted(&[6, 2, 2]) {
                        0 => (small(rng), CQE_F_MORE),
                        1 => (*rng.pick(&errs), 0),
                        _ => (*rng.pick(&errs[..2]), CQE_F_MORE),
                    }
                }
            }
            Cls::MBuf => match rng.weighted(&[8, 2, 2, 1]) {
                0 => (small(rng), CQE_F_MORE),
                1 => (0, 0),
                2 => (*rng.pick(&merrs), 0),
                _ => (small(rng), 0),
            },
            Cls::MFd => match rng.weighted(&[8, 3, 1]) {
                0 => (small(rng), CQE_F_MORE),
                1 => (*rng.pick(&merrs), 0),
                _ => (small(rng), 0),
            },
            Cls::MFixed(v) => match rng.weighted(&[8, 3, 1]) {
                0 => (v, CQE_F_MORE),
                1 => (*rng.pick(&merrs), 0),
                _ => (v, 0),
            },
            Cls::Len => match rng.weighted(&[7, 1, 3]) {
                0 => (small(rng), 0),
                1 => (0, 0),
                _ => (*rng.pick(&errs), 0),
            },
            Cls::Fd => match rng.weighted(&[7, 3]) {
                0 => (small(rng), 0),
                _ => (*rng.pick(&errs), 0),
            },
            Cls::Zero => match rng.weighted(&[7, 3]) {
                0 => (0, 0),
                _ => (*rng.pick(&errs), 0),
            },
            Cls::Fixed(v) => match rng.weighted(&[7, 3]) {
                0 => (v, 0),
                _ => (*rng.pick(&errs), 0),
            },
        }
    }

    /// A successful result operation `i` may legitimately complete with (the
    /// kernel never answers a `connect` with 1, nor a signalfd read with 5).
    fn ok_value(&self, i: usize) -> i32 {
        match self.ops.get(i).map(|o| o.cls) {
            Some(Cls::Zero) => 0,
            Some(Cls::Fixed(v)) | Some(Cls::MFixed(v)) => v,
            _ => 1,
        }
    }
}

impl Comp for LifeComp {
    fn name(&self) -> &'static str {
        "life"
    }
    fn rule(&self) -> String {
        format!("each case = a random script of ≤ 40 ops over ≤ 5 concurrent real operations, each of one of {} kinds built through a10's public API ({}) on a ring with sq ∈ {{1,2,4}}, cq ∈ {{2,4,8}} and random initial 32-bit counters (0, 2^31, 2^32-k): new/poll(with same or replaced waker)/drop/kpost(kind-appropriate result: length, descriptor, 0 or the fixed size; any errno incl. EINTR/ECANCELED; F_MORE, F_NOTIF)/rpoll(with completions posted during enter)/rdrop/race + a malformed stream; every heap region a submission hands to the kernel (decoded per opcode: buffers, iovec arrays, msghdr, address storage + length, paths, statx buffer, siginfo, option value, pipe descriptors) is watched by the tracking allocator, every freed block is quarantined for the duration of the case; features kind/<k>[/resolved|/drop-in-flight|/restart|/ring-drop] count the cases per kind; non-trivial = the case drops a future while its submission is in flight, restarts after EINTR/ECANCELED, completes operations out of submission order, splits a multishot batch across polls, goes through the zero-copy two-step, hits a full submission queue, or races a drop/poll against completion processing; distinct = distinct op scripts", KIND_TABLE.len(), KIND_TABLE.iter().map(|k| k.name).collect::<Vec<_>>().join(", "))
    }
    fn gen_header(&mut self, rng: &mut Rng, id: u64, _tier: &str) -> String {
        let sq = *rng.pick(&[1u32, 2, 2, 4]);
        let cq = (*rng.pick(&[1u32, 2, 4])) * sq.max(1);
        let cq = cq.max(2);
        let ctr = |rng: &mut Rng| -> u32 {
            match rng.below(4) {
                0 => 0,
                1 => 1 << 31,
                _ => u32::MAX - rng.below(6) as u32,
            }
        };
        let kt = if rng.chance(1, 5) { " kt=1" } else { "" };
        format!("life begin {id} sq={sq} cq={cq} sqh={} cqh={} steps={}{kt}", ctr(rng), ctr(rng), rng.range(8, 40))
    }
    fn begin(&mut self, header: &str) -> Box<dyn Case> {
        Box::new(LifeCase::new(header))
    }
}
