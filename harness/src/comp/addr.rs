//! C16: socket addresses round-trip through their kernel representation.
//!
//! Pure calls of the public `SocketAddress` trait. The "kernel" copies the
//! first `klen` bytes of the storage into a junk-filled buffer, so `init` may
//! only rely on the bytes the kernel reported.

use std::mem::MaybeUninit;
use std::net::{Ipv4Addr, Ipv6Addr, SocketAddr, SocketAddrV4, SocketAddrV6};
use std::os::linux::net::SocketAddrExt;
use std::os::unix::ffi::OsStrExt;
use std::os::unix::net::SocketAddr as UnixAddr;

use a10::net::SocketAddress;

use crate::comp::{Case, CaseReport, Comp};
use crate::util::{hex, Rng};

pub struct AddrComp;

fn hexs(b: &[u8]) -> String {
    if b.is_empty() { "-".into() } else { hex(b) }
}

fn unhex(s: &str) -> Option<Vec<u8>> {
    if s == "-" {
        return Some(Vec::new());
    }
    if s.len() % 2 != 0 {
        return None;
    }
    (0..s.len() / 2)
        .map(|i| u8::from_str_radix(&s[2 * i..2 * i + 2], 16).ok())
        .collect()
}

fn show_unix(a: &UnixAddr) -> String {
    if let Some(p) = a.as_pathname() {
        format!("path:{}", hexs(p.as_os_str().as_bytes()))
    } else if let Some(n) = a.as_abstract_name() {
        format!("abstract:{}", hexs(n))
    } else {
        "unnamed".into()
    }
}

fn show_ip(a: &SocketAddr) -> String {
    match a {
        SocketAddr::V4(a) => format!("v4:{}:{}", hexs(&a.ip().octets()), a.port()),
        SocketAddr::V6(a) => format!(
            "v6:{}:{}:{}:{}",
            hexs(&a.ip().octets()),
            a.port(),
            a.flowinfo(),
            a.scope_id()
        ),
    }
}

/// Convert to storage, pass through the "kernel", convert back.
fn roundtrip<A: SocketAddress>(addr: A, klen: Option<u32>, show: impl Fn(&A) -> String) -> (String, String, String, String)
where
    A::Storage: Sized,
{
    let orig = show(&addr);
    let storage = addr.into_storage();
    let (ptr, ptrlen) = unsafe { A::as_ptr(&storage) };
    let bytes = unsafe { std::slice::from_raw_parts(ptr.cast::<u8>(), ptrlen as usize) }.to_vec();
    // What the caller would hand to the kernel to be filled.
    let mut out: MaybeUninit<A::Storage> = MaybeUninit::uninit();
    let (mptr, mutlen) = unsafe { A::as_mut_ptr(&mut out) };
    // The address structure is the `mutlen` bytes at the pointers (the storage may carry
    // more, e.g. the length of a Unix address).
    let size = mutlen as usize;
    let klen = klen.unwrap_or(ptrlen).min(mutlen);
    unsafe {
        // Junk everywhere, then the `klen` bytes the kernel writes.
        std::ptr::write_bytes(mptr.cast::<u8>(), 0xAA, size);
        let all = std::slice::from_raw_parts(ptr.cast::<u8>(), size);
        std::ptr::copy_nonoverlapping(all.as_ptr(), mptr.cast::<u8>(), klen as usize);
    }
    // What the kernel is shown: the first `ptrlen` bytes at `as_ptr` — read back with exactly that
    // length they must be the address itself.
    let sees = {
        let mut out2: MaybeUninit<A::Storage> = MaybeUninit::uninit();
        let (mptr2, mutlen2) = unsafe { A::as_mut_ptr(&mut out2) };
        let n = ptrlen.min(mutlen2);
        unsafe {
            std::ptr::write_bytes(mptr2.cast::<u8>(), 0x55, mutlen2 as usize);
            std::ptr::copy_nonoverlapping(ptr.cast::<u8>(), mptr2.cast::<u8>(), n as usize);
        }
        match crate::util::catch(move || unsafe { A::init(out2, n) }) {
            Ok(b) => show(&b),
            Err(_) => "panic".to_string(),
        }
    };
    let back = match crate::util::catch(move || unsafe { A::init(out, klen) }) {
        Ok(b) => b,
        Err(msg) => {
            let all = unsafe { std::slice::from_raw_parts(ptr.cast::<u8>(), size) };
            let back = format!("panic({})", msg.lines().next().unwrap_or("").chars().take(80).collect::<String>().replace(' ', "_"));
            return (format!("storage={} ptrlen={} mutlen={} back={}", hexs(all), ptrlen, mutlen, back), orig, back, sees);
        }
    };
    // Print the whole address structure (not only ptrlen bytes): padding is part of the contract.
    let all = unsafe { std::slice::from_raw_parts(ptr.cast::<u8>(), size) };
    let _ = bytes;
    let back = show(&back);
    (
        format!("storage={} ptrlen={} mutlen={} back={}", hexs(all), ptrlen, mutlen, back),
        orig,
        back,
        sees,
    )
}

struct AddrCase {
    left: u32,
    feats: Vec<String>,
    oracle: Vec<(String, String, String)>,
}

impl Case for AddrCase {
    fn next_op(&mut self, rng: &mut Rng) -> Option<String> {
        if self.left == 0 {
            return None;
        }
        self.left -= 1;
        let interesting = [0u64, 1, 255, 256, 65535, 0x0100, 0xff00, 0x1234];
        let port = if rng.chance(1, 2) { *rng.pick(&interesting) } else { rng.below(65536) };
        let byte = |rng: &mut Rng| -> u8 {
            match rng.below(4) {
                0 => 0,
                1 => 255,
                _ => rng.below(256) as u8,
            }
        };
        Some(match rng.weighted(&[2, 2, 1, 1, 4, 3, 1]) {
            0 | 2 => {
                let ip: Vec<u8> = (0..4).map(|_| byte(rng)).collect();
                let k = if rng.chance(1, 2) { "v4" } else { "any4" };
                format!("addr {k} {} {port}", hexs(&ip))
            }
            1 | 3 => {
                let mut ip: Vec<u8> = (0..16).map(|_| byte(rng)).collect();
                // structured addresses a decoder might special-case
                match rng.below(12) {
                    0 => { ip[..10].fill(0); ip[10] = 0xff; ip[11] = 0xff; }          // ::ffff:a.b.c.d (IPv4-mapped)
                    1 => { ip[..12].fill(0); }                                        // ::a.b.c.d (IPv4-compatible)
                    2 => { ip.fill(0); ip[15] = 1; }                                  // ::1
                    3 => { ip.fill(0); }                                              // ::
                    4 => { ip[0] = 0xfe; ip[1] = 0x80; ip[2..8].fill(0); }            // fe80::/64 link-local
                    5 => { ip[0] = 0xff; ip[1] = 0x02; }                              // multicast
                    6 => { ip[..12].copy_from_slice(&[0, 0x64, 0xff, 0x9b, 0, 0, 0, 0, 0, 0, 0, 0]); } // 64:ff9b::/96
                    7 => { ip[0] = 0x20; ip[1] = 0x02; }                              // 2002::/16 (6to4)
                    _ => {}
                }
                let flow = if rng.chance(1, 3) { 0 } else { rng.next() as u32 };
                let scope = if rng.chance(1, 3) { 0 } else { rng.next() as u32 };
                let k = if rng.chance(1, 2) { "v6" } else { "any6" };
                format!("addr {k} {} {port} {flow} {scope}", hexs(&ip))
            }
            4 => {
                // path name: 1..=107 non-zero bytes, biased to the extremes
                let n = match rng.below(5) {
                    0 => 1,
                    1 => 107,
                    2 => 106,
                    _ => rng.range(1, 107),
                } as usize;
                let p: Vec<u8> = (0..n).map(|_| rng.range(1, 255) as u8).collect();
                let klen = match rng.below(8) {
                    0..=3 => 2 + n + 1, // with the terminating NUL (what Linux reports)
                    4 | 5 => 2 + n,     // without
                    _ => rng.range(0, 110) as usize,
                };
                self.feats.push(if klen == 2 + n + 1 { "path+nul" } else if klen == 2 + n { "path-nul" } else { "path-odd-len" }.into());
                format!("addr unix path {} {klen}", hexs(&p))
            }
            5 => {
                let n = match rng.below(5) {
                    0 => 0,
                    1 => 107,
                    _ => rng.range(0, 107),
                } as usize;
                let p: Vec<u8> = (0..n).map(|_| byte(rng)).collect();
                let klen = if rng.chance(7, 8) { 3 + n } else { rng.range(0, 110) as usize };
                self.feats.push("abstract".into());
                format!("addr unix abstract {} {klen}", hexs(&p))
            }
            _ => {
                // 2 = getsockname/getpeername/accept, 0 = recvmsg from an unbound sender (no address written)
                let klen = if rng.chance(3, 4) { if rng.chance(1, 2) { 2 } else { 0 } } else { rng.range(0, 110) };
                self.feats.push("unnamed".into());
                format!("addr unix unnamed - {klen}")
            }
        })
    }

    fn exec(&mut self, op: &str) -> Vec<String> {
        let t: Vec<&str> = op.split(' ').collect();
        let r = (|| -> Option<(String, String, String, bool, String)> {
            match t.as_slice() {
                ["addr", k @ ("v4" | "any4"), ip, port] => {
                    let ip = unhex(ip)?;
                    let port: u16 = port.parse().ok()?;
                    let ip: [u8; 4] = ip.try_into().ok()?;
                    let a = SocketAddrV4::new(Ipv4Addr::from(ip), port);
                    let (l, o, b, sees) = if *k == "v4" {
                        roundtrip(a, None, |a| show_ip(&SocketAddr::V4(*a)))
                    } else {
                        roundtrip(SocketAddr::V4(a), None, show_ip)
                    };
                    Some((l, o, b, true, sees))
                }
                ["addr", k @ ("v6" | "any6"), ip, port, flow, scope] => {
                    let ip = unhex(ip)?;
                    let port: u16 = port.parse().ok()?;
                    let ip: [u8; 16] = ip.try_into().ok()?;
                    let a = SocketAddrV6::new(Ipv6Addr::from(ip), port, flow.parse().ok()?, scope.parse().ok()?);
                    let (l, o, b, sees) = if *k == "v6" {
                        roundtrip(a, None, |a| show_ip(&SocketAddr::V6(*a)))
                    } else {
                        roundtrip(SocketAddr::V6(a), None, show_ip)
                    };
                    Some((l, o, b, true, sees))
                }
                ["addr", "unix", kind, name, klen] => {
                    let name = unhex(name)?;
                    let klen: u32 = klen.parse().ok()?;
                    let a = match *kind {
                        "path" => UnixAddr::from_pathname(std::ffi::OsStr::from_bytes(&name)).ok()?,
                        "abstract" => UnixAddr::from_abstract_name(&name).ok()?,
                        "unnamed" => UnixAddr::from_pathname("").ok()?,
                        _ => return None,
                    };
                    // Is `klen` a length the kernel reports for this address?
                    let n = name.len() as u32;
                    let legit = match *kind {
                        "path" => klen == 2 + n + 1 || klen == 2 + n,
                        "abstract" => klen == 3 + n,
                        _ => klen == 2 || klen == 0,
                    };
                    let (l, o, b, sees) = roundtrip(a, Some(klen), show_unix);
                    Some((l, o, b, legit, sees))
                }
                _ => None,
            }
        })();
        match r {
            Some((line, orig, back, legit, sees)) => {
                if sees != orig {
                    let kind = orig.split(':').next().unwrap_or("?").to_string();
                    self.oracle.push((
                        "C16".into(),
                        format!("C16/kernel-sees/{kind}"),
                        format!("the pointer/length pair passed to the kernel for {orig} describes {sees} ({op})"),
                    ));
                }
                if legit && orig != back {
                    let kind = orig.split(':').next().unwrap_or("?").to_string();
                    self.oracle.push((
                        "C16".into(),
                        format!("C16/roundtrip/{kind}"),
                        format!("address {orig} read back as {back} ({op})"),
                    ));
                }
                vec![line]
            }
            None => vec!["bad-op".into()],
        }
    }

    fn drain_oracle(&mut self) -> Vec<(String, String, String)> {
        std::mem::take(&mut self.oracle)
    }

    fn finish(&mut self) -> CaseReport {
        CaseReport {
            oracle: Vec::new(),
            features: std::mem::take(&mut self.feats),
            nontrivial: true,
        }
    }
}

impl Comp for AddrComp {
    fn name(&self) -> &'static str {
        "addr"
    }
    fn rule(&self) -> String {
        "each case = 8 random addresses (IPv4/IPv6/either-family with boundary ports, flow labels, scope ids; Unix path names of 1..107 non-zero bytes, abstract names of 0..107 arbitrary bytes, unnamed) converted with into_storage/as_ptr, passed through a junk-filled kernel buffer with the reported length (with/without NUL, plus arbitrary lengths), converted back with init; every case is non-trivial; distinct = distinct op scripts".into()
    }
    fn gen_header(&mut self, _rng: &mut Rng, id: u64, _tier: &str) -> String {
        format!("addr begin {id}")
    }
    fn begin(&mut self, _header: &str) -> Box<dyn Case> {
        Box::new(AddrCase { left: 8, feats: Vec::new(), oracle: Vec::new() })
    }
}
