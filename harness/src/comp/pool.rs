//! C08: `ReadBufPool` buffers are conserved and exclusively owned.
//!
//! A real `ReadBufPool` registered with the simulated kernel; scripts of
//! single-shot reads/receives into `ReadBuf`s (fresh ones: the kernel selects
//! a buffer; owning ones: the kernel writes into the spare capacity),
//! multishot reads/receives, `ReadBuf` edits, `release()`, drops (also from
//! several real threads at once) and futures dropped while their submission
//! is in flight. After every op the implementation prints what it did to the
//! buffer ring (entries published, tail), which buffer ids were delivered and
//! at which offsets the `ReadBuf`s point (compared with the Lean model).
//!
//! Independent oracle, after every op: the kernel's view of the buffer ring
//! (ids between its private head and the published tail) ⊎ the buffers the
//! live `ReadBuf`s point into ⊎ the ids sitting in completions that a live
//! future can still turn into a `ReadBuf` must be exactly `0..pool_size`,
//! each once; every ring entry names the address of its id; the bytes of an
//! owned buffer change only through its own `ReadBuf`.

use std::collections::VecDeque;
use std::pin::Pin;
use std::sync::Arc;
use std::task::{Context, Poll};
use std::time::Duration;

use a10::io::{Buf, ReadBuf, ReadBufPool};
use a10::{AsyncFd, Ring, SubmissionQueue};

use crate::comp::{Case, CaseReport, Comp};
use crate::simk::{self, KEv, PostSpec, Target, CQE_F_BUFFER, CQE_F_MORE};
use crate::track;
use crate::util::{self, Rng};

pub struct PoolComp;

enum PollRes {
    Pending,
    Ok(ReadBuf),
    Err(std::io::Error),
    Done,
}

enum Fut {
    Read(Pin<Box<a10::io::Read<'static, ReadBuf>>>),
    Recv(Pin<Box<a10::net::Recv<'static, ReadBuf>>>),
    RecvFrom(Pin<Box<a10::net::RecvFrom<'static, ReadBuf, a10::net::NoAddress>>>),
    MRead(Pin<Box<a10::io::MultishotRead<'static>>>),
    MRecv(Pin<Box<a10::net::MultishotRecv<'static>>>),
}

impl Fut {
    fn poll(&mut self, cx: &mut Context<'_>) -> PollRes {
        use std::future::Future;
        match self {
            Fut::Read(f) => match f.as_mut().poll(cx) {
                Poll::Pending => PollRes::Pending,
                Poll::Ready(Ok(b)) => PollRes::Ok(b),
                Poll::Ready(Err(e)) => PollRes::Err(e),
            },
            Fut::Recv(f) => match f.as_mut().poll(cx) {
                Poll::Pending => PollRes::Pending,
                Poll::Ready(Ok(b)) => PollRes::Ok(b),
                Poll::Ready(Err(e)) => PollRes::Err(e),
            },
            Fut::RecvFrom(f) => match f.as_mut().poll(cx) {
                Poll::Pending => PollRes::Pending,
                Poll::Ready(Ok((b, _, _))) => PollRes::Ok(b),
                Poll::Ready(Err(e)) => PollRes::Err(e),
            },
            Fut::MRead(f) => match f.as_mut().poll_next(cx) {
                Poll::Pending => PollRes::Pending,
                Poll::Ready(None) => PollRes::Done,
                Poll::Ready(Some(Ok(b))) => PollRes::Ok(b),
                Poll::Ready(Some(Err(e))) => PollRes::Err(e),
            },
            Fut::MRecv(f) => match f.as_mut().poll_next(cx) {
                Poll::Pending => PollRes::Pending,
                Poll::Ready(None) => PollRes::Done,
                Poll::Ready(Some(Ok(b))) => PollRes::Ok(b),
                Poll::Ready(Some(Err(e))) => PollRes::Err(e),
            },
        }
    }
}

/// A completion the kernel posted for an operation and that the caller has
/// not consumed yet (oracle bookkeeping).
struct PRes {
    bid: Option<u16>,
    res: i32,
    fin: bool,
    /// `Ring::poll` has processed the completion
    processed: bool,
}

struct OpSlot {
    kind: &'static str,
    multi: bool,
    fut: Option<Fut>,
    /// single-shot: handle of the ReadBuf moved into the operation
    rb: usize,
    /// the operation state still contains that ReadBuf
    has_rb: bool,
    /// the future returned its last value (generator only)
    finished: bool,
    user_data: Option<u64>,
    /// current submission: BUFFER_SELECT, else (offset, len) of the target
    select: bool,
    target: (usize, usize),
    pending: VecDeque<PRes>,
}

enum RbSlot {
    Live(ReadBuf),
    Moved,
    Gone,
}

/// What the oracle knows about a buffer that is out of the kernel's hands.
#[derive(Clone)]
struct Held {
    handle: usize,
    bid: usize,
    /// expected contents of the whole slot
    bytes: Vec<u8>,
}

struct PoolCase {
    ring: Option<Ring>,
    sq: Option<SubmissionQueue>,
    rfd: i32,
    fd: Option<&'static AsyncFd>,
    pool: Option<ReadBufPool>,
    bgid: u16,
    base: usize,
    ps: usize,
    bs: usize,
    ops: Vec<OpSlot>,
    rbs: Vec<RbSlot>,
    /// buffers owned by handles (live or moved into an operation)
    held: Vec<Held>,
    /// ids of the last `prel`, in the order they reached the ring
    pending_order: Option<Vec<u16>>,
    /// why an id stopped being deliverable (oracle)
    tags: Vec<Option<(&'static str, String)>>,
    reported: Vec<bool>,
    steps_left: u32,
    fill_seq: u32,
    ended: bool,
    /// the oracle found the pool corrupted (generator stops)
    broken: bool,
    started: bool,
    big_cycle: u32,
    releases: u64,
    wrapped: bool,
    delivered: u32,
    oracle: Vec<(String, String, String)>,
    feats: Vec<String>,
}

const KINDS: &[&str] = &["read", "recv", "recvfrom", "mread", "mrecv"];

fn kv(toks: &[&str], k: &str) -> Option<u64> {
    toks.iter().find_map(|x| x.strip_prefix(&format!("{k}="))).and_then(|v| v.parse().ok())
}

fn list<T: std::fmt::Display>(v: &[T]) -> String {
    if v.is_empty() { "-".into() } else { v.iter().map(|x| x.to_string()).collect::<Vec<_>>().join(",") }
}

fn parse_list(s: &str) -> Option<Vec<usize>> {
    if s == "-" || s.is_empty() {
        return Some(Vec::new());
    }
    s.split(',').map(|x| if x.bytes().all(|c| c.is_ascii_digit()) { x.parse().ok() } else { None }).collect()
}

fn parse_nat(s: &str) -> Option<usize> {
    if s.is_empty() || s.len() > 18 || !s.bytes().all(|c| c.is_ascii_digit()) { None } else { s.parse().ok() }
}

fn canary(i: usize) -> u8 {
    ((i * 29 + 113) % 251) as u8
}

impl PoolCase {
    fn new(header: &str) -> PoolCase {
        let t: Vec<&str> = header.split(' ').collect();
        let ps = kv(&t, "ps").unwrap_or(0) as usize;
        let bs = kv(&t, "bs").unwrap_or(0) as usize;
        let t0 = kv(&t, "t0");
        let steps = kv(&t, "steps").unwrap_or(0) as u32;
        let big = kv(&t, "big").unwrap_or(0) as u32;
        let mut case = PoolCase {
            ring: None,
            sq: None,
            rfd: -1,
            fd: None,
            pool: None,
            bgid: 0,
            base: 0,
            ps,
            bs,
            ops: Vec::new(),
            rbs: Vec::new(),
            held: Vec::new(),
            pending_order: None,
            tags: vec![None; ps],
            reported: vec![false; ps],
            steps_left: steps,
            fill_seq: 0,
            ended: false,
            broken: false,
            started: false,
            big_cycle: big,
            releases: 0,
            wrapped: false,
            delivered: 0,
            oracle: Vec::new(),
            feats: Vec::new(),
        };
        // Same acceptance rule as the model's `begin`.
        let Some(t0) = t0 else { return case };
        if ps == 0 || bs == 0 || ps > 32768 || !ps.is_power_of_two() || ps * bs > (16 << 30) || bs >= (1 << 31) {
            case.ps = 0;
            return case;
        }
        simk::reset();
        simk::activate(simk::SetupCfg::default());
        let ring = Ring::config().with_submission_queue_size(64).build().expect("ring build");
        let sq = ring.sq();
        let rfd = simk::with_sim(|s| *s.rings.keys().next().unwrap());
        let raw = simk::with_ring(rfd, |r, _| r.fresh_fd());
        let fd: &'static AsyncFd = Box::leak(Box::new(unsafe { AsyncFd::from_raw_fd(raw, sq.clone()) }));
        let pool = ReadBufPool::new(sq.clone(), ps as u16, bs as u32).expect("pool");
        let bgid = simk::with_ring(rfd, |r, _| *r.pbufs.keys().next().unwrap());
        let entries = simk::with_ring(rfd, |r, _| r.available_buffers(bgid));
        let base = entries.iter().find(|e| e.0 == 0).map(|e| e.1 as usize).expect("buffer 0");
        if ps * bs <= (8 << 20) {
            for i in 0..ps * bs {
                unsafe { *((base + i) as *mut u8) = canary(i) };
            }
        } else {
            // huge pool (untouched virtual memory): only the head of every buffer
            case.feats.push("huge-pool".into());
            for b in 0..ps {
                for i in b * bs..b * bs + 64 {
                    unsafe { *((base + i) as *mut u8) = canary(i) };
                }
            }
        }
        // Pre-advance both 16-bit counters by `t0`: the state after `t0`
        // select/release cycles in ring order (entry `i` still names buffer `i`).
        if t0 != 0 {
            let t0 = (t0 % 65536) as u16;
            simk::with_ring(rfd, |r, _| {
                let p = r.pbufs.get_mut(&bgid).unwrap();
                p.khead = t0;
                let tail = unsafe { &*((p.ring_addr + 14) as *const std::sync::atomic::AtomicU16) };
                tail.store(t0.wrapping_add(ps as u16), std::sync::atomic::Ordering::SeqCst);
            });
        }
        simk::drain_events();
        util::drain_wakes();
        case.ring = Some(ring);
        case.sq = Some(sq);
        case.rfd = rfd;
        case.fd = Some(fd);
        case.pool = Some(pool);
        case.bgid = bgid;
        case.base = base;
        case
    }

    fn alive(&self) -> bool {
        self.pool.is_some()
    }

    fn fail(&mut self, sig: &str, what: String) {
        self.oracle.push(("C08".into(), format!("C08/{sig}"), what));
    }

    fn kview(&self) -> Vec<(u16, u64, u32)> {
        simk::with_ring(self.rfd, |r, _| r.available_buffers(self.bgid))
    }

    fn tail(&self) -> u16 {
        simk::with_ring(self.rfd, |r, _| {
            let p = r.pbufs.get(&self.bgid).unwrap();
            unsafe { (*((p.ring_addr + 14) as *const std::sync::atomic::AtomicU16)).load(std::sync::atomic::Ordering::SeqCst) }
        })
    }

    fn khead(&self) -> u16 {
        simk::with_ring(self.rfd, |r, _| r.pbufs.get(&self.bgid).unwrap().khead)
    }

    fn entry_at(&self, slot: usize) -> (u64, u32, u16) {
        simk::with_ring(self.rfd, |r, _| {
            let p = r.pbufs.get(&self.bgid).unwrap();
            let e = unsafe { *((p.ring_addr + slot * 16) as *const (u64, u32, u16, u16)) };
            (e.0, e.1, e.2)
        })
    }

    fn show_ring(&self) -> String {
        let ids: Vec<u16> = self.kview().iter().map(|e| e.0).collect();
        if ids.len() <= 64 {
            format!("tail={} khead={} avail={}", self.tail(), self.khead(), list(&ids))
        } else {
            let mut acc: u64 = 7;
            for b in &ids {
                acc = (acc * 31 + *b as u64 + 1) % 1_000_000_007;
            }
            format!("tail={} khead={} n={} sum={}", self.tail(), self.khead(), ids.len(), acc)
        }
    }

    /// Lines for the ring entries published since `old_tail`.
    fn pub_lines(&mut self, old_tail: u16) -> Vec<String> {
        let new_tail = self.tail();
        let n = new_tail.wrapping_sub(old_tail);
        let mut out = Vec::new();
        for k in 0..n {
            let t = old_tail.wrapping_add(k);
            let slot = (t as usize) & (self.ps - 1);
            let (addr, _len, bid) = self.entry_at(slot);
            let off = (addr as usize).wrapping_sub(self.base);
            out.push(format!("pub slot={slot} bid={bid} off={off} tail={}", t.wrapping_add(1)));
            self.releases += 1;
            if t.wrapping_add(1) == 0 {
                self.wrapped = true;
            }
        }
        out
    }

    /// Offset of the ReadBuf's data pointer in the pool, if it owns a buffer.
    fn own_off(&self, b: &ReadBuf) -> Option<usize> {
        let (p, _) = unsafe { Buf::parts(b) };
        let p = p as usize;
        if p >= self.base && p < self.base + self.ps * self.bs { Some(p - self.base) } else { None }
    }

    fn show_off(&self, j: usize) -> String {
        match &self.rbs[j] {
            RbSlot::Live(b) => match self.own_off(b) {
                Some(off) => format!("off={off} len={}", b.len()),
                None => format!("off=- len={}", b.len()),
            },
            _ => "off=? len=?".into(),
        }
    }

    fn slot_bytes(&self, bid: usize) -> Vec<u8> {
        // (the head of the buffer is enough for huge buffers: nothing writes further)
        unsafe { std::slice::from_raw_parts((self.base + bid * self.bs) as *const u8, self.bs.min(1 << 16)) }.to_vec()
    }

    fn next_fill(&mut self) -> u8 {
        self.fill_seq += 1;
        (self.fill_seq % 200 + 40) as u8
    }

    /// Handle `j` now owns whatever its pointer says (after a delivery or an edit).
    fn resnap(&mut self, j: usize) {
        self.held.retain(|h| h.handle != j);
        if let RbSlot::Live(b) = &self.rbs[j] {
            if let Some(off) = self.own_off(b) {
                let bid = off / self.bs;
                let bytes = self.slot_bytes(bid);
                self.held.push(Held { handle: j, bid, bytes });
            }
        }
    }

    fn unhold(&mut self, j: usize) {
        self.held.retain(|h| h.handle != j);
    }

    /// The oracle proper. `op` is the op just executed.
    fn verify(&mut self, op: &str) {
        if !self.alive() {
            return;
        }
        let (ps, bs, base) = (self.ps, self.bs, self.base);
        let mut fails: Vec<(String, String)> = Vec::new();
        let mut count = vec![0u8; ps];
        // 1. the kernel's view
        let mut kview = self.kview();
        if kview.len() > ps {
            fails.push(("ring-overfull".into(), format!("after `{op}` the kernel sees {} published entries (tail {} head {}), the pool has {ps} buffers", kview.len(), self.tail(), self.khead())));
            kview.truncate(ps);
        }
        for (bid, addr, len) in &kview {
            if fails.len() > 8 {
                break;
            }
            let b = *bid as usize;
            if b >= ps {
                fails.push(("bad-ring-entry".into(), format!("after `{op}` the ring offers buffer id {bid}, the pool has {ps} buffers")));
                continue;
            }
            if *addr as usize != base + b * bs || *len as usize != bs {
                fails.push(("bad-ring-entry".into(), format!("after `{op}` the ring entry of buffer {bid} is (offset {}, len {len}); the buffer is (offset {}, len {bs})", (*addr as usize).wrapping_sub(base), b * bs)));
            }
            count[b] = count[b].saturating_add(1);
        }
        // 2. buffers held by ReadBufs
        for h in &self.held {
            count[h.bid] = count[h.bid].saturating_add(1);
        }
        for (j, s) in self.rbs.iter().enumerate() {
            if let RbSlot::Live(b) = s {
                let off = self.own_off(b);
                let known = self.held.iter().find(|h| h.handle == j).map(|h| h.bid * bs);
                if off != known {
                    fails.push(("pointer-moved".into(), format!("after `{op}` rb{j} points at offset {off:?}, it was given {known:?}")));
                }
            }
        }
        // 3. ids in completions a live future can still turn into a ReadBuf
        for o in self.ops.iter() {
            if o.fut.is_none() {
                continue;
            }
            for p in &o.pending {
                if let Some(b) = p.bid {
                    count[b as usize] = count[b as usize].saturating_add(1);
                }
            }
        }
        for b in 0..ps {
            if fails.len() > 8 {
                break;
            }
            if count[b] > 1 {
                let mut who: Vec<String> = Vec::new();
                let n = kview.iter().filter(|e| e.0 as usize == b).count();
                if n > 0 {
                    who.push(if n == 1 { "available to the kernel".into() } else { format!("offered to the kernel {n} times") });
                }
                for h in self.held.iter().filter(|h| h.bid == b) {
                    who.push(format!("owned by rb{}", h.handle));
                }
                for (i, o) in self.ops.iter().enumerate() {
                    if o.fut.is_some() && o.pending.iter().any(|p| p.bid == Some(b as u16)) {
                        who.push(format!("in a completion of op{i}"));
                    }
                }
                fails.push(("double-owner".into(), format!("after `{op}` buffer {b} is {}", who.join(" and "))));
            } else if count[b] == 0 && !self.reported[b] {
                self.reported[b] = true;
                match self.tags[b].clone() {
                    Some((reason, how)) => {
                        self.feats.push(format!("lost-{reason}"));
                        fails.push((format!("lost-buffer/{reason}"), format!("buffer {b} {how}: no ReadBuf owns it, no completion carries it and the kernel cannot select it any more")));
                    }
                    None => fails.push(("not-returned".into(), format!("after `{op}` buffer {b} is neither available to the kernel nor owned by a ReadBuf nor in a pending completion"))),
                }
            }
        }
        // 4. bytes held by a ReadBuf change only through that ReadBuf
        for h in &self.held {
            let now = self.slot_bytes(h.bid);
            if now != h.bytes {
                let at = now.iter().zip(h.bytes.iter()).position(|(a, b)| a != b).unwrap_or(0);
                fails.push(("overwritten".into(), format!("`{op}` changed byte {at} of buffer {} while rb{} owns it", h.bid, h.handle)));
            }
        }
        for (sig, what) in fails {
            if !sig.starts_with("lost-buffer/") {
                // the pool is corrupt: stop generating ops for this case
                self.broken = true;
            }
            self.fail(&sig, what);
        }
        // keep the expectations current so one defect is reported once
        let held = std::mem::take(&mut self.held);
        self.held = held.into_iter().map(|mut h| { h.bytes = self.slot_bytes(h.bid); h }).collect();
    }

    /// Learn the submissions published since `old_tail` (at most one of ours).
    fn new_sqes(&mut self, old_tail: u32, polled: Option<usize>) -> Vec<String> {
        let entries: Vec<simk::Sqe> = simk::with_ring(self.rfd, |r, _| {
            let tail = r.sq_tail();
            let mut v = Vec::new();
            let mut t = old_tail;
            while t != tail {
                v.push(r.sqe_at(t));
                t = t.wrapping_add(1);
            }
            v
        });
        let mut lines = Vec::new();
        for sqe in entries {
            if sqe.opcode == simk::OP_ASYNC_CANCEL {
                lines.push("cancel".to_string());
                continue;
            }
            let Some(i) = polled else {
                lines.push(format!("sqe ? {}", simk::opcode_name(sqe.opcode)));
                continue;
            };
            let name = simk::opcode_name(sqe.opcode);
            let select = sqe.flags & simk::IOSQE_BUFFER_SELECT != 0;
            if select && sqe.buf_index != self.bgid {
                let what = format!("op{i} asks for buffer group {}, the pool is group {}", sqe.buf_index, self.bgid);
                self.fail("wrong-group", what);
            }
            let op = &mut self.ops[i];
            op.user_data = Some(sqe.user_data);
            op.select = select;
            if select {
                lines.push(format!("sqe {name} select"));
            } else {
                // RECVMSG (recv_from): the buffer is the single iovec of the message header
                let (addr, len) = if sqe.opcode == simk::OP_RECVMSG {
                    let m = unsafe { *(sqe.addr as *const libc::msghdr) };
                    if m.msg_iovlen == 1 {
                        let v = unsafe { *m.msg_iov };
                        (v.iov_base as u64, v.iov_len as u32)
                    } else {
                        (0, 0)
                    }
                } else {
                    (sqe.addr, sqe.len)
                };
                let off = (addr as usize).wrapping_sub(self.base);
                op.target = (off, len as usize);
                lines.push(format!("sqe {name} addr={off} len={len}"));
            }
        }
        lines
    }

    fn in_flight(&self, i: usize) -> bool {
        let Some(ud) = self.ops.get(i).and_then(|o| o.user_data) else { return false };
        simk::with_ring(self.rfd, |r, _| r.inflight.iter().any(|x| x.sqe.user_data == ud))
    }

    fn do_poll(&mut self, i: usize) -> Vec<String> {
        let mut out = Vec::new();
        let old_sq = simk::with_ring(self.rfd, |r, _| r.sq_tail());
        let old_tail = self.tail();
        let waker = util::waker(i as u32);
        let mut cx = Context::from_waker(&waker);
        let mut fut = self.ops[i].fut.take().unwrap();
        let r = util::catch(|| fut.poll(&mut cx));
        self.ops[i].fut = Some(fut);
        let (multi, rbh) = (self.ops[i].multi, self.ops[i].rb);
        match r {
            Err(_) => out.push("panic".into()),
            Ok(PollRes::Pending) => {
                out.push("pending".into());
                let lines = self.new_sqes(old_sq, Some(i));
                if !lines.is_empty() {
                    // a restart consumed the final EINTR/ECANCELED result
                    if let Some(p) = self.ops[i].pending.pop_front() {
                        self.feats.push("restart".into());
                        if let Some(b) = p.bid {
                            self.tags[b as usize] = Some(("restarted", format!("came with the {} completion of op{i} ({}) that a10 answered by restarting the operation", util::errno_name(-p.res), self.ops[i].kind)));
                        }
                    }
                }
                out.extend(lines);
            }
            Ok(PollRes::Done) => {
                self.ops[i].finished = true;
                out.push("ready none".into());
            }
            Ok(PollRes::Ok(buf)) => {
                let p = self.ops[i].pending.pop_front();
                if !multi {
                    self.ops[i].finished = true;
                }
                let j = if multi {
                    self.rbs.push(RbSlot::Live(buf));
                    self.rbs.len() - 1
                } else {
                    self.rbs[rbh] = RbSlot::Live(buf);
                    self.ops[i].has_rb = false;
                    rbh
                };
                // the ReadBuf must point at the buffer the kernel chose
                let (off, blen) = match &self.rbs[j] {
                    RbSlot::Live(b) => (self.own_off(b), b.len()),
                    _ => (None, 0),
                };
                if let Some(p) = &p {
                    if let Some(bid) = p.bid {
                        self.delivered += 1;
                        if off != Some(bid as usize * self.bs) {
                            let what = format!("the kernel chose buffer {bid} for op{i}, the ReadBuf points at offset {off:?}");
                            self.fail("wrong-buffer-delivered", what);
                        }
                        if blen != p.res.max(0) as usize {
                            let what = format!("op{i}: {} bytes were read, the ReadBuf has length {blen}", p.res);
                            self.fail("wrong-length", what);
                        }
                    }
                }
                if !multi && !self.ops[i].select {
                    self.feats.push("reread".into());
                }
                self.resnap(j);
                out.push(format!("ready ok rb{j} {}", self.show_off(j)));
            }
            Ok(PollRes::Err(e)) => {
                let p = self.ops[i].pending.pop_front();
                if let Some(p) = p {
                    if let Some(b) = p.bid {
                        self.tags[b as usize] = Some(("error-result", format!("came with the failed ({}) completion of op{i} ({})", util::errno_name(-p.res), self.ops[i].kind)));
                    }
                }
                if !multi {
                    // the ReadBuf went down with the failed operation
                    self.ops[i].finished = true;
                    self.ops[i].has_rb = false;
                    self.rbs[rbh] = RbSlot::Gone;
                    self.unhold(rbh);
                }
                if e.raw_os_error() == Some(libc::ENOBUFS) {
                    self.feats.push("enobufs".into());
                }
                out.push(format!("ready err {}", e.raw_os_error().unwrap_or(0)));
            }
        }
        out.extend(self.pub_lines(old_tail));
        out
    }

    fn do_drop(&mut self, i: usize) -> Vec<String> {
        let old_sq = simk::with_ring(self.rfd, |r, _| r.sq_tail());
        let old_tail = self.tail();
        let in_flight = self.in_flight(i) || {
            // published but not consumed yet
            let ud = self.ops[i].user_data;
            simk::with_ring(self.rfd, |r, _| {
                let (mut h, t) = (r.sq_head(), r.sq_tail());
                let mut f = false;
                while h != t {
                    if Some(r.sqe_at(h).user_data) == ud {
                        f = true;
                    }
                    h = h.wrapping_add(1);
                }
                f
            })
        };
        let unprocessed_final = self.ops[i].pending.iter().any(|p| p.fin && !p.processed);
        let in_flight = in_flight || unprocessed_final;
        let fut = self.ops[i].fut.take();
        let r = util::catch(move || drop(fut));
        let kind = self.ops[i].kind;
        // results nobody will read any more
        let pend: Vec<PRes> = self.ops[i].pending.drain(..).collect();
        for p in pend {
            if let Some(b) = p.bid {
                let (reason, how) = if p.processed {
                    ("unpolled-result", format!("was delivered to op{i} ({kind}) whose future was then dropped without reading the result"))
                } else {
                    ("after-drop", format!("was selected for op{i} ({kind}) whose future was dropped before the completion was processed"))
                };
                self.tags[b as usize] = Some((reason, how));
            }
        }
        let single_moved = self.ops[i].has_rb;
        if in_flight {
            self.feats.push("drop-in-flight".into());
        } else if single_moved {
            // the operation state (and the ReadBuf in it) is gone now
            let j = self.ops[i].rb;
            self.ops[i].has_rb = false;
            self.rbs[j] = RbSlot::Gone;
            self.unhold(j);
        }
        let mut out = Vec::new();
        if r.is_err() {
            out.push("panic".into());
        }
        let lines = self.new_sqes(old_sq, None);
        out.push(if lines.iter().any(|l| l == "cancel") { "cancel".into() } else { "-".into() });
        out.extend(self.pub_lines(old_tail));
        out
    }

    fn do_kpost(&mut self, i: usize, res: i32, more: bool, buf: bool) -> Vec<String> {
        if i >= self.ops.len() || !self.in_flight(i) {
            return vec!["miss".into()];
        }
        if simk::with_ring(self.rfd, |r, _| r.cq_count()) >= 64 {
            return vec!["cq-full".into()];
        }
        if more && !self.ops[i].multi {
            return vec!["bad-op".into()];
        }
        let ud = self.ops[i].user_data.unwrap();
        let select = self.ops[i].select;
        let flags = if more { CQE_F_MORE } else { 0 };
        let fill = self.next_fill();
        let future_alive = self.ops[i].fut.is_some();
        let kind = self.ops[i].kind;
        if buf {
            if !select || res > self.bs as i32 {
                return vec!["bad-op".into()];
            }
            let first = self.kview().first().copied();
            let mut spec = PostSpec::new(Target::UserData(ud), res, flags);
            match first {
                None => {
                    // no buffer: the kernel ends the operation with ENOBUFS
                    spec.res = -libc::ENOBUFS;
                    spec.flags = 0;
                    simk::with_ring(self.rfd, |r, ev| r.post(&spec, ev));
                    self.note_posted(i, None, -libc::ENOBUFS, true);
                    self.feats.push("enobufs".into());
                    return vec!["enobufs".into()];
                }
                Some((bid, _, _)) => {
                    if res >= 0 {
                        spec.data = Some(vec![fill; res as usize]);
                        spec.select_buf = true;
                        simk::with_ring(self.rfd, |r, ev| r.post(&spec, ev));
                    } else {
                        // a failed completion that still consumed a buffer
                        simk::with_ring(self.rfd, |r, ev| {
                            let sel = r.select_buffer(self.bgid).unwrap();
                            spec.flags |= CQE_F_BUFFER | ((sel.0 as u32) << simk::CQE_BUFFER_SHIFT);
                            r.post(&spec, ev);
                        });
                    }
                    self.note_posted(i, Some(bid), res, !more);
                    if !future_alive {
                        self.feats.push("buffer-for-dropped-future".into());
                        self.tags[bid as usize] = Some(("after-drop", format!("was selected for op{i} ({kind}) after its future had been dropped while in flight")));
                    }
                    return vec![format!("posted bid={bid}")];
                }
            }
        }
        let (toff, tlen) = self.ops[i].target;
        if res > 0 && (select || res as usize > tlen) {
            return vec!["bad-op".into()];
        }
        let mut spec = PostSpec::new(Target::UserData(ud), res, flags);
        if res > 0 {
            spec.data = Some(vec![fill; res as usize]);
            // the owner asked for this write: it is part of its buffer's expected contents
            let bs = self.bs;
            if let Some(h) = self.held.iter_mut().find(|h| h.bid == toff / bs) {
                let at = toff % bs;
                for k in 0..res as usize {
                    if at + k < h.bytes.len() {
                        h.bytes[at + k] = fill;
                    }
                }
            }
        }
        simk::with_ring(self.rfd, |r, ev| r.post(&spec, ev));
        self.note_posted(i, None, res, !more);
        vec!["posted".into()]
    }

    fn note_posted(&mut self, i: usize, bid: Option<u16>, res: i32, fin: bool) {
        if fin {
            // the address of a freed operation state (= user_data) may be reused
            self.ops[i].user_data = None;
        }
        if self.ops[i].fut.is_some() {
            self.ops[i].pending.push_back(PRes { bid, res, fin, processed: false });
            if self.ops[i].multi && self.ops[i].pending.iter().filter(|p| p.bid.is_some()).count() >= 2 {
                self.feats.push("multi-batch".into());
            }
        }
        let _ = fin;
    }

    fn do_rpoll(&mut self) -> Vec<String> {
        let old_tail = self.tail();
        simk::drain_events();
        let mut ring = self.ring.take().unwrap();
        let r = util::catch(|| ring.poll(Some(Duration::ZERO)));
        self.ring = Some(ring);
        let evs = simk::drain_events();
        let entered = evs.iter().find_map(|e| match e {
            KEv::Enter { to_submit, .. } => Some(*to_submit),
            _ => None,
        });
        let mut out = Vec::new();
        match entered {
            Some(n) => out.push(format!("enter submit={n}")),
            None => out.push("noenter".into()),
        }
        if r.is_err() {
            out.push("panic".into());
        }
        util::drain_wakes();
        // every completion in the queue has been processed
        for o in self.ops.iter_mut() {
            for p in o.pending.iter_mut() {
                p.processed = true;
            }
        }
        // operations dropped while in flight whose final completion arrived: their state
        // (and the ReadBuf in it) is gone
        for i in 0..self.ops.len() {
            if self.ops[i].fut.is_none() && self.ops[i].has_rb && self.ops[i].user_data.is_none() {
                let j = self.ops[i].rb;
                self.ops[i].has_rb = false;
                self.rbs[j] = RbSlot::Gone;
                self.unhold(j);
            }
        }
        out.extend(self.pub_lines(old_tail));
        out
    }

    fn do_edit(&mut self, j: usize, t: &[&str]) -> Vec<String> {
        let bs = self.bs;
        let fill = self.next_fill();
        let RbSlot::Live(b) = &mut self.rbs[j] else { return vec!["bad-op".into()] };
        let r: Result<Result<(), ()>, String> = match t {
            ["truncate", n] => {
                let Some(n) = parse_nat(n) else { return vec!["bad-op".into()] };
                util::catch(|| { b.truncate(n); Ok(()) })
            }
            ["clear"] => util::catch(|| { b.clear(); Ok(()) }),
            ["setlen", n] => {
                let Some(n) = parse_nat(n) else { return vec!["bad-op".into()] };
                util::catch(|| { unsafe { b.set_len(n) }; Ok(()) })
            }
            ["extend", k] => {
                let Some(k) = parse_nat(k) else { return vec!["bad-op".into()] };
                if k > 2 * bs + 8 {
                    return vec!["bad-op".into()];
                }
                let d = vec![fill; k];
                util::catch(|| b.extend_from_slice(&d))
            }
            ["remove", a, c] => {
                let (Some(a), Some(c)) = (parse_nat(a), parse_nat(c)) else { return vec!["bad-op".into()] };
                util::catch(|| { b.remove(a..c); Ok(()) })
            }
            _ => return vec!["bad-op".into()],
        };
        self.feats.push("edit".into());
        self.resnap(j);
        match r {
            Err(_) => vec!["panic".into()],
            Ok(Err(())) => vec!["err".into()],
            Ok(Ok(())) => vec![format!("ok {}", self.show_off(j))],
        }
    }

    fn do_release(&mut self, j: usize, drop_it: bool) -> Vec<String> {
        self.do_release_how(j, drop_it, false)
    }

    /// `unwinding`: the `ReadBuf` is a local of a frame that panics — its `Drop` runs while the
    /// thread is unwinding (`std::thread::panicking()`), the panic is caught further up.
    fn do_release_how(&mut self, j: usize, drop_it: bool, unwinding: bool) -> Vec<String> {
        let old_tail = self.tail();
        if drop_it && unwinding {
            self.feats.push("readbuf-dropped-while-unwinding".into());
            let s = std::mem::replace(&mut self.rbs[j], RbSlot::Gone);
            let _ = util::catch(move || {
                let _held = s_into(s);
                panic!("a panic with a ReadBuf alive in the frame");
            });
        } else if drop_it {
            let s = std::mem::replace(&mut self.rbs[j], RbSlot::Gone);
            let _ = util::catch(move || drop(s_into(s)));
        } else if let RbSlot::Live(b) = &mut self.rbs[j] {
            let _ = util::catch(|| b.release());
        }
        self.unhold(j);
        let l = self.pub_lines(old_tail);
        if l.is_empty() { vec!["-".into()] } else { l }
    }

    fn do_prel(&mut self, js: &[usize]) -> Vec<String> {
        let old_tail = self.tail();
        // a spin barrier: the threads leave it within nanoseconds of each other
        let barrier = Arc::new(std::sync::atomic::AtomicUsize::new(0));
        let n_threads = js.len();
        let mut handles = Vec::new();
        for j in js {
            let s = std::mem::replace(&mut self.rbs[*j], RbSlot::Gone);
            self.unhold(*j);
            let b = s_into(s);
            let bar = barrier.clone();
            handles.push(std::thread::spawn(move || {
                bar.fetch_add(1, std::sync::atomic::Ordering::SeqCst);
                while bar.load(std::sync::atomic::Ordering::SeqCst) < n_threads {
                    std::hint::spin_loop();
                }
                drop(b);
            }));
        }
        for h in handles {
            let _ = h.join();
        }
        let new_tail = self.tail();
        let n = new_tail.wrapping_sub(old_tail);
        let mut order = Vec::new();
        for k in 0..n {
            let slot = (old_tail.wrapping_add(k) as usize) & (self.ps - 1);
            order.push(self.entry_at(slot).2);
        }
        if n >= 2 {
            self.feats.push("concurrent-release".into());
        }
        self.pending_order = Some(order);
        // the entries are reported by the `order` op that follows
        vec![format!("prel n={n}")]
    }

    fn do_order(&mut self, bids: &[usize]) -> Vec<String> {
        let Some(actual) = self.pending_order.clone() else { return vec!["bad-op".into()] };
        let mut a: Vec<usize> = actual.iter().map(|b| *b as usize).collect();
        let mut b: Vec<usize> = bids.to_vec();
        a.sort();
        b.sort();
        if a != b {
            return vec!["bad-op".into()];
        }
        self.pending_order = None;
        let n = actual.len() as u16;
        let old_tail = self.tail().wrapping_sub(n);
        if actual.iter().map(|b| *b as usize).ne(bids.iter().copied()) {
            // A replay under a different thread schedule: the threads went through the
            // lock in another order. Put the (published, unconsumed) entries in the
            // recorded order so the rest of the script means the same.
            simk::with_ring(self.rfd, |r, _| {
                let p = r.pbufs.get(&self.bgid).unwrap();
                for (k, bid) in bids.iter().enumerate() {
                    let slot = (old_tail.wrapping_add(k as u16) as usize) & (self.ps - 1);
                    let e = (p.ring_addr + slot * 16) as *mut (u64, u32, u16, u16);
                    unsafe {
                        (*e).0 = (self.base + bid * self.bs) as u64;
                        (*e).2 = *bid as u16;
                    }
                }
            });
            self.feats.push("order-rewritten".into());
        }
        let l = self.pub_lines(old_tail);
        if l.is_empty() { vec!["-".into()] } else { l }
    }

    fn do_cycle(&mut self, n: usize) -> Vec<String> {
        let idle = simk::with_ring(self.rfd, |r, _| r.cq_count() == 0 && r.sq_pending() == 0);
        if !idle {
            return vec!["bad-op".into()];
        }
        let fd = self.fd.unwrap();
        let waker = util::waker(9999);
        let mut cx = Context::from_waker(&waker);
        let (mut ok, mut nobufs, mut last) = (0u64, 0u64, 0usize);
        let tail0 = self.tail();
        for _ in 0..n {
            use std::future::Future;
            let buf = self.pool.as_ref().unwrap().get();
            let mut fut = Box::pin(fd.read(buf));
            if !matches!(fut.as_mut().poll(&mut cx), Poll::Pending) {
                self.fail("cycle", "a fresh pool read completed without the kernel".into());
                break;
            }
            let ud = simk::with_ring(self.rfd, |r, _| r.sqe_at(r.sq_tail().wrapping_sub(1)).user_data);
            let spec = PostSpec { target: Target::UserData(ud), res: 1, flags: 0, data: Some(vec![0xEE]), select_buf: true };
            simk::with_ring(self.rfd, |r, _| {
                r.enter_scripts.push_back(simk::EnterScript { post: vec![spec], ..Default::default() })
            });
            let mut ring = self.ring.take().unwrap();
            let _ = ring.poll(Some(Duration::ZERO));
            self.ring = Some(ring);
            simk::with_sim(|s| s.events.clear());
            match fut.as_mut().poll(&mut cx) {
                Poll::Ready(Ok(b)) => {
                    ok += 1;
                    if let Some(off) = self.own_off(&b) {
                        last = off / self.bs;
                    }
                    drop(b);
                }
                Poll::Ready(Err(e)) if e.raw_os_error() == Some(libc::ENOBUFS) => nobufs += 1,
                Poll::Ready(Err(e)) => {
                    self.fail("cycle", format!("pool read failed with {e}"));
                    break;
                }
                Poll::Pending => {
                    self.fail("cycle", "pool read still pending after its completion was processed".into());
                    break;
                }
            }
        }
        util::drain_wakes();
        self.releases += ok;
        self.delivered += ok.min(1) as u32;
        let tail1 = self.tail();
        if (tail0 as u64 + ok) >= 65536 {
            self.wrapped = true;
        }
        if ok >= 65536 {
            self.feats.push("cycle>=2^16".into());
        }
        vec![format!("cycled ok={ok} enobufs={nobufs} tail={tail1} last={last}")]
    }

    /// A fresh `ReadBuf` of this pool used for a read on a descriptor of a SECOND ring that has
    /// its own pool of the same shape. Group ids are process-wide unique, so the second ring's
    /// kernel knows no group with this pool's id: ENOBUFS. If it does select a buffer (of the
    /// OTHER pool), the `ReadBuf` takes the returned id for a buffer of its own pool: two owners.
    fn do_xring(&mut self) -> Vec<String> {
        if self.ps * self.bs > (8 << 20) {
            return vec!["bad-op".into()];
        }
        self.feats.push("cross-ring-read".into());
        simk::purge_closed_except(self.rfd);
        let held_main = simk::hold_fd(self.rfd);
        let before: Vec<i32> = simk::with_sim(|s| s.rings.keys().copied().collect());
        let built_b = Ring::config().with_submission_queue_size(8).build();
        if held_main {
            simk::release_fd(self.rfd);
        }
        let mut ring_b = match built_b {
            Ok(r) => r,
            Err(e) => return vec![format!("xring setup-failed {e}")],
        };
        let sq_b = ring_b.sq();
        let rfd_b = simk::with_sim(|s| s.rings.keys().copied().find(|k| !before.contains(k)).unwrap());
        let raw_b = simk::with_ring(rfd_b, |r, _| r.fresh_fd());
        let fd_b = unsafe { AsyncFd::from_raw_fd(raw_b, sq_b.clone()) };
        let pool_b = match ReadBufPool::new(sq_b.clone(), self.ps as u16, self.bs as u32) {
            Ok(p) => p,
            Err(e) => return vec![format!("xring pool-failed {e}")],
        };
        let bgid_b = simk::with_ring(rfd_b, |r, _| r.pbufs.keys().next().copied());
        let rb = self.pool.as_ref().unwrap().get();
        let marker: Vec<u8> = (0..self.bs.min(8)).map(|i| 0xC0 | i as u8).collect();
        let line;
        {
            use std::future::Future;
            let mut fut = Box::pin(fd_b.read(rb));
            let waker = util::waker(999);
            let mut cx = Context::from_waker(&waker);
            let first = util::catch(|| fut.as_mut().poll(&mut cx));
            let _ = ring_b.poll(Some(Duration::ZERO));
            let ud = simk::with_ring(rfd_b, |r, _| r.inflight.iter().find(|x| x.sqe.opcode == simk::OP_READ).map(|x| x.sqe.user_data));
            if let Some(ud) = ud {
                let mut spec = PostSpec::new(Target::UserData(ud), marker.len() as i32, 0);
                spec.data = Some(marker.clone());
                spec.select_buf = true;
                simk::with_ring(rfd_b, |r, ev| r.post(&spec, ev));
            }
            let _ = ring_b.poll(Some(Duration::ZERO));
            let second = match first {
                Ok(Poll::Pending) => util::catch(|| fut.as_mut().poll(&mut cx)),
                other => other,
            };
            line = match second {
                Err(_) => "xring panic".to_string(),
                Ok(Poll::Pending) => "xring pending".to_string(),
                Ok(Poll::Ready(Err(e))) => format!("xring err {}", util::errno_name(e.raw_os_error().unwrap_or(0))),
                Ok(Poll::Ready(Ok(b))) => {
                    let bytes: &[u8] = &b;
                    let off = (bytes.as_ptr() as usize).wrapping_sub(self.base);
                    let inside_own = off < self.ps * self.bs;
                    let what = format!(
                        "a read on a descriptor of a second ring with a ReadBuf of this pool (group {}) was served from the second ring's pool (group {:?}); the ReadBuf now claims {} bytes at offset {off} of {} ({}the bytes the kernel delivered)",
                        self.bgid,
                        bgid_b,
                        bytes.len(),
                        if inside_own { "this pool's memory, a buffer that is still offered to this ring's kernel" } else { "foreign memory" },
                        if bytes == &marker[..] { "" } else { "NOT " }
                    );
                    self.fail("double-owner", what);
                    let l = format!("xring ok len={}", bytes.len());
                    std::mem::forget(b); // releasing it would corrupt this pool's ring
                    l
                }
            };
        }
        drop(pool_b);
        // not dropped: its CLOSE would go through the second ring's teardown, which this component's
        // event bookkeeping does not follow; the descriptor itself is closed by hand
        std::mem::forget(fd_b);
        unsafe { libc::close(raw_b) };
        drop(sq_b);
        drop(ring_b);
        let _ = util::drain_wakes();
        let _ = simk::drain_events();
        vec![line]
    }

    /// A `ReadBuf` that outlives every handle of its pool (second ring, pool of two buffers): after
    /// the pool handle is dropped the `ReadBuf` is the last user of the shared pool state; `release`
    /// must still give its buffer back (the kernel can use both buffers again) and the `ReadBuf` can
    /// be used for another read.
    fn do_lone(&mut self) -> Vec<String> {
        if self.ps * self.bs > (8 << 20) {
            return vec!["bad-op".into()];
        }
        self.feats.push("readbuf-outlives-pool-handle".into());
        simk::purge_closed_except(self.rfd);
        let held_main = simk::hold_fd(self.rfd);
        let before: Vec<i32> = simk::with_sim(|s| s.rings.keys().copied().collect());
        let built_b = Ring::config().with_submission_queue_size(8).build();
        if held_main {
            simk::release_fd(self.rfd);
        }
        let mut ring_b = match built_b {
            Ok(r) => r,
            Err(e) => return vec![format!("lone setup-failed {e}")],
        };
        let sq_b = ring_b.sq();
        let rfd_b = simk::with_sim(|s| s.rings.keys().copied().find(|k| !before.contains(k)).unwrap());
        let raw_b = simk::with_ring(rfd_b, |r, _| r.fresh_fd());
        let fd_b = unsafe { AsyncFd::from_raw_fd(raw_b, sq_b.clone()) };
        let pool_b = match ReadBufPool::new(sq_b.clone(), 2, 8) {
            Ok(p) => p,
            Err(e) => return vec![format!("lone pool-failed {e}")],
        };
        let bgid_b = simk::with_ring(rfd_b, |r, _| r.pbufs.keys().next().copied()).unwrap_or(0);
        let waker = util::waker(997);
        let mut cx = Context::from_waker(&waker);
        // one read through the second ring with `buf`; returns the buffer or an errno name
        let mut read = |ring_b: &mut Ring, buf: ReadBuf| -> Result<ReadBuf, String> {
            use std::future::Future;
            let mut fut = Box::pin(fd_b.read(buf));
            let first = util::catch(|| fut.as_mut().poll(&mut cx));
            let _ = ring_b.poll(Some(Duration::ZERO));
            let ud = simk::with_ring(rfd_b, |r, _| r.inflight.iter().find(|x| x.sqe.opcode == simk::OP_READ).map(|x| x.sqe.user_data));
            if let Some(ud) = ud {
                let mut spec = PostSpec::new(Target::UserData(ud), 3, 0);
                spec.data = Some(vec![7, 8, 9]);
                simk::with_ring(rfd_b, |r, ev| r.post(&spec, ev));
            }
            let _ = ring_b.poll(Some(Duration::ZERO));
            let second = match first {
                Ok(Poll::Pending) => util::catch(|| fut.as_mut().poll(&mut cx)),
                other => other,
            };
            match second {
                Err(_) => Err("panic".into()),
                Ok(Poll::Pending) => Err("pending".into()),
                Ok(Poll::Ready(Err(e))) => Err(util::errno_name(e.raw_os_error().unwrap_or(0))),
                Ok(Poll::Ready(Ok(b))) => Ok(b),
            }
        };
        let line = match read(&mut ring_b, pool_b.get()) {
            Err(e) => format!("lone first-read {e}"),
            Ok(mut rb) => {
                drop(pool_b); // `rb` is now the only user of the pool
                let _ = util::catch(|| rb.release());
                let avail = simk::with_ring(rfd_b, |r, _| r.available_buffers(bgid_b).len());
                if avail != 2 {
                    self.fail("not-returned", format!("a ReadBuf that outlived every handle of its pool was released, but the kernel is offered {avail} of the 2 buffers: the buffer it held was not given back"));
                }
                let reuse = match read(&mut ring_b, rb) {
                    Ok(b) => {
                        drop(b);
                        "ok".to_string()
                    }
                    Err(e) => format!("err {e}"),
                };
                format!("lone avail={avail} reuse={reuse}")
            }
        };
        std::mem::forget(fd_b);
        unsafe { libc::close(raw_b) };
        drop(sq_b);
        drop(ring_b);
        let _ = util::drain_wakes();
        let _ = simk::drain_events();
        vec![line]
    }

    /// `pool idwrap`: a ring of its own with a pool A (2 buffers) that stays alive while pools
    /// are created and dropped on that ring until one creation fails: the process-wide 16-bit
    /// group id counter has come round to A's id and the kernel answers EEXIST. A must still be
    /// registered and usable afterwards. Observed: how many creations succeeded, the error, whether
    /// A's group is still registered, and a read through A.
    fn do_idwrap(&mut self) -> Vec<String> {
        use std::future::Future;
        if self.ps * self.bs > (8 << 20) {
            return vec!["bad-op".into()];
        }
        self.feats.push("group-id-counter-wraps".into());
        simk::purge_closed_except(self.rfd);
        let held_main = simk::hold_fd(self.rfd);
        let before: Vec<i32> = simk::with_sim(|s| s.rings.keys().copied().collect());
        let built_b = Ring::config().with_submission_queue_size(8).build();
        if held_main {
            simk::release_fd(self.rfd);
        }
        let mut ring_b = match built_b {
            Ok(r) => r,
            Err(e) => return vec![format!("idwrap setup-failed {e}")],
        };
        let sq_b = ring_b.sq();
        let rfd_b = simk::with_sim(|s| s.rings.keys().copied().find(|k| !before.contains(k)).unwrap());
        let raw_b = simk::with_ring(rfd_b, |r, _| r.fresh_fd());
        let fd_b = unsafe { AsyncFd::from_raw_fd(raw_b, sq_b.clone()) };
        let pool_a = match ReadBufPool::new(sq_b.clone(), 2, 8) {
            Ok(p) => p,
            Err(e) => return vec![format!("idwrap pool-failed {e}")],
        };
        let bgid_a = simk::with_ring(rfd_b, |r, _| r.pbufs.keys().next().copied()).unwrap_or(0);
        let mut created = 0u32;
        let mut errno = None;
        for _ in 0..(65536 + 8) {
            match ReadBufPool::new(sq_b.clone(), 1, 8) {
                Ok(p) => {
                    created += 1;
                    drop(p);
                }
                Err(e) => {
                    errno = Some(util::errno_name(e.raw_os_error().unwrap_or(0)));
                    break;
                }
            }
            // (the events of 65535 register/unregister pairs are of no interest)
            if created % 4096 == 0 {
                let _ = simk::drain_events();
            }
        }
        let _ = simk::drain_events();
        let live = simk::with_ring(rfd_b, |r, _| r.pbufs.contains_key(&bgid_a));
        if !live {
            self.fail("live-pool-unregistered", format!("a pool creation that the kernel refused with {} (group id {bgid_a} taken) unregistered the LIVE pool that owns that id: the kernel can no longer select its buffers", errno.clone().unwrap_or_default()));
        }
        // a read through A
        let waker = util::waker(996);
        let mut cx = Context::from_waker(&waker);
        let mut fut = Box::pin(fd_b.read(pool_a.get()));
        let first = util::catch(|| fut.as_mut().poll(&mut cx));
        let _ = ring_b.poll(Some(Duration::ZERO));
        let ud = simk::with_ring(rfd_b, |r, _| r.inflight.iter().find(|x| x.sqe.opcode == simk::OP_READ).map(|x| x.sqe.user_data));
        if let Some(ud) = ud {
            let mut spec = PostSpec::new(Target::UserData(ud), 3, 0);
            spec.data = Some(vec![7, 8, 9]);
            simk::with_ring(rfd_b, |r, ev| r.post(&spec, ev));
        }
        let _ = ring_b.poll(Some(Duration::ZERO));
        let second = match first {
            Ok(Poll::Pending) => util::catch(|| fut.as_mut().poll(&mut cx)),
            other => other,
        };
        let read = match second {
            Err(_) => "panic".to_string(),
            Ok(Poll::Pending) => "pending".to_string(),
            Ok(Poll::Ready(Err(e))) => format!("err:{}", util::errno_name(e.raw_os_error().unwrap_or(0))),
            Ok(Poll::Ready(Ok(b))) => {
                let ok = b.as_ref() == [7u8, 8, 9];
                drop(b);
                if ok { "ok".to_string() } else { "wrong-bytes".to_string() }
            }
        };
        if read != "ok" && live {
            self.fail("live-pool-unusable", format!("after a refused pool creation a read through the live pool answered {read}"));
        }
        drop(fut);
        drop(pool_a);
        std::mem::forget(fd_b);
        unsafe { libc::close(raw_b) };
        drop(sq_b);
        drop(ring_b);
        let _ = util::drain_wakes();
        let _ = simk::drain_events();
        vec![format!(
            "idwrap created={created} collided={} errno={} live={} read={read}",
            u8::from(errno.is_some()),
            errno.unwrap_or_else(|| "-".into()),
            u8::from(live)
        )]
    }

    /// `pool resv`: a ring and a pool (2 buffers) of their own. Both buffers are handed out (the
    /// kernel's head and the tail are 2: the next ring slot is slot 0, whose `resv` field IS the
    /// tail word), then one `ReadBuf` is released on a scheduled thread that is parked between
    /// writing its ring entry and storing the tail. Nothing is published at that moment: a kernel
    /// that selects buffers now (it only compares tail and head for inequality — probed on the real
    /// kernel, `a10h kc`) must find the ring empty. Observed: the buffer ids it is handed.
    fn do_resv(&mut self) -> Vec<String> {
        if self.ps * self.bs > (8 << 20) {
            return vec!["bad-op".into()];
        }
        self.feats.push("release-parked-before-tail-store".into());
        simk::purge_closed_except(self.rfd);
        let held_main = simk::hold_fd(self.rfd);
        let before: Vec<i32> = simk::with_sim(|s| s.rings.keys().copied().collect());
        let built_b = Ring::config().with_submission_queue_size(8).build();
        if held_main {
            simk::release_fd(self.rfd);
        }
        let mut ring_b = match built_b {
            Ok(r) => r,
            Err(e) => return vec![format!("resv setup-failed {e}")],
        };
        let sq_b = ring_b.sq();
        let rfd_b = simk::with_sim(|s| s.rings.keys().copied().find(|k| !before.contains(k)).unwrap());
        let raw_b = simk::with_ring(rfd_b, |r, _| r.fresh_fd());
        let fd_b = unsafe { AsyncFd::from_raw_fd(raw_b, sq_b.clone()) };
        let pool_b = match ReadBufPool::new(sq_b.clone(), 2, 8) {
            Ok(p) => p,
            Err(e) => return vec![format!("resv pool-failed {e}")],
        };
        let bgid_b = simk::with_ring(rfd_b, |r, _| r.pbufs.keys().next().copied()).unwrap_or(0);
        let waker = util::waker(996);
        let mut cx = Context::from_waker(&waker);
        let mut read = |ring_b: &mut Ring, buf: ReadBuf| -> Result<ReadBuf, String> {
            use std::future::Future;
            let mut fut = Box::pin(fd_b.read(buf));
            let first = util::catch(|| fut.as_mut().poll(&mut cx));
            let _ = ring_b.poll(Some(Duration::ZERO));
            let ud = simk::with_ring(rfd_b, |r, _| r.inflight.iter().find(|x| x.sqe.opcode == simk::OP_READ).map(|x| x.sqe.user_data));
            if let Some(ud) = ud {
                let mut spec = PostSpec::new(Target::UserData(ud), 3, 0);
                spec.data = Some(vec![7, 8, 9]);
                spec.select_buf = true;
                simk::with_ring(rfd_b, |r, ev| r.post(&spec, ev));
            }
            let _ = ring_b.poll(Some(Duration::ZERO));
            let second = match first {
                Ok(Poll::Pending) => util::catch(|| fut.as_mut().poll(&mut cx)),
                other => other,
            };
            match second {
                Err(_) => Err("panic".into()),
                Ok(Poll::Pending) => Err("pending".into()),
                Ok(Poll::Ready(Err(e))) => Err(util::errno_name(e.raw_os_error().unwrap_or(0))),
                Ok(Poll::Ready(Ok(b))) => Ok(b),
            }
        };
        let line = match (read(&mut ring_b, pool_b.get()), read(&mut ring_b, pool_b.get())) {
            (Ok(a), Ok(b)) => {
                // release `a` on a scheduled thread, parked right before its tail store
                crate::sched::install();
                let tid = crate::sched::spawn(move || {
                    drop(a);
                    String::new()
                });
                let mut parked = false;
                for _ in 0..64 {
                    match crate::sched::status(tid) {
                        Some(crate::sched::Status::Parked(kind, _)) if kind == crate::sched::STORE_BUF_TAIL => {
                            parked = true;
                            break;
                        }
                        Some(crate::sched::Status::Done(_)) => break,
                        _ => {
                            crate::sched::step(tid);
                        }
                    }
                }
                let mut selected: Vec<u16> = Vec::new();
                if parked {
                    simk::with_ring(rfd_b, |r, _| {
                        for _ in 0..2 {
                            if let Some((bid, _, _)) = r.select_buffer(bgid_b) {
                                selected.push(bid);
                            }
                        }
                    });
                }
                let _ = crate::sched::finish_all();
                crate::sched::uninstall();
                if !selected.is_empty() {
                    self.fail("tail-overlay", format!("a ReadBuf was being released (ring entry written, tail not yet stored — the thread can be preempted there): the kernel found the tail word changed and was handed buffer(s) {selected:?} although nothing was published; the other ReadBuf (still alive) and the one being released own them"));
                }
                drop(b);
                format!("resv parked={} selected={}", u8::from(parked), if selected.is_empty() { "-".to_string() } else { selected.iter().map(|b| b.to_string()).collect::<Vec<_>>().join(",") })
            }
            (a, b) => format!("resv reads-failed {:?} {:?}", a.err(), b.err()),
        };
        drop(pool_b);
        std::mem::forget(fd_b);
        unsafe { libc::close(raw_b) };
        drop(sq_b);
        drop(ring_b);
        let _ = util::drain_wakes();
        let _ = simk::drain_events();
        vec![line]
    }

    fn do_end(&mut self) -> Vec<String> {
        for i in 0..self.ops.len() {
            if self.ops[i].fut.is_some() {
                self.do_drop(i);
            }
        }
        // the first call may find completions and not enter; the second one submits
        self.do_rpoll();
        self.do_rpoll();
        // the kernel finishes what is still in flight
        let uds: Vec<u64> = simk::with_ring(self.rfd, |r, _| r.inflight.iter().map(|x| x.sqe.user_data).collect());
        for ud in uds {
            let spec = PostSpec::new(Target::UserData(ud), -libc::ECANCELED, 0);
            simk::with_ring(self.rfd, |r, ev| r.post(&spec, ev));
        }
        for o in self.ops.iter_mut() {
            o.user_data = None;
        }
        self.do_rpoll();
        for j in 0..self.rbs.len() {
            if matches!(self.rbs[j], RbSlot::Live(_)) {
                self.do_release(j, true);
            }
        }
        self.ended = true;
        let avail: Vec<usize> = self.kview().iter().map(|e| e.0 as usize).collect();
        let mut seen = vec![false; self.ps];
        for b in &avail {
            if *b < self.ps {
                seen[*b] = true;
            }
        }
        let missing: Vec<usize> = (0..self.ps).filter(|b| !seen[*b]).collect();
        let shown: Vec<usize> = missing.iter().copied().take(64).collect();
        vec![self.show_ring(), format!("missing={} n={}", list(&shown), missing.len())]
    }

    fn live_handles(&self) -> Vec<usize> {
        (0..self.rbs.len()).filter(|j| matches!(self.rbs[*j], RbSlot::Live(_))).collect()
    }

    fn owning_handles(&self) -> Vec<usize> {
        self.live_handles().into_iter().filter(|j| self.held.iter().any(|h| h.handle == *j)).collect()
    }
}

fn s_into(s: RbSlot) -> Option<ReadBuf> {
    match s {
        RbSlot::Live(b) => Some(b),
        _ => None,
    }
}

impl PoolCase {
    /// A plausible completion for the in-flight operation `i`.
    fn gen_kpost(&self, rng: &mut Rng, i: usize) -> String {
                let o = &self.ops[i];
                if o.select {
                    let bs = (self.bs as u64).min(1 << 12);
                    match rng.weighted(&[20, 2, 2, 4, 1]) {
                        0 => {
                            let n = if rng.chance(1, 4) { bs } else { rng.range(1, bs) };
                            let more = o.multi && rng.chance(4, 5);
                            format!("pool kpost {i} {n} {} 1", more as u8)
                        }
                        1 => format!("pool kpost {i} 0 0 1"),
                        2 => format!("pool kpost {i} 0 0 0"),
                        3 => format!("pool kpost {i} -{} 0 0", rng.pick(&[libc::ECANCELED, libc::EINTR, libc::EIO, libc::ENOBUFS, libc::ECONNRESET])),
                        // a failed completion that still consumed a buffer (READ on kernels < 6.10)
                        _ => format!("pool kpost {i} -{} 0 1", rng.pick(&[libc::EIO, libc::EINTR, libc::ECANCELED])),
                    }
                } else {
                    let spare = o.target.1 as u64;
                    match rng.weighted(&[8, 1, 2]) {
                        0 if spare > 0 => format!("pool kpost {i} {} 0 0", rng.range(1, spare.min(1 << 12))),
                        2 => format!("pool kpost {i} -{} 0 0", rng.pick(&[libc::ECANCELED, libc::EINTR, libc::EIO])),
                        _ => format!("pool kpost {i} 0 0 0"),
                    }
                }
    }

    /// The next step that moves some live operation forward.
    fn progress_op(&self, rng: &mut Rng) -> Option<String> {
        let mut cands: Vec<String> = Vec::new();
        for i in 0..self.ops.len() {
            let o = &self.ops[i];
            if o.fut.is_none() || o.finished {
                continue;
            }
            if o.pending.iter().any(|p| p.processed) {
                cands.push(format!("pool poll {i}"));
            } else if o.pending.iter().any(|p| !p.processed) && !(o.multi && self.in_flight(i) && rng.chance(1, 2)) {
                cands.push("pool rpoll".into());
            } else if self.in_flight(i) {
                cands.push(self.gen_kpost(rng, i));
            } else if o.user_data.is_some() {
                // published, not consumed yet
                cands.push("pool rpoll".into());
            } else {
                cands.push(format!("pool poll {i}"));
            }
        }
        if cands.is_empty() { None } else { Some(rng.pick(&cands).clone()) }
    }
}

impl Case for PoolCase {
    fn next_op(&mut self, rng: &mut Rng) -> Option<String> {
        if !self.alive() || self.ended || self.broken {
            return None;
        }
        if let Some(order) = &self.pending_order {
            return Some(format!("pool order {}", list(order)));
        }
        if self.steps_left == 0 {
            return Some("pool end".into());
        }
        self.steps_left -= 1;
        if !self.started {
            self.started = true;
            return Some("pool ring".into());
        }
        if self.big_cycle > 0 {
            // one case in a while: more than 2^16 releases
            let n = self.big_cycle;
            self.big_cycle = 0;
            return Some(format!("pool cycle {n}"));
        }
        if rng.chance(2, 5) {
            if let Some(op) = self.progress_op(rng) {
                return Some(op);
            }
        }
        let live_futs: Vec<usize> = (0..self.ops.len()).filter(|i| self.ops[*i].fut.is_some()).collect();
        let inflight: Vec<usize> = (0..self.ops.len()).filter(|i| self.in_flight(*i)).collect();
        let live = self.live_handles();
        let owning = self.owning_handles();
        let unowned: Vec<usize> = live.iter().copied().filter(|j| !owning.contains(j)).collect();
        let can_new = self.ops.len() < 10;
        let (cq_n, sq_n) = simk::with_ring(self.rfd, |r, _| (r.cq_count(), r.sq_pending()));
        let idle = cq_n == 0 && sq_n == 0;
        let live_multi = live_futs.iter().filter(|i| self.ops[**i].multi).count();
        let w = [
            if self.rbs.len() >= 40 { 0 } else if unowned.is_empty() { 4 } else if unowned.len() < 2 { 1 } else { 0 }, // 0 get
            if !can_new || live.is_empty() { 0 } else if live_futs.len() < 3 { 5 } else { 1 }, // 1 new single
            if !can_new { 0 } else if live_multi == 0 { 3 } else { 1 },                    // 2 new multi
            if live_futs.iter().all(|i| self.ops[*i].finished) { 0 } else { 9 },           // 3 poll
            if live_futs.is_empty() { 0 } else if live_futs.iter().any(|i| self.ops[*i].finished) { 4 } else { 2 }, // 4 drop
            if inflight.is_empty() { 0 } else { 12 },                                      // 5 kpost
            if idle { 3 } else { 9 },                                                      // 6 rpoll
            if live.is_empty() { 0 } else { 3 },                                           // 7 edit
            if live.is_empty() { 0 } else { 2 },                                           // 8 release
            if live.is_empty() { 0 } else { 2 },                                           // 9 rbdrop
            if owning.is_empty() { 0 } else if owning.len() >= 2 { 5 } else { 2 },         // 10 prel
            if idle { 1 } else { 0 },                                                      // 11 cycle
            if rng.chance(1, 2) { 1 } else { 0 },                                          // 12 ring
            if rng.chance(1, 12) { 2 } else { 0 },                                         // 13 malformed
            if self.ps * self.bs <= (8 << 20) && rng.chance(1, 10) { 2 } else { 0 },         // 14 xring
            if self.ps * self.bs <= (8 << 20) && rng.chance(1, 12) { 2 } else { 0 },         // 15 lone
            if self.ps * self.bs <= (8 << 20) && rng.chance(1, 12) { 2 } else { 0 },         // 16 resv
        ];
        Some(match rng.weighted(&w) {
            0 => "pool get".into(),
            1 => {
                let kind = *rng.pick(&["read", "recv", "recvfrom"]);
                // prefer fresh buffers, sometimes one that already owns a slot
                let j = if !unowned.is_empty() && rng.chance(2, 3) { *rng.pick(&unowned) } else { *rng.pick(&live) };
                format!("pool new {} {kind} {j}", self.ops.len())
            }
            2 => format!("pool new {} {}", self.ops.len(), rng.pick(&["mread", "mrecv"])),
            3 => {
                let unfinished: Vec<usize> = live_futs.iter().copied().filter(|i| !self.ops[*i].finished).collect();
                if !unfinished.is_empty() && rng.chance(19, 20) { format!("pool poll {}", rng.pick(&unfinished)) } else { format!("pool poll {}", rng.pick(&live_futs)) }
            }
            4 => {
                // finished futures first: they only take up slots
                let fin: Vec<usize> = live_futs.iter().copied().filter(|i| self.ops[*i].finished).collect();
                if !fin.is_empty() && rng.chance(1, 2) { format!("pool drop {}", rng.pick(&fin)) } else { format!("pool drop {}", rng.pick(&live_futs)) }
            }
            5 => {
                let i = *rng.pick(&inflight);
                self.gen_kpost(rng, i)
            }
            6 => "pool rpoll".into(),
            7 => {
                let j = *rng.pick(&live);
                let bs = (self.bs as u64).min(1 << 12);
                match rng.below(6) {
                    0 => format!("pool edit {j} truncate {}", rng.below(bs + 2)),
                    1 => format!("pool edit {j} clear"),
                    2 => format!("pool edit {j} setlen {}", rng.below(bs + 1)),
                    3 => format!("pool edit {j} extend {}", rng.below(bs + 2)),
                    4 => {
                        let a = rng.below(bs + 1);
                        let b = a + rng.below(bs + 1 - a.min(bs));
                        format!("pool edit {j} remove {a} {b}")
                    }
                    _ => format!("pool edit {j} remove {} {}", rng.below(bs + 2), rng.below(bs + 2)),
                }
            }
            8 => format!("pool release {}", if !owning.is_empty() && rng.chance(4, 5) { *rng.pick(&owning) } else { *rng.pick(&live) }),
            9 => format!("pool {} {}", if rng.chance(1, 4) { "rbdropp" } else { "rbdrop" }, if !owning.is_empty() && rng.chance(4, 5) { *rng.pick(&owning) } else { *rng.pick(&live) }),
            10 => {
                // 1-3 distinct handles, mostly owning ones
                let k = rng.range(1, 3) as usize;
                let mut js: Vec<usize> = Vec::new();
                for _ in 0..k {
                    let j = if rng.chance(5, 6) { *rng.pick(&owning) } else { *rng.pick(&live) };
                    if !js.contains(&j) {
                        js.push(j);
                    }
                }
                format!("pool prel {}", list(&js))
            }
            11 => format!("pool cycle {}", if rng.chance(1, 3) { rng.range(1, (3 * self.ps as u64 + 3).min(150)) } else { rng.range(1, 6) }),
            12 => "pool ring".into(),
            14 => "pool xring".into(),
            15 if rng.chance(1, 24) => "pool idwrap".into(),
            15 => "pool lone".into(),
            16 => "pool resv".into(),
            _ => {
                // malformed stream
                let i = rng.below(self.ops.len() as u64 + 2);
                let j = rng.below(self.rbs.len() as u64 + 2);
                match rng.below(9) {
                    0 => format!("pool poll {i}"),
                    1 => format!("pool drop {i}"),
                    2 => format!("pool kpost {i} 1 0 1"),
                    3 => format!("pool kpost {i} {} 0 1", self.bs + 1),
                    4 => format!("pool edit {j} clear"),
                    5 => format!("pool release {j}"),
                    6 => format!("pool new {} read {j}", self.ops.len()),
                    7 => "pool order 0".into(),
                    _ => format!("pool kpost {i} 1 1 0"),
                }
            }
        })
    }

    fn exec(&mut self, op: &str) -> Vec<String> {
        let t: Vec<&str> = op.split(' ').collect();
        if !self.alive() {
            return vec!["bad-op".into()];
        }
        if self.pending_order.is_some() && !(t.len() >= 2 && t[1] == "order") {
            return vec!["bad-op".into()];
        }
        let out = match t.as_slice() {
            ["pool", "get"] => {
                let b = self.pool.as_ref().unwrap().get();
                self.rbs.push(RbSlot::Live(b));
                vec![format!("rb{}", self.rbs.len() - 1)]
            }
            ["pool", "new", i, kind] | ["pool", "new", i, kind, _] => {
                let Some(i) = parse_nat(i) else { return vec!["bad-op".into()] };
                let Some(kind) = KINDS.iter().find(|k| *k == kind).copied() else { return vec!["bad-op".into()] };
                let multi = kind.starts_with('m');
                if i != self.ops.len() || multi != (t.len() == 4) {
                    return vec!["bad-op".into()];
                }
                let fd = self.fd.unwrap();
                let mut rb = 0;
                let fut = if multi {
                    let pool = self.pool.as_ref().unwrap().clone();
                    if kind == "mread" { Fut::MRead(Box::pin(fd.multishot_read(pool))) } else { Fut::MRecv(Box::pin(fd.multishot_recv(pool))) }
                } else {
                    let Some(j) = parse_nat(t[4]) else { return vec!["bad-op".into()] };
                    if j >= self.rbs.len() || !matches!(self.rbs[j], RbSlot::Live(_)) {
                        return vec!["bad-op".into()];
                    }
                    let b = s_into(std::mem::replace(&mut self.rbs[j], RbSlot::Moved)).unwrap();
                    rb = j;
                    match kind {
                        "read" => Fut::Read(Box::pin(fd.read(b))),
                        "recv" => Fut::Recv(Box::pin(fd.recv(b))),
                        _ => Fut::RecvFrom(Box::pin(fd.recv_from(b))),
                    }
                };
                self.ops.push(OpSlot { kind, multi, fut: Some(fut), rb, has_rb: !multi, finished: false, user_data: None, select: false, target: (0, 0), pending: VecDeque::new() });
                vec!["ok".into()]
            }
            ["pool", "poll", i] => match parse_nat(i) {
                Some(i) if i < self.ops.len() && self.ops[i].fut.is_some() => self.do_poll(i),
                _ => vec!["bad-op".into()],
            },
            ["pool", "drop", i] => match parse_nat(i) {
                Some(i) if i < self.ops.len() && self.ops[i].fut.is_some() => self.do_drop(i),
                _ => vec!["bad-op".into()],
            },
            ["pool", "kpost", i, res, more, buf] => {
                let res_txt = *res;
                let (Some(i), Ok(res)) = (parse_nat(i), res.parse::<i32>()) else { return vec!["bad-op".into()] };
                let (more, buf) = match (*more, *buf) {
                    ("0", "0") => (false, false),
                    ("0", "1") => (false, true),
                    ("1", "0") => (true, false),
                    ("1", "1") => (true, true),
                    _ => return vec!["bad-op".into()],
                };
                if res.to_string() != res_txt {
                    return vec!["bad-op".into()];
                }
                self.do_kpost(i, res, more, buf)
            }
            ["pool", "rpoll"] => self.do_rpoll(),
            ["pool", "edit", j, rest @ ..] => match parse_nat(j) {
                Some(j) if j < self.rbs.len() && matches!(self.rbs[j], RbSlot::Live(_)) => self.do_edit(j, rest),
                Some(_) if matches!(rest, ["truncate", _] | ["clear"] | ["setlen", _] | ["extend", _] | ["remove", _, _]) => vec!["bad-op".into()],
                _ => vec!["bad-op".into()],
            },
            ["pool", "release", j] => match parse_nat(j) {
                Some(j) if j < self.rbs.len() && matches!(self.rbs[j], RbSlot::Live(_)) => self.do_release(j, false),
                _ => vec!["bad-op".into()],
            },
            ["pool", "rbdrop", j] => match parse_nat(j) {
                Some(j) if j < self.rbs.len() && matches!(self.rbs[j], RbSlot::Live(_)) => self.do_release(j, true),
                _ => vec!["bad-op".into()],
            },
            ["pool", "rbdropp", j] => match parse_nat(j) {
                Some(j) if j < self.rbs.len() && matches!(self.rbs[j], RbSlot::Live(_)) => self.do_release_how(j, true, true),
                _ => vec!["bad-op".into()],
            },
            ["pool", "prel", js] => {
                let Some(js) = parse_list(js) else { return vec!["bad-op".into()] };
                let mut d = js.clone();
                d.sort();
                d.dedup();
                if js.is_empty() || d.len() != js.len() || js.iter().any(|j| *j >= self.rbs.len() || !matches!(self.rbs[*j], RbSlot::Live(_))) {
                    return vec!["bad-op".into()];
                }
                self.do_prel(&js)
            }
            ["pool", "order", bids] => match parse_list(bids) {
                Some(b) => self.do_order(&b),
                None => vec!["bad-op".into()],
            },
            ["pool", "cycle", n] => match parse_nat(n) {
                Some(n) if n <= 200_000 => self.do_cycle(n),
                _ => vec!["bad-op".into()],
            },
            ["pool", "xring"] => self.do_xring(),
            ["pool", "lone"] => self.do_lone(),
            ["pool", "idwrap"] => self.do_idwrap(),
            ["pool", "resv"] => self.do_resv(),
            ["pool", "ring"] => vec![self.show_ring()],
            ["pool", "end"] => self.do_end(),
            _ => vec!["bad-op".into()],
        };
        simk::drain_events();
        self.verify(op);
        out
    }

    fn drain_oracle(&mut self) -> Vec<(String, String, String)> {
        std::mem::take(&mut self.oracle)
    }

    fn finish(&mut self) -> CaseReport {
        if self.alive() {
            if !self.ended {
                self.pending_order = None;
                self.do_end();
                self.verify("end");
            }
            // Tear the case down: pool, descriptor, ring.
            self.ops.clear();
            self.rbs.clear();
            drop(self.pool.take());
            if let Some(fd) = self.fd.take() {
                let raw = fd.as_fd().map(|f| std::os::fd::AsRawFd::as_raw_fd(&f));
                if let Some(raw) = raw {
                    unsafe { libc::close(raw) };
                }
                unsafe { drop(Box::from_raw(std::ptr::from_ref(fd).cast_mut())) };
            }
            drop(self.sq.take());
            if let Some(ring) = self.ring.take() {
                let _ = util::catch(move || drop(ring));
            }
            simk::drain_events();
            util::drain_wakes();
            track::drain_frees();
            simk::reset();
            track::release_quarantine();
        }
        if self.wrapped {
            self.feats.push("tail-wrap".into());
        }
        if self.releases >= 65536 {
            self.feats.push("releases>=2^16".into());
        }
        let mut features = std::mem::take(&mut self.feats);
        features.sort();
        features.dedup();
        let interesting = ["buffer-for-dropped-future", "tail-wrap", "concurrent-release", "reread", "multi-batch", "enobufs", "lost-after-drop", "lost-unpolled-result", "restart"];
        let nontrivial = self.delivered > 0 && features.iter().any(|f| interesting.contains(&f.as_str()));
        CaseReport { oracle: std::mem::take(&mut self.oracle), features, nontrivial }
    }
}

impl Comp for PoolComp {
    fn name(&self) -> &'static str {
        "pool"
    }
    fn rule(&self) -> String {
        "each case = a real ReadBufPool (pool_size in {1,2,4,8,16,64,1024,32768}, buf_size in {1,3,8,64,4096}, 16-bit ring counters started at 0, just below 2^16 or anywhere) on a simulated ring and a random script of <= 60 ops over <= 10 operations and <= 40 ReadBufs: get / new read|recv into a fresh or an owning ReadBuf / new multishot read|recv / poll / drop (also in flight) / kpost (data with a selected buffer, EOF with or without a buffer, final errors incl. EINTR/ECANCELED restarts, F_MORE batches, ENOBUFS when the ring is empty) / rpoll / ReadBuf edits / release / drop / concurrent drops from 1-3 real threads followed by the observed ring order / cycle n (n full read-release cycles, occasionally > 2^16) / ring / end (quiescence: every future and ReadBuf dropped, in-flight operations cancelled) + a malformed stream; non-trivial = at least one buffer was delivered to a ReadBuf and the case has a buffer selected for a dropped future, a 16-bit tail wrap, a concurrent release, a read into an owning ReadBuf, a multishot batch, an ENOBUFS, a restart or a lost buffer; distinct = distinct op scripts".into()
    }
    fn gen_header(&mut self, rng: &mut Rng, id: u64, tier: &str) -> String {
        let ps = match rng.weighted(&[3, 5, 6, 5, 3, 2, 1, 1]) {
            0 => 1u64,
            1 => 2,
            2 => 4,
            3 => 8,
            4 => 16,
            5 => 64,
            6 => 1024,
            _ => 32768,
        };
        let mut bs = if ps >= 1024 { *rng.pick(&[1u64, 8, 64]) } else { *rng.pick(&[1u64, 3, 8, 8, 64, 4096]) };
        let mut ps = ps;
        if rng.chance(1, 50) {
            // pools larger than 4 GiB (untouched memory): offsets beyond 32 bits
            (ps, bs) = *rng.pick(&[(8u64, 1u64 << 30), (16, 1 << 29), (32768, 1 << 18), (64, 1 << 27), (8, (1 << 30) + 4096), (4, (1u64 << 31) - 4096)]);
        }
        let t0 = match rng.below(5) {
            0 | 1 => 0,
            2 => 65536 - rng.range(1, 2 * ps.min(64) + 2),
            3 => 65536 - ps.min(65535),
            _ => rng.below(65536),
        };
        // more than 2^16 releases in one case: rare in the quick tier
        let big_every = if tier == "thorough" { 400 } else { 1500 };
        let big = if ps <= 16 && rng.below(big_every) == 0 { 65536 + rng.range(1, 3000) } else { 0 };
        format!("pool begin {id} ps={ps} bs={bs} t0={t0} steps={} big={big}", rng.range(12, 70))
    }
    fn begin(&mut self, header: &str) -> Box<dyn Case> {
        Box::new(PoolCase::new(header))
    }
}
