//! C18: ring construction is all-or-nothing and honours its configuration.
//!
//! Every op builds one `Ring` through the public `a10::Config` builder against
//! the simulated kernel, with scripted answers (setup errno, feature word,
//! failing n-th `mmap`/`madvise` of the ring descriptor, failing
//! `IORING_REGISTER_FILES2`, overflowing echoed sizes). Printed: the parameter
//! block a10 sent, the kernel's answer, the system calls that followed, the
//! result and the process ledger (descriptor table and `/proc/self/maps`,
//! before vs after).

use std::collections::{BTreeMap, BTreeSet};
use std::time::Duration;

use crate::comp::{Case, CaseReport, Comp};
use crate::simk::{self, KEv};
use crate::util::{self, errno_name, Rng};

pub struct ConfigComp;

const REQ_FEATS: [(u32, &str); 4] = [
    (1 << 1, "IORING_FEAT_NODROP"),
    (1 << 2, "IORING_FEAT_SUBMIT_STABLE"),
    (1 << 3, "IORING_FEAT_RW_CUR_POS"),
    (1 << 7, "IORING_FEAT_SQPOLL_NONFIXED"),
];
const REQ_MASK: u32 = (1 << 1) | (1 << 2) | (1 << 3) | (1 << 7);
const ERRNOS: [i32; 8] = [
    libc::ENOMEM,
    libc::EPERM,
    libc::EINVAL,
    libc::EAGAIN,
    libc::EBUSY,
    libc::EFAULT,
    libc::ENXIO,
    libc::ENOSYS,
];

/// Number of systematically enumerated (settings x size class x fault point) combinations.
const N_BOOLS: u64 = 10;
const N_CLASSES: u64 = 3;
const N_FAULTS: u64 = 13;
const SYS_TOTAL: u64 = (1 << N_BOOLS) * N_CLASSES * N_FAULTS;
const SYS_STRIDE: u64 = 7919; // coprime to SYS_TOTAL: ids 0..SYS_TOTAL visit every combination once

#[derive(Clone, Debug, PartialEq)]
enum Call {
    Sq(u32),
    Cq(u32),
    Max,
    Si,
    Dt,
    Kt,
    Cpu(u32),
    Idle(u64),
    Dd(u32),
    Dis,
    Att,
}

impl Call {
    fn show(&self) -> String {
        match self {
            Call::Sq(n) => format!("sq:{n}"),
            Call::Cq(n) => format!("cq:{n}"),
            Call::Max => "max".into(),
            Call::Si => "si".into(),
            Call::Dt => "dt".into(),
            Call::Kt => "kt".into(),
            Call::Cpu(n) => format!("cpu:{n}"),
            Call::Idle(n) => format!("idle:{n}"),
            Call::Dd(n) => format!("dd:{n}"),
            Call::Dis => "dis".into(),
            Call::Att => "att".into(),
        }
    }
}

#[derive(Clone, Debug)]
struct Build {
    base: bool,
    calls: Vec<Call>,
    setup: Option<i32>,
    feat: u32,
    mmapf: Option<(u32, i32)>,
    madvf: Option<(u32, i32)>,
    regf: Option<i32>,
    esq: Option<u32>,
    ecq: Option<u32>,
}

impl Build {
    fn show(&self) -> String {
        let calls = if self.calls.is_empty() {
            "-".to_string()
        } else {
            self.calls.iter().map(Call::show).collect::<Vec<_>>().join(",")
        };
        let nth = |f: &Option<(u32, i32)>| match f {
            Some((k, e)) => format!("{k}:{e}"),
            None => "-".into(),
        };
        let opt = |f: &Option<u32>| match f {
            Some(n) => n.to_string(),
            None => "-".into(),
        };
        format!(
            "config build base={} calls={} setup={} feat={} mmapf={} madvf={} regf={} esq={} ecq={}",
            self.base as u8,
            calls,
            self.setup.unwrap_or(0),
            self.feat,
            nth(&self.mmapf),
            nth(&self.madvf),
            self.regf.unwrap_or(0),
            opt(&self.esq),
            opt(&self.ecq),
        )
    }
}

fn strict_u64(s: &str) -> Option<u64> {
    if s.is_empty() || !s.bytes().all(|b| b.is_ascii_digit()) {
        return None;
    }
    s.parse().ok()
}

fn strict_u32(s: &str) -> Option<u32> {
    strict_u64(s).and_then(|n| u32::try_from(n).ok())
}

fn parse_errno(s: &str) -> Option<i32> {
    let n = strict_u64(s)?;
    if (1..4096).contains(&n) { Some(n as i32) } else { None }
}

fn parse_call(base: bool, t: &str) -> Option<Call> {
    let parts: Vec<&str> = t.split(':').collect();
    Some(match parts.as_slice() {
        ["max"] => Call::Max,
        ["si"] => Call::Si,
        ["dt"] => Call::Dt,
        ["kt"] => Call::Kt,
        ["dis"] => Call::Dis,
        ["att"] => {
            if !base {
                return None;
            }
            Call::Att
        }
        ["sq", n] => Call::Sq(strict_u32(n)?),
        ["cq", n] => Call::Cq(strict_u32(n)?),
        ["cpu", n] => Call::Cpu(strict_u32(n)?),
        ["dd", n] => Call::Dd(strict_u32(n)?),
        ["idle", n] => Call::Idle(strict_u64(n)?),
        _ => return None,
    })
}

fn parse_nth(s: &str) -> Option<Option<(u32, i32)>> {
    if s == "-" {
        return Some(None);
    }
    let (k, e) = s.split_once(':')?;
    if e.contains(':') {
        return None;
    }
    Some(Some((strict_u32(k)?, parse_errno(e)?)))
}

fn parse_opt_errno(s: &str) -> Option<Option<i32>> {
    if s == "0" { Some(None) } else { parse_errno(s).map(Some) }
}

fn parse_echo(factor: u64, s: &str) -> Option<Option<u32>> {
    if s == "-" {
        return Some(None);
    }
    let n = strict_u32(s)?;
    // Only sizes whose u32 length computation overflows may be echoed.
    if n as u64 * factor >= 1 << 32 { Some(Some(n)) } else { None }
}

fn kv<'a>(key: &str, tok: &'a str) -> Option<&'a str> {
    let (k, v) = tok.split_once('=')?;
    if k == key && !v.contains('=') { Some(v) } else { None }
}

fn parse_build(op: &str) -> Option<Build> {
    let t: Vec<&str> = op.split(' ').collect();
    let ["config", "build", tb, tc, ts, tf, tmm, tma, tr, tes, tec] = t.as_slice() else {
        return None;
    };
    let base = match kv("base", tb)? {
        "1" => true,
        "0" => false,
        _ => return None,
    };
    let vc = kv("calls", tc)?;
    let calls = if vc == "-" {
        Vec::new()
    } else {
        vc.split(',').map(|c| parse_call(base, c)).collect::<Option<Vec<_>>>()?
    };
    Some(Build {
        base,
        calls,
        setup: parse_opt_errno(kv("setup", ts)?)?,
        feat: strict_u32(kv("feat", tf)?)?,
        mmapf: parse_nth(kv("mmapf", tmm)?)?,
        madvf: parse_nth(kv("madvf", tma)?)?,
        regf: parse_opt_errno(kv("regf", tr)?)?,
        esq: parse_echo(4, kv("esq", tes)?)?,
        ecq: parse_echo(16, kv("ecq", tec)?)?,
    })
}

/// Open descriptors of the process (numbers below 512).
fn open_fds() -> BTreeSet<i32> {
    (0..512).filter(|fd| unsafe { libc::fcntl(*fd, libc::F_GETFD) } != -1).collect()
}

/// `(start, end)` of every mapping of a simulated ring descriptor in `/proc/self/maps`.
fn ring_maps() -> BTreeSet<(usize, usize)> {
    let text = std::fs::read_to_string("/proc/self/maps").unwrap_or_default();
    let mut out = BTreeSet::new();
    for line in text.lines() {
        if !line.contains("a10-sim-ring") {
            continue;
        }
        let range = line.split(' ').next().unwrap_or("");
        if let Some((a, b)) = range.split_once('-') {
            if let (Ok(a), Ok(b)) = (usize::from_str_radix(a, 16), usize::from_str_radix(b, 16)) {
                out.insert((a, b));
            }
        }
    }
    out
}

fn region_name(off: i64) -> &'static str {
    match off {
        simk::OFF_SQ_RING => "sq",
        simk::OFF_SQES => "sqes",
        simk::OFF_CQ_RING => "cq",
        _ => "other",
    }
}

/// A numeric field of a `Debug` rendering: the text after `name` up to `,`/` `/`}`.
fn dbg_field<'a>(s: &'a str, name: &str) -> Option<&'a str> {
    let i = s.find(name)? + name.len();
    let rest = &s[i..];
    let j = rest.find(|c: char| c == ',' || c == ' ' || c == '}').unwrap_or(rest.len());
    Some(&rest[..j])
}

/// The flag word the settings call for (the oracle's own transcription of the
/// documented meaning of each builder method).
fn expected_params(calls: &[Call], base_fd: i32) -> (u32, u32, u32, u32, u32, u32) {
    let (mut sq, mut cq, mut cpu, mut idle, mut wq) = (32u32, 0u32, 0u32, 0u32, 0u32);
    let mut flags = simk::SETUP_SUBMIT_ALL | simk::SETUP_NO_SQARRAY;
    let mut kt = false;
    for c in calls {
        match c {
            Call::Sq(n) => sq = *n,
            Call::Cq(n) => {
                cq = *n;
                flags |= simk::SETUP_CQSIZE;
            }
            Call::Max => {
                sq = u32::MAX;
                flags |= simk::SETUP_CLAMP;
            }
            Call::Si => flags |= simk::SETUP_SINGLE_ISSUER,
            Call::Dt => flags |= simk::SETUP_DEFER_TASKRUN,
            Call::Kt => kt = true,
            Call::Cpu(n) => {
                cpu = *n;
                flags |= simk::SETUP_SQ_AFF;
            }
            Call::Idle(ms) => idle = u32::try_from(*ms).unwrap_or(u32::MAX),
            Call::Dd(_) => {}
            Call::Dis => flags |= simk::SETUP_R_DISABLED,
            Call::Att => {
                wq = base_fd as u32;
                flags |= simk::SETUP_ATTACH_WQ;
            }
        }
    }
    flags |= if kt { simk::SETUP_SQPOLL } else { simk::SETUP_COOP_TASKRUN };
    (sq, cq, flags, cpu, idle, wq)
}

struct ConfigCase {
    id: u64,
    left: u32,
    systematic: bool,
    feats: Vec<String>,
    oracle: Vec<(String, String, String)>,
    nontrivial: bool,
}

impl ConfigCase {
    fn fail(&mut self, kind: &str, point: &str, what: String) {
        self.oracle.push(("C18".into(), format!("C18/{kind}/{point}"), what));
    }

    /// The `idx`-th combination of the systematic enumeration.
    fn systematic_build(idx: u64) -> Build {
        let bools = idx % (1 << N_BOOLS);
        let class = (idx >> N_BOOLS) % N_CLASSES;
        let fault = (idx >> N_BOOLS) / N_CLASSES % N_FAULTS;
        let bit = |k: u64| bools >> k & 1 == 1;
        let (max, kt, si, dt, dis, att, cpu, idle, cq, dd) =
            (bit(0), bit(1), bit(2), bit(3), bit(4), bit(5), bit(6), bit(7), bit(8), bit(9));
        let mut calls = Vec::new();
        // granted submission queue size
        let sq_granted: u32;
        if max {
            calls.push(Call::Max);
            match class {
                0 => sq_granted = 32768,
                1 => {
                    calls.push(Call::Sq(6));
                    sq_granted = 8;
                }
                _ => {
                    calls.push(Call::Sq(64));
                    sq_granted = 64;
                }
            }
        } else {
            let n = [4u32, 100, 1024][class as usize];
            calls.push(Call::Sq(n));
            sq_granted = n.next_power_of_two();
        }
        if cq {
            let n = match class {
                0 => sq_granted,
                1 => sq_granted * 2 + 1,
                _ => sq_granted * 4,
            };
            calls.push(Call::Cq(n));
        }
        if kt {
            calls.push(Call::Kt);
        }
        if cpu {
            calls.push(Call::Cpu(1 + class as u32));
        }
        if idle {
            calls.push(Call::Idle([0u64, 1500, 5_000_000_000][class as usize]));
        }
        if si {
            calls.push(Call::Si);
        }
        if dt {
            calls.push(Call::Dt);
        }
        if dis {
            calls.push(Call::Dis);
        }
        if att {
            calls.push(Call::Att);
        }
        if dd {
            calls.push(Call::Dd([1u32, 64, 1000][class as usize]));
        }
        let errno = ERRNOS[(idx % ERRNOS.len() as u64) as usize];
        let mut b = Build {
            base: att,
            calls,
            setup: None,
            feat: simk::FEAT_DEFAULT,
            mmapf: None,
            madvf: None,
            regf: None,
            esq: None,
            ecq: None,
        };
        match fault {
            0 => {}
            1 => b.setup = Some(errno),
            2..=5 => b.feat = simk::FEAT_DEFAULT & !REQ_FEATS[(fault - 2) as usize].0,
            6..=8 => b.mmapf = Some(((fault - 6) as u32, errno)),
            9..=11 => b.madvf = Some(((fault - 9) as u32, errno)),
            _ => b.regf = Some(errno),
        }
        b
    }

    fn random_build(rng: &mut Rng) -> Build {
        let mut calls = Vec::new();
        let base = rng.chance(1, 4);
        let sizes = [1u32, 2, 3, 4, 5, 8, 16, 31, 32, 33, 64, 100, 128, 256, 1000, 1024, 4096];
        let odd = [0u32, 32768, 32769, 40000, 65536, 65537, 1 << 20, u32::MAX];
        let size = |rng: &mut Rng| -> u32 {
            match rng.below(10) {
                0 => *rng.pick(&odd),
                1 => rng.range(1, 5000) as u32,
                _ => *rng.pick(&sizes),
            }
        };
        let n = rng.range(0, 7);
        for _ in 0..n {
            let c = match rng.weighted(&[4, 4, 1, 2, 2, 2, 2, 2, 3, 2, 2]) {
                0 => Call::Sq(size(rng)),
                1 => Call::Cq(size(rng)),
                2 => Call::Max,
                3 => Call::Si,
                4 => Call::Dt,
                5 => Call::Kt,
                6 => Call::Cpu(if rng.chance(1, 4) { rng.next() as u32 } else { rng.below(8) as u32 }),
                7 => Call::Idle(match rng.below(5) {
                    0 => 0,
                    1 => u32::MAX as u64,
                    2 => u32::MAX as u64 + 1,
                    3 => rng.next(),
                    _ => rng.below(100_000),
                }),
                // (the simulated kernel allocates the table: keep it small)
                8 => Call::Dd(match rng.below(6) {
                    0 => 0,
                    1 => 65536,
                    _ => rng.range(1, 4096) as u32,
                }),
                9 => Call::Dis,
                _ => {
                    if base {
                        Call::Att
                    } else {
                        Call::Si
                    }
                }
            };
            calls.push(c);
        }
        // A valid completion queue size most of the time.
        if rng.chance(3, 4) && calls.iter().any(|c| matches!(c, Call::Cq(_))) {
            let sq = calls
                .iter()
                .rev()
                .find_map(|c| match c {
                    Call::Sq(n) => Some(*n),
                    Call::Max => Some(32768),
                    _ => None,
                })
                .unwrap_or(32);
            if (1..=32768).contains(&sq) {
                calls.retain(|c| !matches!(c, Call::Cq(_)));
                calls.push(Call::Cq(sq.next_power_of_two() * rng.range(1, 2) as u32));
            }
        }
        let errno = |rng: &mut Rng| *rng.pick(&ERRNOS);
        let mut b = Build {
            base,
            calls,
            setup: None,
            feat: simk::FEAT_DEFAULT,
            mmapf: None,
            madvf: None,
            regf: None,
            esq: None,
            ecq: None,
        };
        // Several answers may refuse at once: the first one decides.
        let nfaults = rng.weighted(&[3, 5, 2, 1]);
        for _ in 0..nfaults {
            match rng.weighted(&[2, 5, 4, 4, 3, 1]) {
                0 => b.setup = Some(errno(rng)),
                1 => {
                    b.feat = match rng.below(4) {
                        0 => rng.next() as u32,
                        1 => 0,
                        _ => simk::FEAT_DEFAULT & !REQ_FEATS[rng.below(4) as usize].0,
                    }
                }
                2 => b.mmapf = Some((rng.below(4) as u32, errno(rng))),
                3 => b.madvf = Some((rng.below(4) as u32, errno(rng))),
                4 => {
                    b.regf = Some(errno(rng));
                    if !b.calls.iter().any(|c| matches!(c, Call::Dd(_))) && rng.chance(3, 4) {
                        b.calls.push(Call::Dd(rng.range(1, 256) as u32));
                    }
                }
                _ => {
                    if rng.chance(1, 2) {
                        b.esq = Some(*rng.pick(&[1u32 << 30, 1 << 31, u32::MAX, (1 << 30) + 5]));
                    } else {
                        b.ecq = Some(*rng.pick(&[1u32 << 28, 1 << 30, u32::MAX, (1 << 28) + 1]));
                    }
                }
            }
        }
        if rng.chance(1, 10) {
            // extra feature bits beyond the required ones
            b.feat |= (rng.next() as u32) & !REQ_MASK;
        }
        b
    }

    fn malformed(rng: &mut Rng) -> String {
        let good = Self::random_build(rng).show();
        match rng.below(9) {
            0 => "config build".into(),
            1 => good.replace("calls=", "calls=zz,"),
            2 => good.replace("base=0", "base=0 calls=att").replace("base=1", "base=2"),
            3 => good.replace("feat=", "feat=x"),
            4 => good.replace("setup=0", "setup=4096").replace("regf=0", "regf=-1"),
            5 => good.replace("esq=-", "esq=4").replace("ecq=-", "ecq=65536"),
            6 => format!("{good} extra=1"),
            7 => good.replace("calls=", "calls=sq:4294967296,"),
            _ => "config frobnicate 1".into(),
        }
    }

    fn run_build(&mut self, b: &Build, op: &str) -> Vec<String> {
        let mut out = Vec::new();
        simk::reset();
        simk::activate(simk::SetupCfg::default());
        // The ring attached to, built before the ledger snapshot.
        let base_ring = if b.base {
            match a10::Ring::config().with_submission_queue_size(2).build() {
                Ok(r) => Some(r),
                Err(e) => {
                    simk::reset();
                    return vec![format!("base-failed {e}")];
                }
            }
        } else {
            None
        };
        let base_fd = simk::with_sim(|s| s.rings.keys().next().copied()).unwrap_or(-1);
        let _ = simk::drain_events();

        let fds0 = open_fds();
        let maps0 = ring_maps();

        let mut register_fail = BTreeMap::new();
        if let Some(e) = b.regf {
            register_fail.insert(simk::REGISTER_FILES2, e);
        }
        simk::activate(simk::SetupCfg {
            features: b.feat,
            setup_errno: b.setup,
            register_fail,
            echo_sq: b.esq,
            echo_cq: b.ecq,
            ..Default::default()
        });
        let madv0 = simk::with_sim(|s| {
            s.mmap_fail = b.mmapf.map(|(k, e)| (s.mmap_count + k, e));
            s.madvise_fail = b.madvf.map(|(k, e)| (s.madvise_count + k, e));
            s.madvise_count
        });

        let mut cfg = a10::Ring::config();
        for c in &b.calls {
            cfg = match c {
                Call::Sq(n) => cfg.with_submission_queue_size(*n),
                Call::Cq(n) => cfg.with_completion_queue_size(*n),
                Call::Max => cfg.with_maximum_queue_size(),
                Call::Si => cfg.single_issuer(),
                Call::Dt => cfg.defer_task_run(),
                Call::Kt => cfg.with_kernel_thread(),
                Call::Cpu(n) => cfg.with_cpu_affinity(*n),
                Call::Idle(ms) => cfg.with_idle_timeout(Duration::from_millis(*ms)),
                Call::Dd(n) => cfg.with_direct_descriptors(*n),
                Call::Dis => cfg.disable(),
                Call::Att => cfg.attach(base_ring.as_ref().expect("att needs base")),
            };
        }
        let res = util::catch(move || cfg.build());
        let events = simk::drain_events();
        let madvises = simk::with_sim(|s| {
            s.mmap_fail = None;
            s.madvise_fail = None;
            s.madvise_count - madv0
        });
        let fds1 = open_fds();
        let maps1 = ring_maps();

        // ---- canonical output + event ledger -------------------------------
        let mut setup: Option<(i32, simk::Params, simk::Params)> = None; // (ret fd or -errno, in, out)
        let mut addr_of: BTreeMap<usize, (i64, usize)> = BTreeMap::new(); // live per events
        let mut ev_problems: Vec<String> = Vec::new();
        let mut closes = 0;
        let mut registers: Vec<(i64, String)> = Vec::new();
        let mut mmaps_done = 0;
        let mut register_after_mmaps = true;
        for (i, e) in events.iter().enumerate() {
            match e {
                KEv::Setup { params_in, params_out, ret, .. } => {
                    if i != 0 {
                        ev_problems.push("io_uring_setup called more than once".into());
                    }
                    setup = Some((*ret as i32, *params_in, *params_out));
                    let p = params_in;
                    let wq = if p.wq_fd == 0 {
                        "0".to_string()
                    } else if p.wq_fd as i32 == base_fd {
                        "base".to_string()
                    } else {
                        format!("fd{}", p.wq_fd)
                    };
                    out.push(format!(
                        "params sq={} cq={} flags={} cpu={} idle={} wq={}",
                        p.sq_entries, p.cq_entries, p.flags, p.sq_thread_cpu, p.sq_thread_idle, wq
                    ));
                    if *ret >= 0 {
                        out.push(format!(
                            "setup=ok sq={} cq={} feat={}",
                            params_out.sq_entries, params_out.cq_entries, params_out.features
                        ));
                    } else {
                        out.push(format!("setup={}", errno_name(-*ret as i32)));
                    }
                }
                KEv::Mmap { fd, off, len, ret } => {
                    let ring_fd = setup.map(|s| s.0).unwrap_or(-1);
                    if *fd != ring_fd || closes > 0 {
                        ev_problems.push(format!("mmap of fd {fd} which is not the open ring descriptor"));
                    }
                    let ans = if *ret == -1 {
                        errno_name(b.mmapf.map(|f| f.1).unwrap_or(0))
                    } else {
                        addr_of.insert(*ret as usize, (*off, *len));
                        mmaps_done += 1;
                        "ok".into()
                    };
                    out.push(format!("mmap {} len={} {}", region_name(*off), len, ans));
                }
                KEv::Munmap { addr, len, known } => {
                    let region = match addr_of.remove(addr) {
                        Some((off, _)) => region_name(off),
                        None => {
                            ev_problems.push(format!("munmap of an address that is not mapped ({len} bytes)"));
                            "unknown"
                        }
                    };
                    if closes > 0 {
                        ev_problems.push("munmap after the ring descriptor was closed".into());
                    }
                    out.push(format!("munmap {region} len={len}{}", if *known { "" } else { " partial" }));
                    if !*known {
                        ev_problems.push(format!("munmap of {region} with a length ({len}) different from its mmap"));
                    }
                }
                KEv::Register { op: rop, nr, ret, detail, .. } => {
                    if *rop == simk::REGISTER_FILES2 {
                        let ans = if *ret < 0 { errno_name(-*ret as i32) } else { "ok".into() };
                        if *ret < 0 {
                            out.push(format!("register files2 args={nr} {ans}"));
                        } else {
                            out.push(format!("register {detail} args={nr} {ans}"));
                        }
                        if mmaps_done != 3 {
                            register_after_mmaps = false;
                        }
                        registers.push((*ret, detail.clone()));
                    } else {
                        out.push(format!("register op={rop} args={nr} ret={ret}"));
                        ev_problems.push(format!("unexpected registration {rop}"));
                    }
                }
                KEv::CloseFd { fd, ret } => {
                    let ring_fd = setup.map(|s| s.0).unwrap_or(-1);
                    if *fd == ring_fd {
                        out.push("close ring".into());
                    } else {
                        out.push("close other".into());
                        ev_problems.push(format!("closed descriptor {fd}, not the new ring"));
                    }
                    if *ret != 0 {
                        ev_problems.push(format!("close failed: ring descriptor closed twice? ret={ret}"));
                    }
                    closes += 1;
                }
                other => {
                    out.push(format!("unexpected {other:?}"));
                    ev_problems.push("unexpected kernel interaction during build".into());
                }
            }
        }
        if setup.is_none() {
            out.push("params missing".into());
        }
        out.push(format!("madvise={madvises}"));

        let ring_fd = setup.map(|s| s.0).filter(|fd| *fd >= 0);
        let ring_created = ring_fd.is_some();
        let result_line;
        let mut ring = None;
        match res {
            Ok(Ok(r)) => {
                let d = format!("{r:?}");
                let f = |name: &str| dbg_field(&d, name).unwrap_or("?").to_string();
                let tf = |name: &str| match dbg_field(&d, name) {
                    Some("true") => "1",
                    Some("false") => "0",
                    _ => "?",
                };
                result_line = format!(
                    "result=ok sq={} cq={} kt={} si={} sqring={} cqring={}",
                    f("submissions_len: "),
                    f("entries_len: "),
                    tf("kernel_thread: "),
                    tf("single_issuer: "),
                    f("submission_ring_len: "),
                    f(", ring_len: "),
                );
                // Oracle: the ring's sizes and modes are the ones the kernel granted.
                if let Some((fd, _, po)) = setup {
                    let want = format!(
                        "result=ok sq={} cq={} kt={} si={} sqring={} cqring={}",
                        po.sq_entries,
                        po.cq_entries,
                        (po.flags & simk::SETUP_SQPOLL != 0) as u8,
                        (po.flags & simk::SETUP_SINGLE_ISSUER != 0) as u8,
                        po.sq_off.array as u64 + po.sq_entries as u64 * 4,
                        po.cq_off.cqes as u64 + po.cq_entries as u64 * 16,
                    );
                    if want != result_line {
                        self.fail("ring-mismatch", "ok", format!("ring is `{result_line}`, the kernel granted `{want}` ({op})"));
                    }
                    if f("rfd: OwnedFd { fd: ") != fd.to_string() {
                        self.fail("ring-mismatch", "fd", format!("ring holds descriptor {} but setup returned {fd} ({op})", f("rfd: OwnedFd { fd: ")));
                    }
                }
                ring = Some(r);
            }
            Ok(Err(e)) => {
                result_line = match e.raw_os_error() {
                    Some(n) => format!("result=err:{}", errno_name(n)),
                    None if e.kind() == std::io::ErrorKind::Unsupported => {
                        let msg = e.to_string();
                        let name = msg.split('`').nth(1).unwrap_or("?");
                        format!("result=unsupported:{name}")
                    }
                    None => format!("result=err:{:?}", e.kind()),
                };
            }
            Err(_) => result_line = "result=panic".into(),
        }
        out.push(result_line.clone());

        // ---- process ledger --------------------------------------------------
        let added_fds: Vec<i32> = fds1.difference(&fds0).copied().collect();
        let lost_fds: Vec<i32> = fds0.difference(&fds1).copied().collect();
        let new_maps: Vec<(usize, usize)> = maps1.difference(&maps0).copied().collect();
        let lost_maps = maps0.difference(&maps1).count();
        let kernel_side = if ring_created { 3 } else { 0 };
        let a10_maps = new_maps.len() as i64 - kernel_side;
        out.push(format!(
            "ledger fds={} maps={}{}",
            added_fds.len(),
            a10_maps,
            if lost_fds.is_empty() && lost_maps == 0 { String::new() } else { format!(" lost={}+{}", lost_fds.len(), lost_maps) }
        ));
        let sim_maps: Vec<(usize, (i32, i64, usize))> = simk::with_sim(|s| {
            s.mappings.iter().filter(|(_, m)| Some(m.0) == ring_fd).map(|(a, m)| (*a, *m)).collect()
        });

        // ---- oracle ------------------------------------------------------------
        // (a) which outcome: decided by the answers alone, in the order the calls are made.
        let dd = b.calls.iter().rev().find_map(|c| if let Call::Dd(n) = c { Some(*n) } else { None });
        let point: String;
        let expected: String = 'e: {
            let Some((ret, _, _)) = setup else {
                point = "no-setup".into();
                break 'e "?".into();
            };
            if ret < 0 {
                point = "setup".into();
                break 'e format!("result=err:{}", errno_name(-ret));
            }
            for (bitv, name) in REQ_FEATS {
                if b.feat & bitv == 0 {
                    point = format!("feature-{name}");
                    break 'e format!("result=unsupported:{name}");
                }
            }
            if b.esq.is_some() {
                point = "overflow-sq".into();
                break 'e "result=panic".into();
            }
            for n in 0..3u32 {
                if n == 2 && b.ecq.is_some() {
                    point = "overflow-cq".into();
                    break 'e "result=panic".into();
                }
                if let Some((k, e)) = b.mmapf {
                    if k == n {
                        point = format!("mmap{n}");
                        break 'e format!("result=err:{}", errno_name(e));
                    }
                }
                if let Some((k, e)) = b.madvf {
                    if k == n {
                        point = format!("madvise{n}");
                        break 'e format!("result=err:{}", errno_name(e));
                    }
                }
            }
            if let (Some(_), Some(e)) = (dd, b.regf) {
                point = "register".into();
                break 'e format!("result=err:{}", errno_name(e));
            }
            point = "none".into();
            "result=ok".into()
        };
        let is_ok = ring.is_some();
        let matches_expected = if expected == "result=ok" { is_ok } else { result_line == expected };
        if !matches_expected {
            self.fail("outcome", &point, format!("the answers call for `{expected}`, build gave `{result_line}` ({op})"));
        }
        for p in &ev_problems {
            self.fail("syscalls", &point, format!("{p} ({op})"));
        }
        // (b) parameter block
        if let Some((_, pi, _)) = setup {
            let want = expected_params(&b.calls, base_fd);
            let got = (pi.sq_entries, pi.cq_entries, pi.flags, pi.sq_thread_cpu, pi.sq_thread_idle, pi.wq_fd);
            if want != got {
                self.fail("params", "setup", format!("settings call for (sq,cq,flags,cpu,idle,wq)={want:?}, a10 sent {got:?} ({op})"));
            }
            if pi.features != 0 || pi.resv != [0; 3] {
                self.fail("params", "setup", format!("output/reserved fields of the parameter block not zero ({op})"));
            }
        }
        if is_ok {
            // (c) success: exactly the ring descriptor and its three mappings.
            if added_fds != ring_fd.into_iter().collect::<Vec<_>>() || !lost_fds.is_empty() {
                self.fail("ledger-ok", "fds", format!("after a successful build the new descriptors are {added_fds:?} (lost {lost_fds:?}), expected the ring descriptor {ring_fd:?} ({op})"));
            }
            let offs: Vec<i64> = {
                let mut v: Vec<i64> = sim_maps.iter().map(|m| m.1.1).collect();
                v.sort();
                v
            };
            if a10_maps != 3 || offs != [simk::OFF_SQ_RING, simk::OFF_CQ_RING, simk::OFF_SQES] || lost_maps != 0 {
                self.fail("ledger-ok", "maps", format!("after a successful build a10 holds {a10_maps} mappings (offsets {offs:?}), expected the three ring regions ({op})"));
            }
            for (addr, (_, _, len)) in &sim_maps {
                let end = addr + ((len + 4095) & !4095);
                if !new_maps.contains(&(*addr, end)) {
                    self.fail("ledger-ok", "maps", format!("a mapping a10 holds is not in /proc/self/maps ({op})"));
                }
            }
            if closes != 0 || addr_of.len() != 3 {
                self.fail("ledger-ok", "events", format!("close/munmap during a successful build ({op})"));
            }
            match dd {
                Some(n) => {
                    let want = format!("files2 nr={n} flags=1");
                    if registers.len() != 1 || registers[0].0 != 0 || registers[0].1 != want || !register_after_mmaps {
                        self.fail("registration", "ok", format!("direct descriptors requested ({want}) but registrations were {registers:?} (after the mappings: {register_after_mmaps}) ({op})"));
                    }
                    let table = ring_fd.map(|fd| simk::with_ring(fd, |r, _| r.files.as_ref().map(|f| f.len())));
                    if table != Some(Some(n as usize)) {
                        self.fail("registration", "table", format!("direct descriptor table is {table:?}, expected {n} slots ({op})"));
                    }
                }
                None => {
                    if !registers.is_empty() {
                        self.fail("registration", "unrequested", format!("registration without direct descriptors requested ({op})"));
                    }
                }
            }
        } else {
            // (d) failure (error or panic): nothing is left behind.
            if !added_fds.is_empty() || !lost_fds.is_empty() {
                self.fail("leak-fd", &point, format!("failed build left descriptors {added_fds:?} open (lost {lost_fds:?}) ({op})"));
            }
            if a10_maps != 0 || !sim_maps.is_empty() || !addr_of.is_empty() || lost_maps != 0 {
                self.fail("leak-map", &point, format!("failed build left {a10_maps} mapping(s) of the ring behind (kernel log: {} live) ({op})", sim_maps.len()));
            }
            if ring_created && closes != 1 {
                self.fail("leak-fd", &point, format!("ring descriptor closed {closes} times during a failed build ({op})"));
            }
        }

        // ---- is the ring usable? ---------------------------------------------
        if let Some(r) = ring.as_mut() {
            let show = |r: std::io::Result<()>| match r {
                Ok(()) => "ok".to_string(),
                Err(e) => util::io_err_name(&e),
            };
            let disabled = setup.map(|s| s.2.flags & simk::SETUP_R_DISABLED != 0).unwrap_or(false);
            let mut line = format!("working poll={}", show(r.poll(Some(Duration::ZERO))));
            if disabled {
                line.push_str(&format!(" enable={}", show(r.enable())));
                line.push_str(&format!(" poll={}", show(r.poll(Some(Duration::ZERO)))));
            }
            let entered = simk::drain_events().iter().any(|e| matches!(e, KEv::Enter { fd, .. } if Some(*fd) == ring_fd));
            if !entered {
                self.fail("ring-mismatch", "enter", format!("polling the new ring did not enter the kernel on its descriptor ({op})"));
            }
            out.push(line);
        }

        // ---- features ---------------------------------------------------------
        self.feats.push(format!("fault:{point}"));
        self.feats.push(format!("result:{}", result_line.split(' ').next().unwrap_or("?").trim_start_matches("result=").split(':').next().unwrap_or("?")));
        for c in &b.calls {
            self.feats.push(format!("call:{}", c.show().split(':').next().unwrap_or("?")));
        }
        if b.calls.is_empty() {
            self.feats.push("call:none".into());
        }
        if !is_ok && ring_created {
            self.feats.push(format!("cleanup-after:{}maps", mmaps_done));
            self.nontrivial = true;
        }
        if is_ok {
            self.nontrivial = true;
        }

        drop(ring);
        drop(base_ring);
        simk::reset();
        simk::deactivate();
        out
    }
}

impl Case for ConfigCase {
    fn next_op(&mut self, rng: &mut Rng) -> Option<String> {
        if self.left == 0 {
            return None;
        }
        self.left -= 1;
        if self.systematic {
            self.systematic = false;
            let idx = self.id.wrapping_mul(SYS_STRIDE) % SYS_TOTAL;
            // ids below SYS_TOTAL each visit a combination not visited before
            self.feats.push(if self.id < SYS_TOTAL { "systematic:new-combination" } else { "systematic:repeat" }.into());
            return Some(Self::systematic_build(idx).show());
        }
        if rng.chance(1, 25) {
            self.feats.push("malformed".into());
            return Some(Self::malformed(rng));
        }
        Some(Self::random_build(rng).show())
    }

    fn exec(&mut self, op: &str) -> Vec<String> {
        match parse_build(op) {
            Some(b) => self.run_build(&b, op),
            None => vec!["bad-op".into()],
        }
    }

    fn drain_oracle(&mut self) -> Vec<(String, String, String)> {
        std::mem::take(&mut self.oracle)
    }

    fn finish(&mut self) -> CaseReport {
        CaseReport {
            oracle: Vec::new(),
            features: std::mem::take(&mut self.feats),
            nontrivial: self.nontrivial,
        }
    }
}

impl Comp for ConfigComp {
    fn name(&self) -> &'static str {
        "config"
    }
    fn rule(&self) -> String {
        format!(
            "each case = 4 Ring builds through the public a10::Config builder against the simulated kernel. Build 1 is systematic: case id i runs combination (i*{SYS_STRIDE}) mod {SYS_TOTAL} of the complete product 2^10 settings (max/clamp, kernel thread, single issuer, defer taskrun, disabled, attach, cpu affinity, idle timeout, CQ size, direct descriptors) x 3 size classes x 13 fault points (none, setup errno, each of the 4 required feature bits missing, mmap #1-#3 failing, madvise #1-#3 failing, FILES2 registration failing); the stride is coprime to {SYS_TOTAL}, so {SYS_TOTAL} cases enumerate the product completely (thorough tier; measured by the feature count `systematic:new-combination`). Builds 2-4 are random: builder calls in random order with repeats, boundary/invalid sizes (0, non powers of two, > 32768 with and without clamp, CQ < SQ), arbitrary feature words, several refusing answers at once, echoed sizes that overflow the u32 length computations; 1 in 25 ops is malformed (both sides must answer bad-op). Non-trivial = at least one build that succeeded or failed after the ring descriptor existed (clean-up code ran); distinct = distinct op scripts"
        )
    }
    fn gen_header(&mut self, _rng: &mut Rng, id: u64, _tier: &str) -> String {
        format!("config begin {id}")
    }
    fn begin(&mut self, header: &str) -> Box<dyn Case> {
        let id = header.split(' ').nth(2).and_then(|s| s.parse().ok()).unwrap_or(0);
        Box::new(ConfigCase {
            id,
            left: 4,
            systematic: true,
            feats: Vec::new(),
            oracle: Vec::new(),
            nontrivial: false,
        })
    }
}
