//! C14: the buffer trait implementations obey the pointer/length/initialisation laws.
//!
//! In-process calls of the real `Buf`, `BufMut`, `BufSlice` and `BufMutSlice`
//! implementations of a10: `Vec<u8>`, boxes, strings, static and shared
//! slices, `Cow`, `StaticBuf`, pool `ReadBuf`s (assigned through a simulated
//! buffer-select read, or unassigned), arrays `[B; N]`, tuples of arity 2..8,
//! `LimitedBuf` for all four traits, `IoSlice::new`,
//! `IoMutSlice::{len,set_len}`.
//!
//! A case describes one object (a tree of wrappers over base buffers); the
//! harness builds it out of the real a10 types. Run-time composition uses
//! thin forwarding adapters (`DB`, `DM`, `DS<N>`, `DMS<N>`: a boxed trait
//! object that forwards every trait method to the real implementation
//! underneath), so `LimitedBuf<…>`, `[…; N]` and `(…, …)` are a10's own code
//! instantiated with those adapters. The `caps` op uses the concrete types
//! `[Vec<u8>; N]` / `(Vec<u8>, …)` directly, with untouched vectors of up to
//! 8 GiB.
//!
//! Pointers are printed as `<leaf>:<offset>:<len>` relative to the allocation
//! of the base buffer they fall into.
//!
//! The crate private wrappers are reached indirectly: `SkipBuf` through
//! `AsyncFd::write_all` and `ReadNBuf` through `AsyncFd::read_n` on the
//! simulated kernel (ops `wall` / `rdn`: the address/length of every
//! submission is `SkipBuf::parts()` / `ReadNBuf::parts_mut()`, every
//! completion goes through `ReadNBuf::set_init`). `IoSlice::{set_len,skip}`
//! are covered by the Lean model and theorems only.
//! The crate private `BufMut::parts()` / `buffer_init()` of `ReadBuf` and of
//! `LimitedBuf` around it are reached through `AsyncFd::read` on the concrete
//! types (op `rdp`: did the submission ask for buffer selection, how much may the
//! kernel store, what does the buffer hold afterwards).
//!
//! Oracle (independent of the Lean model; the harness knows every base
//! buffer's address, capacity and bytes): exposed pairs inside the buffer's own
//! initialised bytes (read) / spare capacity (write); `len`/`is_empty`/
//! `spare_capacity`/`has_spare_capacity`/`total_len`/`total_spare_capacity`
//! equal to what the pairs say; after `set_init(n)` / `extend_from_slice`
//! every buffer kept its bytes and the appended bytes are, in order, the first
//! `n` bytes that were in the exposed regions; marked + exposed never exceeds
//! a `LimitedBuf` limit; `write_all` / `read_n` submit exactly the unwritten
//! tail / the spare capacity.

use std::borrow::Cow;
use std::cell::RefCell;
use std::rc::Rc;
use std::sync::Arc;

use a10::io::{
    Buf, BufMut, BufMutSlice, BufSlice, IoMutSlice, IoSlice, LimitedBuf, ReadBuf, ReadBufPool, StaticBuf,
};

use crate::comp::{Case, CaseReport, Comp};
use crate::simk::{self, EnterScript, PostSpec, Target};
use crate::util::{self, catch, hex, Rng};

pub struct BufsComp;

const FILL: u8 = 0xee;
const MAX_CAP: usize = 1 << 20;
const MAX_POOL_BUF: usize = 1 << 16;
/// Largest capacity of the (never touched) vectors of a `caps` op.
const MAX_HUGE: usize = 1 << 33;

// ---------------------------------------------------------------- adapters --

trait DynBuf {
    unsafe fn d_parts(&self) -> (*const u8, u32);
    fn d_len(&self) -> usize;
    fn d_is_empty(&self) -> bool;
    fn d_as_slice(&self) -> &[u8];
}

impl<B: Buf> DynBuf for B {
    unsafe fn d_parts(&self) -> (*const u8, u32) {
        unsafe { Buf::parts(self) }
    }
    fn d_len(&self) -> usize {
        Buf::len(self)
    }
    fn d_is_empty(&self) -> bool {
        Buf::is_empty(self)
    }
    fn d_as_slice(&self) -> &[u8] {
        Buf::as_slice(self)
    }
}

/// Any `Buf`, boxed.
struct DB(Box<dyn DynBuf>);

// SAFETY: forwards to an implementation of `Buf`.
unsafe impl Buf for DB {
    unsafe fn parts(&self) -> (*const u8, u32) {
        unsafe { self.0.d_parts() }
    }
    fn len(&self) -> usize {
        self.0.d_len()
    }
    fn is_empty(&self) -> bool {
        self.0.d_is_empty()
    }
    fn as_slice(&self) -> &[u8] {
        self.0.d_as_slice()
    }
}

trait DynMut {
    unsafe fn d_parts_mut(&mut self) -> (*mut u8, u32);
    unsafe fn d_set_init(&mut self, n: usize);
    fn d_spare(&self) -> u32;
    fn d_has(&self) -> bool;
    fn d_extend(&mut self, bytes: &[u8]) -> usize;
}

impl<B: BufMut> DynMut for B {
    unsafe fn d_parts_mut(&mut self) -> (*mut u8, u32) {
        unsafe { BufMut::parts_mut(self) }
    }
    unsafe fn d_set_init(&mut self, n: usize) {
        unsafe { BufMut::set_init(self, n) }
    }
    fn d_spare(&self) -> u32 {
        BufMut::spare_capacity(self)
    }
    fn d_has(&self) -> bool {
        BufMut::has_spare_capacity(self)
    }
    fn d_extend(&mut self, bytes: &[u8]) -> usize {
        BufMut::extend_from_slice(self, bytes)
    }
}

/// Any `BufMut`, boxed.
struct DM(Box<dyn DynMut>);

// SAFETY: forwards to an implementation of `BufMut`.
unsafe impl BufMut for DM {
    unsafe fn parts_mut(&mut self) -> (*mut u8, u32) {
        unsafe { self.0.d_parts_mut() }
    }
    unsafe fn set_init(&mut self, n: usize) {
        unsafe { self.0.d_set_init(n) }
    }
    fn spare_capacity(&self) -> u32 {
        self.0.d_spare()
    }
    fn has_spare_capacity(&self) -> bool {
        self.0.d_has()
    }
    fn extend_from_slice(&mut self, bytes: &[u8]) -> usize {
        self.0.d_extend(bytes)
    }
}

/// A `Vec<u8>` the harness can still look at after it has been wrapped.
/// Every method is a10's `impl BufMut for Vec<u8>`.
struct VLeaf(Rc<RefCell<Vec<u8>>>);

// SAFETY: forwards to `Vec<u8>`.
unsafe impl BufMut for VLeaf {
    unsafe fn parts_mut(&mut self) -> (*mut u8, u32) {
        unsafe { BufMut::parts_mut(&mut *self.0.borrow_mut()) }
    }
    unsafe fn set_init(&mut self, n: usize) {
        unsafe { BufMut::set_init(&mut *self.0.borrow_mut(), n) }
    }
    fn spare_capacity(&self) -> u32 {
        BufMut::spare_capacity(&*self.0.borrow())
    }
    fn has_spare_capacity(&self) -> bool {
        BufMut::has_spare_capacity(&*self.0.borrow())
    }
    fn extend_from_slice(&mut self, bytes: &[u8]) -> usize {
        BufMut::extend_from_slice(&mut *self.0.borrow_mut(), bytes)
    }
}

/// A pool `ReadBuf` the harness can still look at after it has been wrapped.
/// Every method is a10's `impl BufMut for ReadBuf`.
struct PLeaf(Rc<RefCell<ReadBuf>>);

// SAFETY: forwards to `ReadBuf`.
unsafe impl BufMut for PLeaf {
    unsafe fn parts_mut(&mut self) -> (*mut u8, u32) {
        unsafe { BufMut::parts_mut(&mut *self.0.borrow_mut()) }
    }
    unsafe fn set_init(&mut self, n: usize) {
        unsafe { BufMut::set_init(&mut *self.0.borrow_mut(), n) }
    }
    fn spare_capacity(&self) -> u32 {
        BufMut::spare_capacity(&*self.0.borrow())
    }
    fn has_spare_capacity(&self) -> bool {
        BufMut::has_spare_capacity(&*self.0.borrow())
    }
    fn extend_from_slice(&mut self, bytes: &[u8]) -> usize {
        BufMut::extend_from_slice(&mut *self.0.borrow_mut(), bytes)
    }
}

trait DynSl<const N: usize> {
    unsafe fn d_iovecs(&self) -> [IoSlice; N];
    fn d_total(&self) -> usize;
    fn d_empty(&self) -> bool;
}

impl<const N: usize, T: BufSlice<N>> DynSl<N> for T {
    unsafe fn d_iovecs(&self) -> [IoSlice; N] {
        unsafe { BufSlice::as_iovecs(self) }
    }
    fn d_total(&self) -> usize {
        BufSlice::total_len(self)
    }
    fn d_empty(&self) -> bool {
        BufSlice::is_empty(self)
    }
}

/// Any `BufSlice<N>`, boxed.
struct DS<const N: usize>(Box<dyn DynSl<N>>);

// SAFETY: forwards to an implementation of `BufSlice<N>`.
unsafe impl<const N: usize> BufSlice<N> for DS<N> {
    unsafe fn as_iovecs(&self) -> [IoSlice; N] {
        unsafe { self.0.d_iovecs() }
    }
    fn total_len(&self) -> usize {
        self.0.d_total()
    }
    fn is_empty(&self) -> bool {
        self.0.d_empty()
    }
}

trait DynMSl<const N: usize> {
    unsafe fn d_iovecs_mut(&mut self) -> [IoMutSlice; N];
    unsafe fn d_set_init(&mut self, n: usize);
    fn d_total_spare(&self) -> u32;
    fn d_has(&self) -> bool;
    fn d_extend(&mut self, bytes: &[u8]) -> usize;
}

impl<const N: usize, T: BufMutSlice<N>> DynMSl<N> for T {
    unsafe fn d_iovecs_mut(&mut self) -> [IoMutSlice; N] {
        unsafe { BufMutSlice::as_iovecs_mut(self) }
    }
    unsafe fn d_set_init(&mut self, n: usize) {
        unsafe { BufMutSlice::set_init(self, n) }
    }
    fn d_total_spare(&self) -> u32 {
        BufMutSlice::total_spare_capacity(self)
    }
    fn d_has(&self) -> bool {
        BufMutSlice::has_spare_capacity(self)
    }
    fn d_extend(&mut self, bytes: &[u8]) -> usize {
        BufMutSlice::extend_from_slice(self, bytes)
    }
}

/// Any `BufMutSlice<N>`, boxed.
struct DMS<const N: usize>(Box<dyn DynMSl<N>>);

// SAFETY: forwards to an implementation of `BufMutSlice<N>`.
unsafe impl<const N: usize> BufMutSlice<N> for DMS<N> {
    unsafe fn as_iovecs_mut(&mut self) -> [IoMutSlice; N] {
        unsafe { self.0.d_iovecs_mut() }
    }
    unsafe fn set_init(&mut self, n: usize) {
        unsafe { self.0.d_set_init(n) }
    }
    fn total_spare_capacity(&self) -> u32 {
        self.0.d_total_spare()
    }
    fn has_spare_capacity(&self) -> bool {
        self.0.d_has()
    }
    fn extend_from_slice(&mut self, bytes: &[u8]) -> usize {
        self.0.d_extend(bytes)
    }
}

/// The raw `(iov_base, iov_len)` of an `IoSlice` / `IoMutSlice` (wrappers
/// around `libc::iovec`; a10 itself casts slices of them to `*mut iovec`).
fn iov_raw<T>(x: &T) -> (usize, usize) {
    assert_eq!(size_of::<T>(), size_of::<libc::iovec>());
    let v: libc::iovec = unsafe { std::mem::transmute_copy(x) };
    (v.iov_base as usize, v.iov_len)
}

/// Object of a `slice` case, arity erased.
trait AnySl {
    fn iovecs(&self) -> Vec<(usize, usize)>;
    fn total(&self) -> usize;
    fn empty(&self) -> bool;
}

impl<const N: usize> AnySl for DS<N> {
    fn iovecs(&self) -> Vec<(usize, usize)> {
        let v = unsafe { BufSlice::as_iovecs(self) };
        v.iter().map(iov_raw).collect()
    }
    fn total(&self) -> usize {
        BufSlice::total_len(self)
    }
    fn empty(&self) -> bool {
        BufSlice::is_empty(self)
    }
}

/// Object of a `mutslice` case, arity erased.
trait AnyMSl {
    /// The iovecs, plus whether `IoMutSlice::len` / `set_len` behaved.
    fn iovecs_mut(&mut self) -> (Vec<(usize, usize)>, bool);
    fn set_init(&mut self, n: usize);
    fn total_spare(&self) -> u32;
    fn has(&self) -> bool;
    fn extend(&mut self, bytes: &[u8]) -> usize;
}

impl<const N: usize> AnyMSl for DMS<N> {
    fn iovecs_mut(&mut self) -> (Vec<(usize, usize)>, bool) {
        let mut v = unsafe { BufMutSlice::as_iovecs_mut(self) };
        let raw: Vec<(usize, usize)> = v.iter().map(iov_raw).collect();
        let mut ok = true;
        for (iov, r) in v.iter_mut().zip(raw.iter()) {
            ok &= iov.len() == r.1;
            // `IoMutSlice::set_len` is a plain store of the length.
            unsafe { iov.set_len(r.1 / 2) };
            ok &= iov.len() == r.1 / 2 && iov_raw(iov) == (r.0, r.1 / 2);
        }
        (raw, ok)
    }
    fn set_init(&mut self, n: usize) {
        unsafe { BufMutSlice::set_init(self, n) }
    }
    fn total_spare(&self) -> u32 {
        BufMutSlice::total_spare_capacity(self)
    }
    fn has(&self) -> bool {
        BufMutSlice::has_spare_capacity(self)
    }
    fn extend(&mut self, bytes: &[u8]) -> usize {
        BufMutSlice::extend_from_slice(self, bytes)
    }
}

/// Tuples need their arity at the type level.
trait Tup<const N: usize> {
    fn rs(v: Vec<DB>) -> DS<N>;
    fn ms(v: Vec<DM>) -> DMS<N>;
}

struct K;

impl Tup<0> for K {
    fn rs(_: Vec<DB>) -> DS<0> {
        unreachable!()
    }
    fn ms(_: Vec<DM>) -> DMS<0> {
        unreachable!()
    }
}

impl Tup<1> for K {
    fn rs(_: Vec<DB>) -> DS<1> {
        unreachable!()
    }
    fn ms(_: Vec<DM>) -> DMS<1> {
        unreachable!()
    }
}

macro_rules! tup_impl {
    ($n:literal; $($x:ident),+) => {
        impl Tup<$n> for K {
            fn rs(v: Vec<DB>) -> DS<$n> {
                let mut it = v.into_iter();
                $( let $x = it.next().unwrap(); )+
                DS(Box::new(($($x),+)))
            }
            fn ms(v: Vec<DM>) -> DMS<$n> {
                let mut it = v.into_iter();
                $( let $x = it.next().unwrap(); )+
                DMS(Box::new(($($x),+)))
            }
        }
    };
}

tup_impl!(2; a, b);
tup_impl!(3; a, b, c);
tup_impl!(4; a, b, c, d);
tup_impl!(5; a, b, c, d, e);
tup_impl!(6; a, b, c, d, e, f);
tup_impl!(7; a, b, c, d, e, f, g);
tup_impl!(8; a, b, c, d, e, f, g, h);

// ------------------------------------------------- huge (untouched) vectors --

/// An empty `Vec<u8>` of capacity `cap` whose memory is never touched: small
/// ones come from the allocator, large ones are backed by an anonymous
/// `MAP_NORESERVE` mapping (so that neither the allocation nor the tracking
/// allocator's poison-on-free commits gigabytes). `give_back` must be called
/// instead of dropping.
struct Untouched {
    v: Vec<u8>,
    map: Option<(usize, usize)>,
}

impl Untouched {
    fn new(cap: usize) -> Option<Untouched> {
        if cap < (1 << 20) {
            return Some(Untouched { v: Vec::with_capacity(cap), map: None });
        }
        let p = unsafe {
            libc::mmap(
                std::ptr::null_mut(),
                cap,
                libc::PROT_READ | libc::PROT_WRITE,
                libc::MAP_PRIVATE | libc::MAP_ANONYMOUS | libc::MAP_NORESERVE,
                -1,
                0,
            )
        };
        if p == libc::MAP_FAILED {
            return None;
        }
        // Never grown, never dropped as a `Vec` (see `give_back`).
        let v = unsafe { Vec::from_raw_parts(p.cast::<u8>(), 0, cap) };
        Some(Untouched { v, map: Some((p as usize, cap)) })
    }
}

fn give_back(vs: Vec<Vec<u8>>, maps: &[Option<(usize, usize)>]) {
    for (v, m) in vs.into_iter().zip(maps) {
        match m {
            Some((p, n)) => {
                std::mem::forget(v);
                unsafe { libc::munmap(*p as *mut libc::c_void, *n) };
            }
            None => drop(v),
        }
    }
}

/// What a plain array / tuple of empty vectors reports.
struct CapsRow {
    spares: Vec<u32>,
    iov: Vec<(usize, usize)>,
    total: Result<u32, String>,
    has: bool,
    back: Vec<Vec<u8>>,
}

fn caps_arr<const N: usize>(vs: Vec<Vec<u8>>, limit: Option<usize>) -> CapsRow {
    let mut a: [Vec<u8>; N] = vs.try_into().unwrap_or_else(|_| unreachable!());
    let spares = a.iter().map(BufMut::spare_capacity).collect();
    match limit {
        None => {
            let iov = unsafe { a.as_iovecs_mut() }.iter().map(iov_raw).collect();
            let total = catch(|| a.total_spare_capacity());
            let has = BufMutSlice::has_spare_capacity(&a);
            CapsRow { spares, iov, total, has, back: a.into_iter().collect() }
        }
        Some(l) => {
            // a10's own `LimitedBuf<[Vec<u8>; N]>`
            let mut lim = BufMutSlice::<N>::limit(a, l);
            let iov = unsafe { BufMutSlice::<N>::as_iovecs_mut(&mut lim) }.iter().map(iov_raw).collect();
            let total = catch(|| BufMutSlice::<N>::total_spare_capacity(&lim));
            let has = BufMutSlice::<N>::has_spare_capacity(&lim);
            CapsRow { spares, iov, total, has, back: lim.into_inner().into_iter().collect() }
        }
    }
}

macro_rules! caps_tup {
    ($name:ident, $n:literal; $($x:ident),+) => {
        fn $name(vs: Vec<Vec<u8>>, limit: Option<usize>) -> CapsRow {
            let mut it = vs.into_iter();
            $( let $x = it.next().unwrap(); )+
            let mut t = ($($x),+);
            let (iov, total, has, t) = match limit {
                None => {
                    let iov = unsafe { BufMutSlice::<$n>::as_iovecs_mut(&mut t) }.iter().map(iov_raw).collect();
                    let total = catch(|| BufMutSlice::<$n>::total_spare_capacity(&t));
                    let has = BufMutSlice::<$n>::has_spare_capacity(&t);
                    (iov, total, has, t)
                }
                Some(l) => {
                    let mut lim = BufMutSlice::<$n>::limit(t, l);
                    let iov = unsafe { BufMutSlice::<$n>::as_iovecs_mut(&mut lim) }.iter().map(iov_raw).collect();
                    let total = catch(|| BufMutSlice::<$n>::total_spare_capacity(&lim));
                    let has = BufMutSlice::<$n>::has_spare_capacity(&lim);
                    (iov, total, has, lim.into_inner())
                }
            };
            let ($($x),+) = t;
            let back: Vec<Vec<u8>> = vec![$($x),+];
            let spares = back.iter().map(BufMut::spare_capacity).collect();
            CapsRow { spares, iov, total, has, back }
        }
    };
}

caps_tup!(caps_tup2, 2; a, b);
caps_tup!(caps_tup3, 3; a, b, c);
caps_tup!(caps_tup4, 4; a, b, c, d);
caps_tup!(caps_tup5, 5; a, b, c, d, e);
caps_tup!(caps_tup6, 6; a, b, c, d, e, f);
caps_tup!(caps_tup7, 7; a, b, c, d, e, f, g);
caps_tup!(caps_tup8, 8; a, b, c, d, e, f, g, h);

// ------------------------------------------------------------ descriptions --

#[derive(Clone, Debug)]
enum RDesc {
    Leaf { kind: String, bytes: Vec<u8> },
    /// A `ReadBuf` of a pool with buffers of `cap` bytes; `None` = not assigned.
    Pool { cap: usize, bytes: Option<Vec<u8>> },
    Lim(usize, Box<RDesc>),
}

#[derive(Clone, Debug)]
enum MDesc {
    Vec { cap: usize, bytes: Vec<u8> },
    Pool { cap: usize, bytes: Option<Vec<u8>> },
    Lim(usize, Box<MDesc>),
}

#[derive(Clone, Debug)]
enum SDesc<E> {
    Arr { tuple: bool, elems: Vec<E> },
    Lim(usize, Box<SDesc<E>>),
}

const RKINDS: [(&str, bool); 14] = [
    ("vec", false),
    ("box", false),
    ("static", false),
    ("cowb", false),
    ("cowo", false),
    ("arc", false),
    ("sbuf", false),
    ("string", true),
    ("boxstr", true),
    ("staticstr", true),
    ("cowsb", true),
    ("cowso", true),
    ("arcstr", true),
    ("sbufstr", true),
];

fn hexs(b: &[u8]) -> String {
    if b.is_empty() { "-".into() } else { hex(b) }
}

fn unhex(s: &str) -> Option<Vec<u8>> {
    if s == "-" {
        return Some(Vec::new());
    }
    let b = s.as_bytes();
    if b.is_empty() || b.len() % 2 != 0 {
        return None;
    }
    let d = |c: u8| match c {
        b'0'..=b'9' => Some(c - b'0'),
        b'a'..=b'f' => Some(c - b'a' + 10),
        _ => None,
    };
    b.chunks(2).map(|p| Some(d(p[0])? * 16 + d(p[1])?)).collect()
}

/// Comma separated list; `.` is the empty list.
fn parse_list<T>(s: &str, f: fn(&str) -> Option<T>) -> Option<Vec<T>> {
    if s == "." {
        return Some(Vec::new());
    }
    s.split(',').map(f).collect()
}

fn dec_usize(s: &str) -> Option<usize> {
    if s.is_empty() || s.len() > 20 || !s.bytes().all(|c| c.is_ascii_digit()) {
        return None;
    }
    s.parse::<u64>().ok().map(|x| x as usize)
}

struct Toks<'a> {
    t: &'a [&'a str],
    i: usize,
}

impl<'a> Toks<'a> {
    fn next(&mut self) -> Option<&'a str> {
        let x = self.t.get(self.i).copied();
        self.i += 1;
        x
    }
    fn done(&self) -> bool {
        self.i == self.t.len()
    }
}

/// `pool <cap> <hex>` / `pool0 <cap>`. Outer `None` = malformed.
#[allow(clippy::type_complexity)]
fn parse_pool(k: &str, p: &mut Toks) -> Option<Option<(usize, Option<Vec<u8>>)>> {
    if k != "pool" && k != "pool0" {
        return Some(None);
    }
    let cap = dec_usize(p.next()?)?;
    if cap == 0 || cap > MAX_POOL_BUF {
        return None;
    }
    if k == "pool0" {
        return Some(Some((cap, None)));
    }
    let bytes = unhex(p.next()?)?;
    if bytes.len() > cap {
        return None;
    }
    Some(Some((cap, Some(bytes))))
}

fn parse_r(p: &mut Toks) -> Option<RDesc> {
    let k = p.next()?;
    if k == "lim" {
        let l = dec_usize(p.next()?)?;
        return Some(RDesc::Lim(l, Box::new(parse_r(p)?)));
    }
    if let Some((cap, bytes)) = parse_pool(k, p)? {
        return Some(RDesc::Pool { cap, bytes });
    }
    let is_str = RKINDS.iter().find(|x| x.0 == k)?.1;
    let bytes = unhex(p.next()?)?;
    if is_str && bytes.iter().any(|b| *b >= 128) {
        return None;
    }
    Some(RDesc::Leaf { kind: k.to_string(), bytes })
}

fn parse_m(p: &mut Toks) -> Option<MDesc> {
    let k = p.next()?;
    if k == "lim" {
        let l = dec_usize(p.next()?)?;
        return Some(MDesc::Lim(l, Box::new(parse_m(p)?)));
    }
    if let Some((cap, bytes)) = parse_pool(k, p)? {
        return Some(MDesc::Pool { cap, bytes });
    }
    if k != "vec" {
        return None;
    }
    let cap = dec_usize(p.next()?)?;
    let bytes = unhex(p.next()?)?;
    if bytes.len() > cap || cap > MAX_CAP {
        return None;
    }
    Some(MDesc::Vec { cap, bytes })
}

fn parse_s<E>(p: &mut Toks, elem: fn(&mut Toks) -> Option<E>) -> Option<SDesc<E>> {
    let k = p.next()?;
    if k == "lim" {
        let l = dec_usize(p.next()?)?;
        return Some(SDesc::Lim(l, Box::new(parse_s(p, elem)?)));
    }
    let n = dec_usize(p.next()?)?;
    let tuple = match k {
        "arr" if n <= 8 => false,
        "tup" if (2..=8).contains(&n) => true,
        _ => return None,
    };
    let mut elems = Vec::new();
    for _ in 0..n {
        elems.push(elem(p)?);
    }
    Some(SDesc::Arr { tuple, elems })
}

fn show_r(d: &RDesc) -> String {
    match d {
        RDesc::Leaf { kind, bytes } => format!("{kind} {}", hexs(bytes)),
        RDesc::Pool { cap, bytes: Some(b) } => format!("pool {cap} {}", hexs(b)),
        RDesc::Pool { cap, bytes: None } => format!("pool0 {cap}"),
        RDesc::Lim(l, i) => format!("lim {l} {}", show_r(i)),
    }
}

fn show_m(d: &MDesc) -> String {
    match d {
        MDesc::Vec { cap, bytes } => format!("vec {cap} {}", hexs(bytes)),
        MDesc::Pool { cap, bytes: Some(b) } => format!("pool {cap} {}", hexs(b)),
        MDesc::Pool { cap, bytes: None } => format!("pool0 {cap}"),
        MDesc::Lim(l, i) => format!("lim {l} {}", show_m(i)),
    }
}

fn show_s<E>(d: &SDesc<E>, f: fn(&E) -> String) -> String {
    match d {
        SDesc::Arr { tuple, elems } => {
            let mut s = format!("{} {}", if *tuple { "tup" } else { "arr" }, elems.len());
            for e in elems {
                s.push(' ');
                s.push_str(&f(e));
            }
            s
        }
        SDesc::Lim(l, i) => format!("lim {l} {}", show_s(i, f)),
    }
}

// ------------------------------------------------------------------ leaves --

/// What the harness knows about one base buffer, independently of a10.
struct Leaf {
    /// Address of the first byte.
    base: usize,
    /// Size of the allocation usable by the buffer (`capacity()` for a `Vec`,
    /// the length for everything else).
    cap: usize,
    /// Bytes the buffer held when it was created.
    bytes: Vec<u8>,
    /// The buffer itself (mutable side).
    cell: LeafCell,
    /// A buffer without memory (`ReadBuf` not assigned): null / dangling
    /// pointers with length 0 are all it may expose.
    nomem: bool,
    /// The tightest `LimitedBuf` limit wrapped directly around this leaf.
    limit: Option<usize>,
}

enum LeafCell {
    /// Read side: nothing changes.
    Fixed,
    Vec(Rc<RefCell<Vec<u8>>>),
    Pool(Rc<RefCell<ReadBuf>>),
}

impl Leaf {
    fn is_mut(&self) -> bool {
        !matches!(self.cell, LeafCell::Fixed)
    }
    fn cur_len(&self) -> usize {
        match &self.cell {
            LeafCell::Vec(v) => v.borrow().len(),
            LeafCell::Pool(b) => b.borrow().len(),
            LeafCell::Fixed => self.bytes.len(),
        }
    }
    /// The bytes the buffer holds now (never reads past the allocation).
    fn contents(&self) -> Vec<u8> {
        let n = self.cur_len().min(self.cap);
        match &self.cell {
            LeafCell::Vec(_) | LeafCell::Pool(_) => {
                if self.nomem {
                    return Vec::new();
                }
                unsafe { std::slice::from_raw_parts(self.base as *const u8, n) }.to_vec()
            }
            LeafCell::Fixed => self.bytes.clone(),
        }
    }
}

/// The ring, descriptor and pools behind the `ReadBuf`s of a case (simulated
/// kernel).
struct PoolCtx {
    pools: Vec<ReadBufPool>,
    fd: a10::AsyncFd,
    ring: a10::Ring,
    ring_fd: i32,
}

impl PoolCtx {
    fn new() -> Option<PoolCtx> {
        simk::activate(simk::SetupCfg::default());
        let ring = a10::Ring::config().with_submission_queue_size(8).build().ok()?;
        let ring_fd = simk::with_sim(|s| s.rings.keys().next().copied())?;
        let fd = unsafe {
            a10::AsyncFd::from_raw_fd(simk::with_ring(ring_fd, |r, _| r.fresh_fd()), ring.sq())
        };
        Some(PoolCtx { pools: Vec::new(), fd, ring, ring_fd })
    }

    /// A `ReadBuf` of a fresh pool with `cap` byte buffers; `Some(data)`: the
    /// kernel selected a buffer for a read and stored `data` in it.
    fn read_buf(&mut self, cap: usize, data: Option<&[u8]>) -> Option<ReadBuf> {
        use std::future::Future;
        let pool = ReadBufPool::new(self.ring.sq(), 2, cap as u32).ok()?;
        let buf = match data {
            None => pool.get(),
            Some(data) => {
                let mut fut = Box::pin(self.fd.read(pool.get()));
                let w = util::waker(0);
                let mut cx = std::task::Context::from_waker(&w);
                if fut.as_mut().poll(&mut cx).is_ready() {
                    return None;
                }
                simk::with_ring(self.ring_fd, |r, _| {
                    r.enter_scripts.push_back(EnterScript {
                        post: vec![PostSpec {
                            target: Target::Nth(0),
                            res: data.len() as i32,
                            flags: 0,
                            data: Some(data.to_vec()),
                            select_buf: true,
                        }],
                        ..Default::default()
                    })
                });
                self.ring.poll(Some(std::time::Duration::ZERO)).ok()?;
                let std::task::Poll::Ready(Ok(mut buf)) = fut.as_mut().poll(&mut cx) else {
                    return None;
                };
                // Known bytes in the rest of the pool buffer.
                for s in buf.spare_capacity_mut() {
                    s.write(FILL);
                }
                buf
            }
        };
        self.pools.push(pool);
        Some(buf)
    }
}

#[derive(Default)]
struct Build {
    leaves: Vec<Leaf>,
    pool: Option<PoolCtx>,
    /// The simulated kernel did not do what the harness asked.
    broken: bool,
    /// Leaked `'static` data, given back when the case ends.
    leaked: Vec<(*mut u8, usize)>,
}

impl Build {
    fn leak(&mut self, bytes: &[u8]) -> &'static [u8] {
        let b: &'static mut [u8] = Box::leak(bytes.to_vec().into_boxed_slice());
        self.leaked.push((b.as_mut_ptr(), b.len()));
        b
    }

    fn leak_str(&mut self, bytes: &[u8]) -> &'static str {
        // ASCII only (checked by the parser).
        std::str::from_utf8(self.leak(bytes)).unwrap()
    }

    fn read_leaf(&mut self, kind: &str, bytes: &[u8]) -> DB {
        let extra = (bytes.len() * 7 + 3) % 5;
        let string = |extra: usize| {
            let mut s = String::with_capacity(bytes.len() + extra);
            s.push_str(std::str::from_utf8(bytes).unwrap());
            s
        };
        let (db, base): (DB, usize) = match kind {
            "vec" => {
                let mut v = Vec::with_capacity(bytes.len() + extra);
                v.extend_from_slice(bytes);
                let p = v.as_ptr() as usize;
                (DB(Box::new(v)), p)
            }
            "box" => {
                let b: Box<[u8]> = bytes.to_vec().into_boxed_slice();
                let p = b.as_ptr() as usize;
                (DB(Box::new(b)), p)
            }
            "string" => {
                let s = string(extra);
                let p = s.as_ptr() as usize;
                (DB(Box::new(s)), p)
            }
            "boxstr" => {
                let s: Box<str> = string(0).into_boxed_str();
                let p = s.as_ptr() as usize;
                (DB(Box::new(s)), p)
            }
            "static" => {
                let s = self.leak(bytes);
                (DB(Box::new(s)), s.as_ptr() as usize)
            }
            "staticstr" => {
                let s = self.leak_str(bytes);
                (DB(Box::new(s)), s.as_ptr() as usize)
            }
            "cowb" => {
                let s = self.leak(bytes);
                let c: Cow<'static, [u8]> = Cow::Borrowed(s);
                (DB(Box::new(c)), s.as_ptr() as usize)
            }
            "cowo" => {
                let mut v = Vec::with_capacity(bytes.len() + extra);
                v.extend_from_slice(bytes);
                let p = v.as_ptr() as usize;
                let c: Cow<'static, [u8]> = Cow::Owned(v);
                (DB(Box::new(c)), p)
            }
            "cowsb" => {
                let s = self.leak_str(bytes);
                let c: Cow<'static, str> = Cow::Borrowed(s);
                (DB(Box::new(c)), s.as_ptr() as usize)
            }
            "cowso" => {
                let s = string(extra);
                let p = s.as_ptr() as usize;
                let c: Cow<'static, str> = Cow::Owned(s);
                (DB(Box::new(c)), p)
            }
            "arc" => {
                let a: Arc<[u8]> = Arc::from(bytes);
                let p = a.as_ptr() as usize;
                (DB(Box::new(a)), p)
            }
            "arcstr" => {
                let a: Arc<str> = Arc::from(std::str::from_utf8(bytes).unwrap());
                let p = a.as_ptr() as usize;
                (DB(Box::new(a)), p)
            }
            "sbuf" => {
                let s = self.leak(bytes);
                (DB(Box::new(StaticBuf::from(s))), s.as_ptr() as usize)
            }
            "sbufstr" => {
                let s = self.leak_str(bytes);
                (DB(Box::new(StaticBuf::from(s))), s.as_ptr() as usize)
            }
            _ => unreachable!(),
        };
        self.leaves.push(Leaf { base, cap: bytes.len(), bytes: bytes.to_vec(), cell: LeafCell::Fixed, nomem: false, limit: None });
        db
    }

    fn pool_buf(&mut self, cap: usize, data: Option<&[u8]>) -> ReadBuf {
        if self.pool.is_none() {
            self.pool = PoolCtx::new();
        }
        let ctx = self.pool.as_mut().expect("simulated ring");
        match ctx.read_buf(cap, data) {
            Some(b) if data.is_none_or(|d| b.as_slice() == d) => b,
            _ => {
                // Should not happen; the case reports it instead of going on.
                self.broken = true;
                ctx.read_buf(cap, None).expect("pool")
            }
        }
    }

    fn r(&mut self, d: &RDesc) -> DB {
        match d {
            RDesc::Leaf { kind, bytes } => self.read_leaf(kind, bytes),
            RDesc::Pool { cap, bytes } => {
                let buf = self.pool_buf(*cap, bytes.as_deref());
                let base = if bytes.is_some() { buf.as_slice().as_ptr() as usize } else { 0 };
                let held = bytes.clone().unwrap_or_default();
                self.leaves.push(Leaf { base, cap: held.len(), bytes: held, cell: LeafCell::Fixed, nomem: bytes.is_none(), limit: None });
                DB(Box::new(buf))
            }
            RDesc::Lim(l, inner) => {
                let b = self.r(inner);
                let leaf = self.leaves.last_mut().unwrap();
                leaf.limit = Some(leaf.limit.map_or(*l, |x| x.min(*l)));
                DB(Box::new(Buf::limit(b, *l)))
            }
        }
    }

    fn m(&mut self, d: &MDesc) -> DM {
        match d {
            MDesc::Vec { cap, bytes } => {
                let mut v: Vec<u8> = Vec::with_capacity(*cap);
                v.extend_from_slice(bytes);
                // Known bytes in the spare capacity, so that whatever
                // `set_init` uncovers is defined.
                for s in v.spare_capacity_mut() {
                    s.write(FILL);
                }
                let base = v.as_ptr() as usize;
                let cap = v.capacity();
                let rc = Rc::new(RefCell::new(v));
                self.leaves.push(Leaf { base, cap, bytes: bytes.clone(), cell: LeafCell::Vec(rc.clone()), nomem: false, limit: None });
                DM(Box::new(VLeaf(rc)))
            }
            MDesc::Pool { cap, bytes } => {
                let buf = self.pool_buf(*cap, bytes.as_deref());
                let base = if bytes.is_some() { buf.as_slice().as_ptr() as usize } else { 0 };
                let held = bytes.clone().unwrap_or_default();
                let rc = Rc::new(RefCell::new(buf));
                self.leaves.push(Leaf {
                    base,
                    cap: if bytes.is_some() { *cap } else { 0 },
                    bytes: held,
                    cell: LeafCell::Pool(rc.clone()),
                    nomem: bytes.is_none(),
                    limit: None,
                });
                DM(Box::new(PLeaf(rc)))
            }
            MDesc::Lim(l, inner) => {
                let b = self.m(inner);
                let leaf = self.leaves.last_mut().unwrap();
                leaf.limit = Some(leaf.limit.map_or(*l, |x| x.min(*l)));
                DM(Box::new(BufMut::limit(b, *l)))
            }
        }
    }

    fn rs<const N: usize>(&mut self, d: &SDesc<RDesc>) -> DS<N>
    where
        K: Tup<N>,
    {
        match d {
            SDesc::Arr { tuple, elems } => {
                let v: Vec<DB> = elems.iter().map(|e| self.r(e)).collect();
                if *tuple {
                    <K as Tup<N>>::rs(v)
                } else {
                    let a: [DB; N] = v.try_into().unwrap_or_else(|_| unreachable!());
                    DS(Box::new(a))
                }
            }
            SDesc::Lim(l, inner) => DS(Box::new(LimitedBuf::new(self.rs::<N>(inner), *l))),
        }
    }

    fn ms<const N: usize>(&mut self, d: &SDesc<MDesc>) -> DMS<N>
    where
        K: Tup<N>,
    {
        match d {
            SDesc::Arr { tuple, elems } => {
                let v: Vec<DM> = elems.iter().map(|e| self.m(e)).collect();
                if *tuple {
                    <K as Tup<N>>::ms(v)
                } else {
                    let a: [DM; N] = v.try_into().unwrap_or_else(|_| unreachable!());
                    DMS(Box::new(a))
                }
            }
            SDesc::Lim(l, inner) => DMS(Box::new(BufMutSlice::limit(self.ms::<N>(inner), *l))),
        }
    }
}

fn arity<E>(d: &SDesc<E>) -> usize {
    match d {
        SDesc::Arr { elems, .. } => elems.len(),
        SDesc::Lim(_, i) => arity(i),
    }
}

fn is_tuple<E>(d: &SDesc<E>) -> bool {
    match d {
        SDesc::Arr { tuple, .. } => *tuple,
        SDesc::Lim(_, i) => is_tuple(i),
    }
}

/// The tightest limit of the `LimitedBuf`s wrapped around the whole slice.
fn top_limit<E>(d: &SDesc<E>) -> Option<usize> {
    match d {
        SDesc::Arr { .. } => None,
        SDesc::Lim(l, i) => Some(top_limit(i).map_or(*l, |x| x.min(*l))),
    }
}

macro_rules! by_arity {
    ($n:expr, $f:ident, $b:expr, $d:expr, $t:ty) => {
        match $n {
            0 => Box::new($b.$f::<0>($d)) as Box<$t>,
            1 => Box::new($b.$f::<1>($d)) as Box<$t>,
            2 => Box::new($b.$f::<2>($d)) as Box<$t>,
            3 => Box::new($b.$f::<3>($d)) as Box<$t>,
            4 => Box::new($b.$f::<4>($d)) as Box<$t>,
            5 => Box::new($b.$f::<5>($d)) as Box<$t>,
            6 => Box::new($b.$f::<6>($d)) as Box<$t>,
            7 => Box::new($b.$f::<7>($d)) as Box<$t>,
            8 => Box::new($b.$f::<8>($d)) as Box<$t>,
            _ => unreachable!(),
        }
    };
}

enum Obj {
    None,
    R(DB),
    M(DM),
    RS(Box<dyn AnySl>),
    MS(Box<dyn AnyMSl>),
}

// -------------------------------------------------------------------- case --

struct BufsCase {
    obj: Obj,
    build: Build,
    /// Limit around the whole object (slices only; for single buffers the
    /// leaf's own `limit` is the same thing).
    top_limit: Option<usize>,
    arity: usize,
    /// Bytes marked initialised through legal `set_init` / `extend` calls.
    marked: usize,
    /// A caller error happened (`set_init` with more than was exposed): the
    /// limit accounting no longer applies.
    tainted: bool,
    /// Total exposed by the most recent exposure (for the generator).
    last_total: usize,
    // generator state
    started: bool,
    walled: bool,
    capsed: bool,
    rdped: bool,
    script: Vec<String>,
    pos: usize,
    dynamic: u32,
    mutable: bool,
    feats: Vec<String>,
    oracle: Vec<(String, String, String)>,
    nontrivial: bool,
}

impl Drop for BufsCase {
    fn drop(&mut self) {
        self.release();
    }
}

/// The `n` bytes at `p` (nothing is touched when `n == 0`, whatever `p` is).
fn peek(p: usize, n: usize) -> Vec<u8> {
    if n == 0 {
        return Vec::new();
    }
    unsafe { std::slice::from_raw_parts(p as *const u8, n) }.to_vec()
}

/// Where a pointer falls: `<leaf>:<offset>:<len>`; the leaf the pointer is
/// expected to belong to is tried first (end inclusive).
fn locate(leaves: &[Leaf], expected: usize, ptr: usize, len: usize) -> String {
    if ptr == 0 {
        return format!("null:{len}");
    }
    if let Some(l) = leaves.get(expected) {
        if l.nomem {
            // A dangling pointer of a buffer without memory.
            return format!("null:{len}");
        }
        if l.base <= ptr && ptr <= l.base + l.cap {
            return format!("{expected}:{}:{len}", ptr - l.base);
        }
    }
    for (i, l) in leaves.iter().enumerate() {
        if l.base <= ptr && ptr < l.base + l.cap {
            return format!("{i}:{}:{len}", ptr - l.base);
        }
    }
    format!("?:{len}")
}

impl BufsCase {
    /// Forget the current object and give back the data leaked for it.
    fn release(&mut self) {
        // Drop every user of the leaked data first.
        self.obj = Obj::None;
        for (p, n) in self.build.leaked.drain(..) {
            drop(unsafe { Box::from_raw(std::ptr::slice_from_raw_parts_mut(p, n)) });
        }
        // The leaves hold the pool buffers (which hold the ring).
        self.build.leaves.clear();
        if let Some(ctx) = self.build.pool.take() {
            let PoolCtx { pools, fd, ring, .. } = ctx;
            drop(pools);
            drop(fd);
            drop(ring);
            let _ = simk::drain_events();
            simk::reset();
        }
        self.build = Build::default();
        self.top_limit = None;
        self.arity = 1;
        self.marked = 0;
        self.tainted = false;
        self.last_total = 0;
        self.mutable = false;
        self.dynamic = 0;
    }

    fn fail(&mut self, sig: &str, what: String) {
        self.oracle.push(("C14".into(), format!("C14/{sig}"), what));
    }

    fn feat(&mut self, f: &str) {
        if !self.feats.iter().any(|x| x == f) {
            self.feats.push(f.to_string());
        }
    }

    /// Oracle: a readable pair lies inside the initialised bytes of its leaf.
    fn check_read_region(&mut self, i: usize, ptr: usize, len: usize, op: &str) -> bool {
        let Some(l) = self.build.leaves.get(i) else {
            self.fail("inside/read", format!("iovec {i} without a buffer ({op})"));
            return false;
        };
        let (base, n) = (l.base, l.bytes.len());
        let ok = if l.nomem { len == 0 } else { ptr != 0 && base <= ptr && ptr + len <= base + n };
        if !ok {
            self.fail(
                "inside/read",
                format!("buffer {i}: exposed ({:#x}, {len}) outside its {n} initialised bytes at {:#x} ({op})", ptr, base),
            );
        }
        ok
    }

    /// Oracle: a writable pair lies inside the spare capacity of its leaf.
    fn check_write_region(&mut self, i: usize, ptr: usize, len: usize, op: &str) -> bool {
        let Some(l) = self.build.leaves.get(i) else {
            self.fail("inside/write", format!("iovec {i} without a buffer ({op})"));
            return false;
        };
        let (base, cap, cur) = (l.base, l.cap, l.cur_len());
        let ok = if l.nomem { len == 0 } else { ptr != 0 && base + cur <= ptr && ptr + len <= base + cap };
        if !ok {
            self.fail(
                "inside/write",
                format!("buffer {i}: exposed ({:#x}, {len}) outside its spare capacity [{cur}, {cap}) at {:#x} ({op})", ptr, base),
            );
        }
        ok
    }

    /// Calls `parts_mut` / `as_iovecs_mut`; checks the regions and the limits.
    fn expose(&mut self, op: &str) -> Option<(Vec<(usize, usize)>, bool)> {
        let mut iov_ok = true;
        let regions: Vec<(usize, usize)> = match &mut self.obj {
            Obj::M(b) => {
                let (p, n) = unsafe { b.parts_mut() };
                vec![(p as usize, n as usize)]
            }
            Obj::MS(s) => {
                let (v, ok) = s.iovecs_mut();
                iov_ok = ok;
                v
            }
            _ => return None,
        };
        if !iov_ok {
            self.fail("iovec/set_len", format!("IoMutSlice::len/set_len inconsistent ({op})"));
        }
        let single = matches!(self.obj, Obj::M(_));
        let mut all_ok = true;
        for (i, (p, n)) in regions.clone().into_iter().enumerate() {
            all_ok &= self.check_write_region(i, p, n, op);
        }
        if regions.len() != self.build.leaves.len() {
            self.fail("inside/write", format!("{} iovecs for {} buffers ({op})", regions.len(), self.build.leaves.len()));
            all_ok = false;
        }
        for (i, l) in self.build.leaves.iter().enumerate() {
            if l.is_mut() && l.cur_len() > l.cap {
                self.oracle.push(("C14".into(), "C14/set_init/beyond-capacity".into(), format!("buffer {i}: length {} beyond its capacity {} ({op})", l.cur_len(), l.cap)));
                all_ok = false;
            }
        }
        let total: usize = regions.iter().map(|r| r.1).sum();
        self.last_total = total;
        if !self.tainted {
            // The limit is never exceeded: what was marked initialised so far
            // plus what is exposed now.
            let top = if single { self.build.leaves[0].limit } else { self.top_limit };
            if let Some(l) = top {
                if self.marked.saturating_add(total) > l {
                    let marked = self.marked;
                    self.fail("limit/exceeded", format!("limit {l}: {marked} bytes marked initialised and {total} more exposed ({op})"));
                }
            }
            if !single {
                for (i, r) in regions.iter().enumerate() {
                    let Some(leaf) = self.build.leaves.get(i) else { continue };
                    let Some(l) = leaf.limit else { continue };
                    let grown = leaf.cur_len().saturating_sub(leaf.bytes.len());
                    if grown.saturating_add(r.1) > l {
                        self.fail("limit/exceeded", format!("buffer {i} limit {l}: grew by {grown} and {} more exposed ({op})", r.1));
                    }
                }
            }
        }
        Some((regions, all_ok))
    }

    fn show_regions(&self, regions: &[(usize, usize)]) -> String {
        if regions.is_empty() {
            return "-".into();
        }
        regions
            .iter()
            .enumerate()
            .map(|(i, (p, n))| locate(&self.build.leaves, i, *p, *n))
            .collect::<Vec<_>>()
            .join(",")
    }

    fn contents(&self) -> String {
        if self.build.leaves.is_empty() {
            return "none".into();
        }
        self.build.leaves.iter().map(|l| hexs(&l.contents())).collect::<Vec<_>>().join("|")
    }

    fn q_buf(&mut self, op: &str) -> Vec<String> {
        let (p, n, len, empty) = {
            let Obj::R(b) = &self.obj else { unreachable!() };
            let (p, n) = unsafe { b.parts() };
            (p as usize, n as usize, b.len(), b.is_empty())
        };
        self.last_total = n;
        let ok = self.check_read_region(0, p, n, op);
        let bytes = if ok {
            let s = {
                let Obj::R(b) = &self.obj else { unreachable!() };
                b.as_slice().to_vec()
            };
            let direct = peek(p, n);
            if s != direct {
                self.fail("len/as_slice", format!("as_slice() differs from the bytes at parts() ({op})"));
            }
            let own = &self.build.leaves[0].bytes;
            if direct.len() > own.len() || direct[..] != own[..direct.len()] {
                self.fail("inside/read", format!("exposed bytes are not a prefix of the buffer ({op})"));
            }
            hexs(&direct)
        } else {
            "?".into()
        };
        if len != n {
            self.fail("len/len", format!("len() = {len} but parts().1 = {n} ({op})"));
        }
        if empty != (n == 0) {
            self.fail("len/is_empty", format!("is_empty() = {empty} but parts().1 = {n} ({op})"));
        }
        if let Some(l) = self.build.leaves[0].limit {
            if n > l || len > l {
                self.fail("limit/exceeded", format!("limit {l}: parts().1 = {n}, len() = {len} ({op})"));
            }
        }
        vec![format!(
            "parts={} len={len} empty={} bytes={bytes}",
            locate(&self.build.leaves, 0, p, n),
            empty as u8
        )]
    }

    fn q_slice(&mut self, op: &str) -> Vec<String> {
        let (regions, total, empty) = {
            let Obj::RS(s) = &self.obj else { unreachable!() };
            (s.iovecs(), s.total(), s.empty())
        };
        let mut bytes = Vec::new();
        let mut ok = regions.len() == self.build.leaves.len();
        if !ok {
            self.fail("inside/read", format!("{} iovecs for {} buffers ({op})", regions.len(), self.build.leaves.len()));
        }
        for (i, (p, n)) in regions.clone().into_iter().enumerate() {
            if self.check_read_region(i, p, n, op) {
                let direct = peek(p, n);
                if direct[..] != self.build.leaves[i].bytes[..n] {
                    self.fail("inside/read", format!("iovec {i} is not a prefix of its buffer ({op})"));
                }
                bytes.extend_from_slice(&direct);
            } else {
                ok = false;
            }
            if let Some(l) = self.build.leaves.get(i).and_then(|l| l.limit) {
                if n > l {
                    self.fail("limit/exceeded", format!("buffer {i} limit {l}: iovec of {n} bytes ({op})"));
                }
            }
        }
        let sum: usize = regions.iter().map(|r| r.1).sum();
        if total != sum {
            self.fail("len/total_len", format!("total_len() = {total} but the iovecs hold {sum} ({op})"));
        }
        if empty != (sum == 0) {
            self.fail("len/is_empty", format!("is_empty() = {empty} but the iovecs hold {sum} ({op})"));
        }
        if let Some(l) = self.top_limit {
            if sum > l || total > l {
                self.fail("limit/exceeded", format!("limit {l}: iovecs hold {sum}, total_len() = {total} ({op})"));
            }
        }
        vec![format!(
            "iovecs={} total={total} empty={} bytes={}",
            self.show_regions(&regions),
            empty as u8,
            if ok { hexs(&bytes) } else { "?".into() }
        )]
    }

    fn q_mut(&mut self, op: &str) -> Vec<String> {
        let (regions, _) = self.expose(op).unwrap();
        let sum: usize = regions.iter().map(|r| r.1).sum();
        let single = matches!(self.obj, Obj::M(_));
        let (spare, has) = match &self.obj {
            Obj::M(b) => (Ok(b.spare_capacity()), b.has_spare_capacity()),
            Obj::MS(s) => (catch(|| s.total_spare()), s.has()),
            _ => unreachable!(),
        };
        let name = if single { "spare_capacity" } else { "total_spare_capacity" };
        match &spare {
            Ok(x) if *x as usize != sum.min(u32::MAX as usize) => {
                self.fail("len/spare", format!("{name}() = {x} but {sum} bytes are exposed ({op})"));
            }
            Err(e) => self.fail("len/spare", format!("{name}() panicked: {e} ({op})")),
            _ => {}
        }
        if has != (sum != 0) {
            self.fail("len/has_spare", format!("has_spare_capacity() = {has} but {sum} bytes are exposed ({op})"));
        }
        let spare = spare.map_or("panic".to_string(), |x| x.to_string());
        let first = if single { "parts" } else { "iovecs" };
        vec![format!(
            "{first}={} spare={spare} has={} contents={}",
            self.show_regions(&regions),
            has as u8,
            self.contents()
        )]
    }

    fn q(&mut self, op: &str) -> Vec<String> {
        match &self.obj {
            Obj::None => vec!["bad-op".into()],
            Obj::R(_) => self.q_buf(op),
            Obj::RS(_) => self.q_slice(op),
            Obj::M(_) | Obj::MS(_) => self.q_mut(op),
        }
    }

    /// The kernel stores `data` front to back through the exposed regions.
    fn write(&mut self, data: &[u8], op: &str) -> Vec<String> {
        let Some((regions, ok)) = self.expose(op) else { return vec!["bad-op".into()] };
        let mut left = data;
        let mut wrote = 0;
        for (p, n) in regions {
            let k = n.min(left.len());
            if ok && k > 0 {
                unsafe { std::ptr::copy_nonoverlapping(left.as_ptr(), p as *mut u8, k) };
            }
            wrote += k;
            left = &left[k..];
        }
        vec![format!("wrote={wrote}")]
    }

    fn region_bytes(regions: &[(usize, usize)]) -> Vec<Vec<u8>> {
        regions
            .iter()
            .map(|(p, n)| peek(*p, *n))
            .collect()
    }

    /// Oracle for `set_init(n)` / `extend`: every buffer kept its bytes and
    /// got a prefix of its own exposed region appended; the appended pieces,
    /// front to back, are the first `n` bytes of `expect`.
    fn check_growth(&mut self, old: &[Vec<u8>], exposed: &[Vec<u8>], expect: &[u8], n: usize, op: &str) {
        let mut appended = Vec::new();
        let mut spans = 0;
        for (i, l) in self.build.leaves.iter().enumerate() {
            let new = l.contents();
            if new.len() < old[i].len() || new[..old[i].len()] != old[i][..] {
                self.oracle.push(("C14".into(), "C14/set_init/kept".into(), format!("buffer {i} lost or changed bytes it held ({op})")));
                return;
            }
            let piece = &new[old[i].len()..];
            if piece.len() > exposed[i].len() || piece != &exposed[i][..piece.len()] {
                self.oracle.push(("C14".into(), "C14/set_init/own-region".into(), format!("buffer {i} grew by {} bytes that are not the front of its exposed region ({} bytes) ({op})", piece.len(), exposed[i].len())));
                return;
            }
            if !piece.is_empty() {
                spans += 1;
            }
            appended.extend_from_slice(piece);
        }
        if appended.len() != n {
            self.fail("set_init/count", format!("{n} bytes marked initialised but the buffers grew by {} ({op})", appended.len()));
        } else if appended != expect[..n] {
            self.fail("set_init/order", format!("the {n} appended bytes are not the first {n} exposed bytes in order ({op})"));
        }
        if spans >= 2 {
            self.feat("init-spans-buffers");
            self.nontrivial = true;
        }
    }

    fn init(&mut self, n: usize, op: &str) -> Vec<String> {
        let Some((regions, ok)) = self.expose(op) else { return vec!["bad-op".into()] };
        let total: usize = regions.iter().map(|r| r.1).sum();
        let single = matches!(self.obj, Obj::M(_));
        if single {
            let l = &self.build.leaves[0];
            if n > l.cap.saturating_sub(l.cur_len()) {
                // `Vec::set_len` beyond the capacity: not a call the harness may make.
                self.feat("init-refused");
                return vec!["refused".into()];
            }
        }
        if !ok {
            // The exposed regions are already wrong; `set_init` would act on them.
            return vec!["unsafe".into()];
        }
        let legal = n <= total;
        if !legal {
            self.tainted = true;
            self.feat("init-caller-error");
        }
        let old: Vec<Vec<u8>> = self.build.leaves.iter().map(|l| l.contents()).collect();
        let exposed = Self::region_bytes(&regions);
        let r = match &mut self.obj {
            Obj::M(b) => catch(|| unsafe { b.set_init(n) }),
            Obj::MS(s) => catch(|| s.set_init(n)),
            _ => unreachable!(),
        };
        if legal && (single || self.arity != 0) {
            match &r {
                Err(e) => self.fail("set_init/panic", format!("set_init({n}) with {total} bytes exposed panicked: {e} ({op})")),
                Ok(()) => {
                    let flat: Vec<u8> = exposed.concat();
                    self.check_growth(&old, &exposed, &flat, n, op);
                    self.marked += n;
                }
            }
        }
        if r.is_err() {
            self.feat("init-panic");
        }
        if legal && n == total && total > 0 {
            self.feat("init-all-exposed");
        }
        let _ = self.expose(op);
        vec![if r.is_ok() { "ok".into() } else { "panic".into() }]
    }

    fn ext(&mut self, data: &[u8], op: &str) -> Vec<String> {
        let Some((regions, ok)) = self.expose(op) else { return vec!["bad-op".into()] };
        if !ok {
            return vec!["unsafe".into()];
        }
        let total: usize = regions.iter().map(|r| r.1).sum();
        let single = matches!(self.obj, Obj::M(_));
        let old: Vec<Vec<u8>> = self.build.leaves.iter().map(|l| l.contents()).collect();
        let r = match &mut self.obj {
            Obj::M(b) => catch(|| b.extend_from_slice(data)),
            Obj::MS(s) => catch(|| s.extend(data)),
            _ => unreachable!(),
        };
        let out = match r {
            Ok(w) => {
                let want = data.len().min(total);
                if w != want {
                    self.fail("extend/count", format!("extend_from_slice of {} bytes into {total} exposed returned {w} ({op})", data.len()));
                } else {
                    // Each buffer receives at most what it exposed.
                    let mut left = data;
                    let room: Vec<Vec<u8>> = regions
                        .iter()
                        .map(|(_, n)| {
                            let k = (*n).min(left.len());
                            let (a, b) = left.split_at(k);
                            left = b;
                            a.to_vec()
                        })
                        .collect();
                    self.check_growth(&old, &room, data, w, op);
                    self.marked += w;
                }
                format!("ext={w}")
            }
            Err(e) => {
                if single || self.arity != 0 {
                    self.fail("extend/panic", format!("extend_from_slice panicked: {e} ({op})"));
                }
                "panic".into()
            }
        };
        let _ = self.expose(op);
        vec![out]
    }

    /// `bufs new <trait> <description…>`: build the object of the case.
    fn new_obj(&mut self, t: &[&str], op: &str) -> Vec<String> {
        self.release();
        let big = |l: usize| l as u64 >= 1 << 32;
        if !t.is_empty() {
            let mut p = Toks { t: &t[1..], i: 0 };
            match t[0] {
                "buf" => {
                    if let Some(d) = parse_r(&mut p).filter(|_| p.done()) {
                        self.obj = Obj::R(self.build.r(&d));
                        self.feat("trait-buf");
                        self.feat(&kind_of_r(&d));
                    }
                }
                "mut" => {
                    if let Some(d) = parse_m(&mut p).filter(|_| p.done()) {
                        self.obj = Obj::M(self.build.m(&d));
                        self.mutable = true;
                        self.feat("trait-mut");
                    }
                }
                "slice" => {
                    if let Some(d) = parse_s(&mut p, parse_r).filter(|_| p.done()) {
                        let n = arity(&d);
                        self.obj = Obj::RS(by_arity!(n, rs, self.build, &d, dyn AnySl));
                        self.top_limit = top_limit(&d);
                        self.arity = n;
                        self.feat("trait-slice");
                        if let SDesc::Arr { elems, .. } = arr_of(&d) {
                            for e in elems {
                                self.feat(&kind_of_r(e));
                            }
                        }
                        self.feat(if is_tuple(&d) { "tuple" } else { "array" });
                        self.feat(&format!("arity-{n}"));
                    }
                }
                "mutslice" => {
                    if let Some(d) = parse_s(&mut p, parse_m).filter(|_| p.done()) {
                        let n = arity(&d);
                        self.obj = Obj::MS(by_arity!(n, ms, self.build, &d, dyn AnyMSl));
                        self.top_limit = top_limit(&d);
                        self.arity = n;
                        self.mutable = true;
                        self.feat("trait-mutslice");
                        self.feat(if is_tuple(&d) { "tuple" } else { "array" });
                        self.feat(&format!("arity-{n}"));
                    }
                }
                _ => {}
            }
        }
        if matches!(self.obj, Obj::None) {
            self.feat("malformed-header");
            return vec!["bad-op".into()];
        }
        if self.build.broken {
            return vec!["simulated-kernel-failed".into()];
        }
        if self.build.pool.is_some() {
            self.feat("pool-readbuf");
        }
        // Features of the limits.
        let leaf_limits: Vec<usize> = self.build.leaves.iter().filter_map(|l| l.limit).collect();
        let limits: Vec<usize> = leaf_limits.iter().copied().chain(self.top_limit).collect();
        if !limits.is_empty() {
            self.feat("limited");
            if limits.iter().any(|l| big(*l)) {
                self.feat("limit>=2^32");
                self.nontrivial = true;
            }
            if limits.iter().any(|l| *l == 0) {
                self.feat("limit=0");
            }
        }
        // Does a limit bind (cut something off)?
        let room = |l: &Leaf| if l.is_mut() { l.cap - l.bytes.len() } else { l.bytes.len() };
        let total_room: usize = self.build.leaves.iter().map(room).sum();
        if self.build.leaves.iter().any(|l| l.limit.is_some_and(|x| x < room(l)))
            || self.top_limit.is_some_and(|x| x < total_room)
        {
            self.feat("limit-binds");
            self.nontrivial = true;
        }
        if self.arity >= 2 {
            self.nontrivial = true;
        }
        if self.build.leaves.iter().any(|l| l.cap == 0) {
            self.feat("zero-capacity");
        }
        if self.mutable {
            // Ops after the first `q` are generated from the exposed total.
            self.dynamic = 4 + (op.len() as u32 * 7 + self.build.leaves.len() as u32) % 6;
        }
        vec!["ok".into()]
    }

    /// `write_all` of the buffer through the simulated kernel, which accepts
    /// `ks[i]` bytes of the i-th submission (everything once `ks` runs out).
    /// Each submission carries `SkipBuf { buf, skip }.parts()`.
    fn wall(&mut self, ks: &[usize], op: &str) -> Vec<String> {
        use a10::Extract;
        use std::future::Future;
        if !matches!(self.obj, Obj::R(_)) {
            return vec!["bad-op".into()];
        }
        if self.build.pool.is_none() {
            self.build.pool = PoolCtx::new();
        }
        let Obj::R(db) = std::mem::replace(&mut self.obj, Obj::None) else { unreachable!() };
        let own = self.build.leaves[0].bytes.clone();
        let limit = self.build.leaves[0].limit;
        let mut out = Vec::new();
        let mut fails: Vec<(&str, String)> = Vec::new();
        let mut back = None;
        let mut sent = 0usize;
        {
            let PoolCtx { fd, ring, ring_fd, .. } = self.build.pool.as_mut().expect("simulated ring");
            let mut fut = Box::pin(fd.write_all(db).extract());
            let w = util::waker(0);
            let mut cx = std::task::Context::from_waker(&w);
            let mut ks = ks.iter();
            for _ in 0..10_000 {
                match fut.as_mut().poll(&mut cx) {
                    std::task::Poll::Ready(Ok(db)) => {
                        back = Some(db);
                        out.push("done".into());
                        break;
                    }
                    std::task::Poll::Ready(Err(e)) => {
                        out.push(format!("err={:?}", e.kind()));
                        break;
                    }
                    std::task::Poll::Pending => {}
                }
                let _ = ring.poll(Some(std::time::Duration::ZERO));
                let Some(sqe) = simk::with_ring(*ring_fd, |r, _| r.inflight.first().map(|i| i.sqe)) else {
                    out.push("no-submission".into());
                    break;
                };
                let (addr, len) = (sqe.addr as usize, sqe.len as usize);
                out.push(format!("sqe={}", locate(&self.build.leaves, 0, addr, len)));
                // Oracle: the submission designates exactly the bytes not yet written.
                let l = &self.build.leaves[0];
                let inside = if l.nomem { len == 0 } else { l.base <= addr && addr + len <= l.base + own.len() };
                if !inside {
                    fails.push(("inside/skip", format!("write_all submitted ({addr:#x}, {len}) outside the buffer's {} bytes at {:#x} ({op})", own.len(), l.base)));
                    // Do not let the kernel read it.
                    simk::with_ring(*ring_fd, |r, ev| r.post(&PostSpec::new(Target::Nth(0), -libc::EFAULT, 0), ev));
                    let _ = ring.poll(Some(std::time::Duration::ZERO));
                    continue;
                }
                let want = limit.map_or(own.len(), |x| x.min(own.len()));
                if !l.nomem && (addr - l.base != sent || sent + len != want) {
                    fails.push(("skip/region", format!("after {sent} of {want} bytes write_all submitted offset {} length {len} ({op})", addr - l.base)));
                }
                let k = ks.next().copied().unwrap_or(len).min(len);
                sent += k;
                simk::with_ring(*ring_fd, |r, ev| r.post(&PostSpec::new(Target::Nth(0), k as i32, 0), ev));
                let _ = ring.poll(Some(std::time::Duration::ZERO));
            }
        }
        let _ = simk::drain_events();
        for (sig, what) in fails {
            self.fail(sig, what);
        }
        if let Some(db) = back {
            self.obj = Obj::R(db);
        }
        self.feat("write_all-skipbuf");
        out
    }

    /// `read_n(buf, n)` through the simulated kernel, which delivers `chunks`
    /// one per submission, then end of file. Each submission carries
    /// `ReadNBuf { buf, .. }.parts_mut()`, each completion goes through
    /// `ReadNBuf::set_init`.
    fn rdn(&mut self, n: usize, chunks: &[Vec<u8>], op: &str) -> Vec<String> {
        use std::future::Future;
        if !matches!(self.obj, Obj::M(_)) {
            return vec!["bad-op".into()];
        }
        if self.build.pool.is_none() {
            self.build.pool = PoolCtx::new();
        }
        let Obj::M(dm) = std::mem::replace(&mut self.obj, Obj::None) else { unreachable!() };
        let old = self.build.leaves[0].contents();
        let mut out = Vec::new();
        let mut fails: Vec<(&str, String)> = Vec::new();
        let mut back = None;
        let mut delivered: Vec<u8> = Vec::new();
        {
            let PoolCtx { fd, ring, ring_fd, .. } = self.build.pool.as_mut().expect("simulated ring");
            let mut fut = Box::pin(fd.read_n(dm, n));
            let w = util::waker(0);
            let mut cx = std::task::Context::from_waker(&w);
            let mut chunks = chunks.iter();
            for _ in 0..10_000 {
                match fut.as_mut().poll(&mut cx) {
                    std::task::Poll::Ready(Ok(dm)) => {
                        back = Some(dm);
                        out.push("done".into());
                        break;
                    }
                    std::task::Poll::Ready(Err(e)) => {
                        out.push(format!("err={:?}", e.kind()));
                        break;
                    }
                    std::task::Poll::Pending => {}
                }
                let _ = ring.poll(Some(std::time::Duration::ZERO));
                let Some(sqe) = simk::with_ring(*ring_fd, |r, _| r.inflight.first().map(|i| i.sqe)) else {
                    out.push("no-submission".into());
                    break;
                };
                let (addr, len) = (sqe.addr as usize, sqe.len as usize);
                out.push(format!("sqe={}", locate(&self.build.leaves, 0, addr, len)));
                let l = &self.build.leaves[0];
                let cur = l.cur_len();
                let inside = if l.nomem { len == 0 } else { l.base + cur <= addr && addr + len <= l.base + l.cap };
                if !inside {
                    fails.push(("inside/readn", format!("read_n submitted ({addr:#x}, {len}) outside the spare capacity [{cur}, {}) at {:#x} ({op})", l.cap, l.base)));
                    simk::with_ring(*ring_fd, |r, ev| r.post(&PostSpec::new(Target::Nth(0), -libc::EFAULT, 0), ev));
                    let _ = ring.poll(Some(std::time::Duration::ZERO));
                    continue;
                }
                let empty = Vec::new();
                let c = chunks.next().unwrap_or(&empty);
                let c = &c[..c.len().min(len)];
                delivered.extend_from_slice(c);
                let mut spec = PostSpec::new(Target::Nth(0), c.len() as i32, 0);
                if !c.is_empty() {
                    spec.data = Some(c.to_vec());
                }
                simk::with_ring(*ring_fd, |r, ev| r.post(&spec, ev));
                let _ = ring.poll(Some(std::time::Duration::ZERO));
            }
        }
        let _ = simk::drain_events();
        for (sig, what) in fails {
            self.fail(sig, what);
        }
        if let Some(dm) = back {
            self.obj = Obj::M(dm);
            // Oracle: the buffer holds what it held plus what the kernel delivered.
            let new = self.build.leaves[0].contents();
            let mut want = old;
            want.extend_from_slice(&delivered);
            if new != want {
                self.fail("readn/contents", format!("after read_n the buffer does not hold its old bytes followed by the {} delivered ({op})", delivered.len()));
            }
            self.marked += delivered.len();
            let _ = self.expose(op);
        }
        self.feat("read_n-readnbuf");
        out
    }

    /// One `AsyncFd::read` into a pool `ReadBuf` (unassigned, or holding `pre`)
    /// under zero to two `LimitedBuf`s — the concrete a10 types, no adapters, so
    /// the crate private `BufMut::parts()` / `buffer_init()` of every layer are
    /// the ones the operation uses. The kernel has `data` ready. Prints what the
    /// submission asked for (`select`: the kernel picks a pool buffer and may
    /// fill all of it; `plain:<len>`), the count returned and the buffer's bytes.
    fn rdp(&mut self, cap: usize, limits: &[usize], pre: Option<&[u8]>, data: &[u8], op: &str) -> Vec<String> {
        use std::future::Future;
        use std::task::Poll;
        if self.build.pool.is_none() {
            self.build.pool = PoolCtx::new();
        }
        let Some(ctx) = self.build.pool.as_mut() else {
            return vec!["no-ring".into()];
        };
        let Some(rb) = ctx.read_buf(cap, pre) else {
            return vec!["no-pool-buffer".into()];
        };
        let before = rb.len();
        // what the wrappers report before the read (public methods)
        enum Fut<'a> {
            L0(std::pin::Pin<Box<a10::io::Read<'a, ReadBuf>>>),
            L1(std::pin::Pin<Box<a10::io::Read<'a, LimitedBuf<ReadBuf>>>>),
            L2(std::pin::Pin<Box<a10::io::Read<'a, LimitedBuf<LimitedBuf<ReadBuf>>>>>),
        }
        let PoolCtx { fd, ring, ring_fd, .. } = ctx;
        let (mut fut, spare_before) = match limits {
            [] => {
                let s = BufMut::spare_capacity(&rb);
                (Fut::L0(Box::pin(fd.read(rb))), s)
            }
            [a] => {
                let b = BufMut::limit(rb, *a);
                let s = BufMut::spare_capacity(&b);
                (Fut::L1(Box::pin(fd.read(b))), s)
            }
            [a, b] => {
                let b = BufMut::limit(BufMut::limit(rb, *b), *a);
                let s = BufMut::spare_capacity(&b);
                (Fut::L2(Box::pin(fd.read(b))), s)
            }
            _ => return vec!["bad-op".into()],
        };
        let w = util::waker(0);
        let mut cx = std::task::Context::from_waker(&w);
        let mut poll = |fut: &mut Fut<'_>| -> Poll<std::io::Result<ReadBuf>> {
            match fut {
                Fut::L0(f) => f.as_mut().poll(&mut cx),
                Fut::L1(f) => f.as_mut().poll(&mut cx).map(|r| r.map(LimitedBuf::into_inner)),
                Fut::L2(f) => f.as_mut().poll(&mut cx).map(|r| r.map(|b| b.into_inner().into_inner())),
            }
        };
        let mut out = Vec::new();
        let mut fails: Vec<(&str, String)> = Vec::new();
        if poll(&mut fut).is_ready() {
            return vec!["ready-before-submission".into()];
        }
        let _ = ring.poll(Some(std::time::Duration::ZERO));
        let Some(sqe) = simk::with_ring(*ring_fd, |r, _| r.inflight.first().map(|i| i.sqe)) else {
            return vec!["no-submission".into()];
        };
        let select = sqe.flags & (simk::IOSQE_BUFFER_SELECT as u8) != 0;
        let allowed = if select { cap } else { sqe.len as usize };
        out.push(if select { "sqe=select".to_string() } else { format!("sqe=plain:{}", sqe.len) });
        let k = data.len().min(allowed);
        let lim = limits.iter().copied().min();
        // Oracle: a limited buffer never lets the kernel store more than its limit, nor
        // more than the spare capacity it reported.
        if let Some(l) = lim {
            if allowed > l {
                fails.push(("limit-exceeded/read", format!("read into a ReadBuf limited to {l} bytes lets the kernel store {allowed} bytes ({}; {op})", if select { "buffer select, whole pool buffer" } else { "plain" })));
            }
            if allowed > spare_before as usize {
                fails.push(("spare/read", format!("read into a limited ReadBuf reporting spare_capacity() = {spare_before} lets the kernel store {allowed} bytes ({op})")));
            }
        }
        let mut spec = PostSpec::new(Target::Nth(0), k as i32, 0);
        if k > 0 || select {
            spec.data = Some(data[..k].to_vec());
        }
        spec.select_buf = select;
        simk::with_ring(*ring_fd, |r, ev| r.post(&spec, ev));
        let _ = ring.poll(Some(std::time::Duration::ZERO));
        match poll(&mut fut) {
            Poll::Ready(Ok(buf)) => {
                let got = buf.to_vec();
                out.push(format!("n={} contents={}", got.len().wrapping_sub(before), hexs(&got)));
                let mut want = pre.unwrap_or(&[]).to_vec();
                want.extend_from_slice(&data[..k]);
                if got != want {
                    fails.push(("read/contents", format!("after the read the buffer holds {} bytes, expected its {} old bytes followed by the {k} delivered ({op})", got.len(), before)));
                }
                if let Some(l) = lim {
                    if got.len() - before.min(got.len()) > l {
                        fails.push(("limit-exceeded/appended", format!("{} bytes appended through a buffer limited to {l} ({op})", got.len() - before)));
                    }
                }
            }
            Poll::Ready(Err(e)) => out.push(format!("err={:?}", e.kind())),
            Poll::Pending => out.push("pending".into()),
        }
        drop(fut);
        let _ = simk::drain_events();
        for (sig, what) in fails {
            self.fail(sig, what);
        }
        self.feat(match (limits.len(), pre.is_some()) {
            (0, false) => "rdp-select",
            (0, true) => "rdp-assigned",
            (_, false) => "rdp-limited-unassigned",
            (_, true) => "rdp-limited-assigned",
        });
        self.nontrivial = true;
        out
    }

    /// A plain `[Vec<u8>; N]` / tuple of *empty* vectors with the given
    /// capacities (up to 8 GiB each, memory never touched): what do
    /// `spare_capacity`, `as_iovecs_mut`, `total_spare_capacity` and
    /// `has_spare_capacity` report? Concrete a10 types, no adapters.
    fn caps(&mut self, tuple: bool, caps: &[usize], limit: Option<usize>, op: &str) -> Vec<String> {
        let mut vs = Vec::new();
        let mut maps = Vec::new();
        for c in caps {
            match Untouched::new(*c) {
                Some(u) => {
                    vs.push(u.v);
                    maps.push(u.map);
                }
                None => {
                    give_back(vs, &maps);
                    return vec!["allocation-failed".into()];
                }
            }
        }
        let real: Vec<usize> = vs.iter().map(Vec::capacity).collect();
        let bases: Vec<usize> = vs.iter().map(|v| v.as_ptr() as usize).collect();
        let row = match (tuple, caps.len()) {
            (false, 1) => caps_arr::<1>(vs, limit),
            (false, 2) => caps_arr::<2>(vs, limit),
            (false, 3) => caps_arr::<3>(vs, limit),
            (false, 4) => caps_arr::<4>(vs, limit),
            (false, 5) => caps_arr::<5>(vs, limit),
            (false, 6) => caps_arr::<6>(vs, limit),
            (false, 7) => caps_arr::<7>(vs, limit),
            (false, 8) => caps_arr::<8>(vs, limit),
            (true, 2) => caps_tup2(vs, limit),
            (true, 3) => caps_tup3(vs, limit),
            (true, 4) => caps_tup4(vs, limit),
            (true, 5) => caps_tup5(vs, limit),
            (true, 6) => caps_tup6(vs, limit),
            (true, 7) => caps_tup7(vs, limit),
            (true, 8) => caps_tup8(vs, limit),
            _ => unreachable!(),
        };
        let CapsRow { spares, iov, total, has, back } = row;
        give_back(back, &maps);
        // Oracle.
        let sum: u64 = iov.iter().map(|r| r.1 as u64).sum();
        if let Some(l) = limit {
            // LimitedBuf laws (independent of the model): never more than the limit in
            // total, buffers filled front to back, nothing cut off while the limit allows it.
            if sum > l as u64 {
                self.fail("limit/exceeded", format!("limit {l}: the iovecs expose {sum} bytes ({op})"));
            }
            let mut left = l as u64;
            for (i, (_, n)) in iov.iter().enumerate() {
                let want = (spares[i] as u64).min(left);
                if *n as u64 != want {
                    self.fail("limit/shape", format!("limit {l}: iovec {i} has {n} bytes, expected {want} (spare {}, {left} left of the limit) ({op})", spares[i]));
                }
                left -= want.min(left);
            }
            self.feat("lcaps");
            let all: u64 = spares.iter().map(|x| *x as u64).sum();
            if all > u32::MAX as u64 && l as u64 >= u32::MAX as u64 && (l as u64) < all {
                self.feat("lcaps-limit-binds-above-2^32");
            }
        }
        for (i, (p, n)) in iov.iter().enumerate() {
            if *p != bases[i] || *n > real[i] {
                self.fail("inside/write", format!("vector {i} of capacity {}: exposed offset {} length {n} ({op})", real[i], p.wrapping_sub(bases[i])));
            }
            if limit.is_none() && spares[i] as usize != *n {
                self.fail("len/spare", format!("vector {i}: spare_capacity() = {} but parts_mut().1 = {n} ({op})", spares[i]));
            }
        }
        // The length laws are claimed for buffers below the io_uring bound of
        // 2^32 bytes each.
        if real.iter().all(|c| (*c as u64) < 1 << 32) {
            // The reported total is the total of the iovecs, saturated at u32::MAX.
            let want = sum.min(u32::MAX as u64);
            match &total {
                _ if limit.is_some() => {
                    // min(inner total (saturated), limit) as u32
                    let all: u64 = spares.iter().map(|x| *x as u64).sum::<u64>().min(u32::MAX as u64);
                    let w = all.min(limit.unwrap() as u64);
                    if total.as_ref().ok().map(|t| *t as u64) != Some(w) {
                        self.fail("len/spare", format!("limited total_spare_capacity() = {total:?}, expected {w} ({op})"));
                    }
                }
                Ok(t) if *t as u64 == want => {}
                Ok(t) => self.fail("len/spare", format!("total_spare_capacity() = {t} but the iovecs expose {sum} bytes ({op})")),
                Err(e) => self.fail("len/spare", format!("total_spare_capacity() panicked ({e}) with {sum} bytes exposed ({op})")),
            }
            if limit.is_some() {
                let inner = spares.iter().any(|x| *x != 0);
                if has != (limit != Some(0) && inner) {
                    self.fail("len/has_spare", format!("limited has_spare_capacity() = {has} ({op})"));
                }
            } else if has != (sum != 0) {
                self.fail("len/has_spare", format!("has_spare_capacity() = {has} but the iovecs expose {sum} bytes ({op})"));
            }
        }
        if real.iter().any(|c| (*c as u64) >= 1 << 32) {
            self.feat("caps-buffer>=2^32");
        }
        if sum >= 1 << 32 {
            self.feat("caps-total>=2^32");
        } else if real.iter().any(|c| (*c as u64) >= 1 << 31) {
            self.feat("caps-buffer>=2^31");
        }
        let list = |v: Vec<String>| v.join(",");
        vec![format!(
            "spares={} total={} has={} iovlens={}",
            list(spares.iter().map(|x| x.to_string()).collect()),
            total.map_or("panic".to_string(), |t| t.to_string()),
            has as u8,
            list(iov.iter().map(|r| r.1.to_string()).collect()),
        )]
    }

    // ---- generation ----

    fn gen_dynamic(&mut self, rng: &mut Rng) -> String {
        let total = self.last_total;
        let byte = |rng: &mut Rng| rng.range(1, 0xdf) as u8;
        let single = matches!(self.obj, Obj::M(_));
        match rng.weighted(&[4, 8, 10, 6, 1, if single { 3 } else { 0 }]) {
            0 => "bufs q".into(),
            5 => {
                let n = rng.below(total as u64 + 3) as usize;
                let k = rng.below(4) as usize;
                let chunks: Vec<String> = (0..k)
                    .map(|_| {
                        let len = match rng.below(4) {
                            0 => 0,
                            1 => total + 1,
                            _ => rng.range(1, total.max(1) as u64) as usize,
                        };
                        hexs(&(0..len.min(5000)).map(|_| byte(rng)).collect::<Vec<u8>>())
                    })
                    .collect();
                format!("bufs rdn {n} {}", if chunks.is_empty() { ".".into() } else { chunks.join(",") })
            }
            1 => {
                let n = match rng.below(5) {
                    0 => total,
                    1 => total + rng.range(1, 4) as usize,
                    _ => rng.below(total as u64 + 1) as usize,
                };
                let d: Vec<u8> = (0..n.min(5000)).map(|_| byte(rng)).collect();
                format!("bufs write {}", hexs(&d))
            }
            2 => {
                let n = match rng.below(12) {
                    0 => 0,
                    1 | 2 => total,
                    3 => total + rng.range(1, 3) as usize,
                    4 => total.saturating_sub(1),
                    _ => rng.below(total as u64 + 1) as usize,
                };
                format!("bufs init {n}")
            }
            3 => {
                let n = match rng.below(5) {
                    0 => total,
                    1 => total + rng.range(1, 4) as usize,
                    2 => 0,
                    _ => rng.below(total as u64 + 1) as usize,
                };
                let d: Vec<u8> = (0..n.min(5000)).map(|_| byte(rng)).collect();
                format!("bufs ext {}", hexs(&d))
            }
            _ => {
                self.feat("malformed-op");
                match rng.below(6) {
                    0 => "bufs init".into(),
                    1 => "bufs init -1".into(),
                    2 => "bufs write 0g".into(),
                    3 => "bufs ext abc".into(),
                    4 => "bufs init 99999999999999999999".into(),
                    _ => "bufs frob 1".into(),
                }
            }
        }
    }
}

impl Case for BufsCase {
    fn next_op(&mut self, rng: &mut Rng) -> Option<String> {
        if !self.started {
            self.started = true;
            self.script = vec!["bufs q".into()];
            return Some(gen_new(rng));
        }
        if self.pos < self.script.len() {
            self.pos += 1;
            return Some(self.script[self.pos - 1].clone());
        }
        if self.mutable && self.dynamic > 0 {
            self.dynamic -= 1;
            if self.dynamic == 0 {
                return Some("bufs q".into());
            }
            return Some(self.gen_dynamic(rng));
        }
        if !self.rdped {
            self.rdped = true;
            if rng.chance(1, 12) {
                let cap = *rng.pick(&[1u64, 2, 7, 8, 16, 64, 100, 256]);
                let nl = rng.below(3);
                let limits: Vec<String> = (0..nl)
                    .map(|_| {
                        (match rng.below(6) {
                            0 => 0,
                            1 => cap,
                            2 => cap + rng.range(1, 5),
                            3 => u64::MAX - rng.below(2),
                            _ => rng.below(cap + 1),
                        })
                        .to_string()
                    })
                    .collect();
                let pre = if rng.chance(1, 2) {
                    "none".to_string()
                } else {
                    let n = rng.below(cap + 1).min(40) as usize;
                    let d: Vec<u8> = (0..n).map(|_| rng.range(1, 0xdf) as u8).collect();
                    hexs(&d)
                };
                let n = match rng.below(5) {
                    0 => 0,
                    1 => cap,
                    2 => cap + rng.range(1, 9),
                    _ => rng.below(cap + 2),
                }
                .min(300) as usize;
                let d: Vec<u8> = (0..n).map(|_| rng.range(1, 0xdf) as u8).collect();
                return Some(format!(
                    "bufs rdp {cap} {} {pre} {}",
                    if limits.is_empty() { ".".into() } else { limits.join(",") },
                    hexs(&d)
                ));
            }
        }
        if !self.capsed {
            self.capsed = true;
            if rng.chance(1, 20) {
                let tuple = rng.chance(1, 2);
                let big = rng.chance(2, 5);
                let n = if big { rng.range(if tuple { 2 } else { 1 }, 3) } else { gen_arity(rng, tuple).max(1) as u64 };
                let w = 1u64 << 32;
                let caps: Vec<String> = (0..n)
                    .map(|_| {
                        (if big {
                            match rng.below(8) {
                                0 => w / 2,
                                1 => w - 1 - rng.below(3),
                                2 => w,
                                3 => w + rng.range(1, 9),
                                4 => w / 2 + rng.below(100),
                                5 => w / 4 * 3,
                                6 => 2 * w - rng.below(2),
                                _ => rng.below(64),
                            }
                        } else {
                            rng.below(40)
                        })
                        .to_string()
                    })
                    .collect();
                if rng.chance(1, 2) {
                    // the same vectors under a `LimitedBuf`: limits around the total, around
                    // 2^32, around single capacities, 0, huge
                    let cs: Vec<u64> = caps.iter().map(|c| c.parse().unwrap_or(0)).collect();
                    let total: u64 = cs.iter().sum();
                    let l = match if total > u32::MAX as u64 && rng.chance(1, 2) { 6 } else { rng.below(8) } {
                        0 => 0,
                        1 => total.saturating_sub(rng.below(3)),
                        2 => total + rng.below(3),
                        3 => w - 2 + rng.below(5),
                        4 => cs[0].saturating_sub(rng.below(2)) + rng.below(2),
                        5 => rng.below(total + 2),
                        6 => u32::MAX as u64 + rng.below(total.saturating_sub(u32::MAX as u64) + 1),
                        _ => u64::MAX - rng.below(3),
                    };
                    return Some(format!("bufs lcaps {} {} {l}", if tuple { "tup" } else { "arr" }, caps.join(",")));
                }
                return Some(format!("bufs caps {} {}", if tuple { "tup" } else { "arr" }, caps.join(",")));
            }
        }
        if matches!(self.obj, Obj::R(_)) && !self.walled {
            // Once per read-side buffer, half of the time: push it through
            // `write_all` with short writes.
            self.walled = true;
            if rng.chance(1, 2) {
                let len = self.last_total as u64;
                let ks: Vec<String> = (0..rng.below(4))
                    .map(|_| {
                        (match rng.below(8) {
                            0 => 0,
                            1 => len,
                            2 => len + 1,
                            3 => 1,
                            _ => rng.range(1, len.max(1)),
                        })
                        .to_string()
                    })
                    .collect();
                self.script.push("bufs q".into());
                return Some(format!("bufs wall {}", if ks.is_empty() { ".".into() } else { ks.join(",") }));
            }
        }
        None
    }

    fn exec(&mut self, op: &str) -> Vec<String> {
        let t: Vec<&str> = op.split(' ').collect();
        match t.as_slice() {
            ["bufs", "new", rest @ ..] => self.new_obj(rest, op),
            ["bufs", "q"] => self.q(op),
            ["bufs", "caps", k @ ("arr" | "tup"), cs] => match parse_list(cs, dec_usize) {
                Some(cs)
                    if !cs.is_empty()
                        && cs.len() <= 8
                        && (*k == "arr" || cs.len() >= 2)
                        && cs.iter().all(|c| *c <= MAX_HUGE) =>
                {
                    self.caps(*k == "tup", &cs, None, op)
                }
                _ => vec!["bad-op".into()],
            },
            ["bufs", "lcaps", k @ ("arr" | "tup"), cs, l] => match (parse_list(cs, dec_usize), dec_usize(l)) {
                (Some(cs), Some(l))
                    if !cs.is_empty()
                        && cs.len() <= 8
                        && (*k == "arr" || cs.len() >= 2)
                        && cs.iter().all(|c| *c <= MAX_HUGE) =>
                {
                    self.caps(*k == "tup", &cs, Some(l), op)
                }
                _ => vec!["bad-op".into()],
            },
            ["bufs", "rdp", cap, limits, pre, data] => {
                match (dec_usize(cap), parse_list(limits, dec_usize), if *pre == "none" { Some(None) } else { unhex(pre).map(Some) }, unhex(data)) {
                    (Some(cap), Some(limits), Some(pre), Some(data))
                        if cap >= 1
                            && cap <= MAX_POOL_BUF
                            && limits.len() <= 2
                            && pre.as_ref().is_none_or(|p| p.len() <= cap)
                            && data.len() <= 2 * MAX_POOL_BUF =>
                    {
                        self.rdp(cap, &limits, pre.as_deref(), &data, op)
                    }
                    _ => vec!["bad-op".into()],
                }
            }
            ["bufs", "wall", ks] => match parse_list(ks, dec_usize) {
                Some(ks) => self.wall(&ks, op),
                None => vec!["bad-op".into()],
            },
            ["bufs", "rdn", n, chunks] => match (dec_usize(n), parse_list(chunks, unhex)) {
                (Some(n), Some(chunks)) => self.rdn(n, &chunks, op),
                _ => vec!["bad-op".into()],
            },
            ["bufs", "write", h] => match unhex(h) {
                Some(d) => self.write(&d, op),
                None => vec!["bad-op".into()],
            },
            ["bufs", "init", n] => match dec_usize(n) {
                Some(n) => self.init(n, op),
                None => vec!["bad-op".into()],
            },
            ["bufs", "ext", h] => match unhex(h) {
                Some(d) => self.ext(&d, op),
                None => vec!["bad-op".into()],
            },
            _ => vec!["bad-op".into()],
        }
    }

    fn drain_oracle(&mut self) -> Vec<(String, String, String)> {
        std::mem::take(&mut self.oracle)
    }

    fn finish(&mut self) -> CaseReport {
        CaseReport {
            oracle: Vec::new(),
            features: std::mem::take(&mut self.feats),
            nontrivial: self.nontrivial,
        }
    }
}

// -------------------------------------------------------------- generators --

fn gen_limit(rng: &mut Rng, around: usize) -> usize {
    let a = around as u64;
    let w = 1u64 << 32;
    (match rng.below(16) {
        0 => 0,
        1 => 1,
        2 => a,
        3 => a + 1,
        4 => a.saturating_sub(1),
        5 | 6 | 7 => rng.below(a + 3),
        8 => w,
        9 => w + rng.below(a + 3),
        10 => w - 1 - rng.below(3),
        11 => w * rng.range(1, 5) + rng.below(a + 3),
        12 => u64::MAX - rng.below(3),
        13 => 1u64 << 63,
        14 => rng.next(),
        _ => rng.below(2 * a + 4),
    }) as usize
}

fn gen_size(rng: &mut Rng) -> usize {
    (match rng.below(20) {
        0 => 0,
        1 => 1,
        2 => rng.range(100, 300),
        3 => {
            if rng.chance(1, 4) {
                rng.range(1000, 4096)
            } else {
                rng.range(17, 64)
            }
        }
        _ => rng.range(1, 16),
    }) as usize
}

/// A pool `ReadBuf`: buffer size, bytes read into it (`None` = not assigned).
fn gen_pool(rng: &mut Rng) -> (usize, Option<Vec<u8>>) {
    let cap = gen_size(rng).max(1);
    if rng.chance(1, 5) {
        return (cap, None);
    }
    let len = match rng.below(4) {
        0 => 0,
        1 => cap,
        _ => rng.below(cap as u64 + 1) as usize,
    }
    .min(64);
    (cap, Some((0..len).map(|_| rng.range(1, 0xdf) as u8).collect()))
}

fn gen_r(rng: &mut Rng) -> RDesc {
    let (kind, is_str) = *rng.pick(&RKINDS);
    let mut n = gen_size(rng);
    let bytes: Vec<u8> = (0..n).map(|_| if is_str { rng.range(0x20, 0x7e) as u8 } else { rng.below(256) as u8 }).collect();
    let mut d = RDesc::Leaf { kind: kind.to_string(), bytes };
    if rng.chance(1, 16) {
        let (cap, bytes) = gen_pool(rng);
        n = bytes.as_ref().map_or(0, |b| b.len());
        d = RDesc::Pool { cap, bytes };
    }
    let depth = rng.weighted(&[5, 4, 1]);
    for _ in 0..depth {
        d = RDesc::Lim(gen_limit(rng, n), Box::new(d));
    }
    d
}

fn gen_m(rng: &mut Rng, lim_weights: &[u64]) -> (MDesc, usize) {
    let cap = gen_size(rng);
    let len = match rng.below(4) {
        0 => 0,
        1 => cap,
        _ => rng.below(cap as u64 + 1) as usize,
    }
    .min(64);
    let bytes: Vec<u8> = (0..len).map(|_| rng.range(1, 0xdf) as u8).collect();
    let mut d = MDesc::Vec { cap, bytes };
    let mut spare = cap - len;
    if rng.chance(1, 16) {
        let (cap, bytes) = gen_pool(rng);
        spare = bytes.as_ref().map_or(0, |b| cap - b.len());
        d = MDesc::Pool { cap, bytes };
    }
    let depth = rng.weighted(lim_weights);
    for _ in 0..depth {
        d = MDesc::Lim(gen_limit(rng, spare), Box::new(d));
    }
    (d, spare)
}

fn gen_arity(rng: &mut Rng, tuple: bool) -> usize {
    if tuple {
        rng.range(2, 8) as usize
    } else if rng.chance(1, 40) {
        0
    } else {
        rng.range(1, 8) as usize
    }
}

impl Comp for BufsComp {
    fn name(&self) -> &'static str {
        "bufs"
    }

    fn rule(&self) -> String {
        "each case = one object built from the real a10 types by `bufs new`: a Buf (14 base kinds or a pool ReadBuf, x 0-2 LimitedBuf layers), a BufMut (Vec<u8> or pool ReadBuf x 0-2 LimitedBuf layers), a BufSlice or BufMutSlice (array of arity 0..8 or tuple of arity 2..8 whose elements are such buffers, x 0-2 LimitedBuf layers); sizes 0..4096, limits 0, around the size, 2^32 +- k, multiples of 2^32, 2^63, usize::MAX - k, random 64 bit; read side: q (parts/as_iovecs, len/total_len, is_empty, bytes) and, half of the time, write_all with 0-3 short writes (SkipBuf); write side: 4-9 ops out of q / kernel write through the exposed regions / set_init n (n = 0, all exposed, random, one too many) / extend_from_slice / read_n with short reads (ReadNBuf), sized from the currently exposed total; 1 case in 40 adds a `caps` op (plain arrays/tuples of empty vectors, 1 in 5 of them with capacities around 2^31..2^33); ~4% malformed `new` lines and ~2% malformed ops; non-trivial = well-formed case with a LimitedBuf that binds or has a limit >= 2^32, or arity >= 2, or a set_init spanning several buffers; distinct = distinct op scripts".into()
    }

    fn gen_header(&mut self, _rng: &mut Rng, id: u64, _tier: &str) -> String {
        format!("bufs begin {id}")
    }

    fn begin(&mut self, _header: &str) -> Box<dyn Case> {

                Box::new(BufsCase {
            obj: Obj::None,
            build: Build::default(),
            top_limit: None,
            arity: 1,
            marked: 0,
            tainted: false,
            last_total: 0,
            started: false,
            walled: false,
            capsed: false,
            rdped: false,
            script: Vec::new(),
            pos: 0,
            dynamic: 0,
            mutable: false,
            feats: Vec::new(),
            oracle: Vec::new(),
            nontrivial: false,
        })
    }
}

/// Generate the `bufs new …` op of a case.
fn gen_new(rng: &mut Rng) -> String {
        if rng.chance(1, 25) {
            // malformed headers
            let bad = [
                "buf vecx 0102",
                "buf vec 010",
                "buf string ff",
                "buf lim vec 01",
                "buf lim 18446744073709551616 vec 01",
                "buf vec 01 02",
                "mut vec 2 010203",
                "mut vec 2",
                "mut box 2 01",
                "mut vec 1048577 -",
                "mut lim 1_0 vec 4 -",
                "slice tup 1 vec 01",
                "slice arr 9 vec 01 vec 01 vec 01 vec 01 vec 01 vec 01 vec 01 vec 01 vec 01",
                "slice arr 2 vec 01",
                "slice arr 1 vec 01 vec 02",
                "mutslice tup 9 vec 1 - vec 1 - vec 1 - vec 1 - vec 1 - vec 1 - vec 1 - vec 1 - vec 1 -",
                "mutslice arr 2 vec 4 01 string 01",
                "mutslice lim arr 1 vec 4 -",
                "buf pool 0 -",
                "buf pool 4 0102030405",
                "mut pool0 65537",
                "mut pool 8",
                "frob vec 01",
                "buf",
                "",
            ];
            let b = rng.pick(&bad);
            return format!("bufs new {b}").trim_end().to_string();
        }
        match rng.weighted(&[3, 4, 4, 6]) {
            0 => format!("bufs new buf {}", show_r(&gen_r(rng))),
            1 => format!("bufs new mut {}", show_m(&gen_m(rng, &[3, 5, 2]).0)),
            2 => {
                let tuple = rng.chance(1, 2);
                let n = gen_arity(rng, tuple);
                let elems: Vec<RDesc> = (0..n).map(|_| gen_r(rng)).collect();
                let total: usize = elems.iter().map(|e| match e { RDesc::Leaf { bytes, .. } => bytes.len(), _ => 4 }).sum();
                let mut d = SDesc::Arr { tuple, elems };
                for _ in 0..rng.weighted(&[4, 5, 1]) {
                    d = SDesc::Lim(gen_limit(rng, total), Box::new(d));
                }
                format!("bufs new slice {}", show_s(&d, show_r))
            }
            _ => {
                let tuple = rng.chance(1, 2);
                let n = gen_arity(rng, tuple);
                let mut total = 0;
                let elems: Vec<MDesc> = (0..n)
                    .map(|_| {
                        let (d, spare) = gen_m(rng, &[7, 3, 1]);
                        total += spare;
                        d
                    })
                    .collect();
                let mut d = SDesc::Arr { tuple, elems };
                for _ in 0..rng.weighted(&[4, 5, 1]) {
                    d = SDesc::Lim(gen_limit(rng, total), Box::new(d));
                }
                format!("bufs new mutslice {}", show_s(&d, show_m))
            }
        }
    }

fn kind_of_r(d: &RDesc) -> String {
    match d {
        RDesc::Lim(_, i) => kind_of_r(i),
        RDesc::Leaf { kind, .. } => format!("kind-{kind}"),
        RDesc::Pool { bytes: Some(_), .. } => "kind-pool".into(),
        RDesc::Pool { bytes: None, .. } => "kind-pool0".into(),
    }
}

fn arr_of<E>(d: &SDesc<E>) -> &SDesc<E> {
    match d {
        SDesc::Lim(_, i) => arr_of(i),
        a => a,
    }
}
