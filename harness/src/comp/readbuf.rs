//! C15: `ReadBuf` edits behave as a capacity-bounded byte vector confined to
//! its slot of the pool.
//!
//! A real `ReadBufPool` (registered with the simulated kernel) whose whole
//! buffer allocation is overwritten with a known canary pattern; up to six
//! `ReadBuf` handles filled by reads the simulated kernel completes (buffer
//! selection from the pool's ring, or a write into the spare capacity of a
//! buffer that already owns a slot); every public editing call of `ReadBuf`
//! with every `Bound` form. After each op the implementation's outcome,
//! contents, the buffer ring and the *set of bytes of the pool that changed*
//! are printed (compared with the Lean model), and an independent oracle
//! mirrors the call on a plain `Vec<u8>` and checks the contents of every
//! handle and every byte of the pool.

use std::future::Future;
use std::ops::Bound;
use std::pin::Pin;
use std::task::{Context, Poll};
use std::time::Duration;

use a10::io::{Buf, BufMut, ReadBuf, ReadBufPool};

use crate::comp::{Case, CaseReport, Comp};
use crate::simk::{self, PostSpec, Target};
use crate::util::{self, hex, Rng};

pub struct ReadBufComp;

const NH: usize = 6;
const UMAX: u128 = u64::MAX as u128;

fn hexs(b: &[u8]) -> String {
    if b.is_empty() { "-".into() } else { hex(b) }
}

fn unhex(s: &str) -> Option<Vec<u8>> {
    if s == "-" {
        return Some(Vec::new());
    }
    if s.is_empty() || s.len() % 2 != 0 {
        return None;
    }
    let d = |c: u8| -> Option<u8> {
        match c {
            b'0'..=b'9' => Some(c - b'0'),
            b'a'..=b'f' => Some(c - b'a' + 10),
            _ => None,
        }
    };
    let b = s.as_bytes();
    (0..b.len() / 2).map(|i| Some(d(b[2 * i])? * 16 + d(b[2 * i + 1])?)).collect()
}

/// Decimal `usize`: digits only, at most 20 of them, `< 2^64`.
fn parse_usize(s: &str) -> Option<usize> {
    if s.is_empty() || s.len() > 20 || !s.bytes().all(|c| c.is_ascii_digit()) {
        return None;
    }
    let n: u128 = s.parse().ok()?;
    if n <= UMAX { Some(n as usize) } else { None }
}

fn parse_bound(s: &str) -> Option<Bound<usize>> {
    if s == "u" {
        Some(Bound::Unbounded)
    } else if let Some(r) = s.strip_prefix('i') {
        parse_usize(r).map(Bound::Included)
    } else if let Some(r) = s.strip_prefix('e') {
        parse_usize(r).map(Bound::Excluded)
    } else {
        None
    }
}

fn parse_handle(s: &str) -> Option<usize> {
    parse_usize(s).filter(|h| *h < NH)
}

fn kv<'a>(key: &str, toks: &[&'a str]) -> Option<&'a str> {
    for t in toks {
        let parts: Vec<&str> = t.split('=').collect();
        if parts.len() == 2 && parts[0] == key {
            return Some(parts[1]);
        }
    }
    None
}

fn canary(i: usize) -> u8 {
    ((i * 31 + 167) % 256) as u8
}

fn show_diff(old: &[u8], new: &[u8]) -> String {
    let mut runs: Vec<String> = Vec::new();
    let mut i = 0;
    while i < new.len() {
        if old[i] != new[i] {
            let st = i;
            while i < new.len() && old[i] != new[i] {
                i += 1;
            }
            runs.push(format!("{st}:{}", hex(&new[st..i])));
        } else {
            i += 1;
        }
    }
    if runs.is_empty() { "-".into() } else { runs.join(",") }
}

/// The independent reference of one filled buffer: a plain `Vec<u8>` with at
/// least `bs` bytes of (initialised) capacity, and the slot the kernel chose.
struct Shadow {
    slot: usize,
    v: Vec<u8>,
}

struct Live {
    ring: a10::Ring,
    fd: Option<a10::AsyncFd>,
    pool: Option<ReadBufPool>,
    rfd: i32,
    bgid: u16,
    base: usize,
    bufs: Vec<Option<ReadBuf>>,
    shadow: Vec<Option<Shadow>>,
    /// The bytes right behind the pool's allocation (same page), to notice and
    /// undo a write past the last slot before the allocator trips over it.
    guard: [u8; 64],
    guard_len: usize,
}

struct RbCase {
    ps: usize,
    bs: usize,
    live: Option<Live>,
    left: u32,
    ended: bool,
    /// A call panicked where no panic can be expected: stop using the case.
    broken: bool,
    feats: Vec<String>,
    oracle: Vec<(String, String, String)>,
    // for the non-triviality rule
    n_fill: u32,
    n_len_change: u32,
    max_owned: usize,
    n_reject: u32,
}

enum Want {
    Ok,
    Panic,
    Err,
    Num(usize),
}

impl Want {
    fn show(&self) -> String {
        match self {
            Want::Ok => "ok".into(),
            Want::Panic => "panic".into(),
            Want::Err => "err".into(),
            Want::Num(n) => format!("n={n}"),
        }
    }
}

impl Live {
    /// Snapshot the bytes behind the pool (right before a call that does not allocate).
    fn guard_take(&mut self, ps: usize, bs: usize) {
        let p = (self.base + ps * bs) as *const u8;
        for i in 0..self.guard_len {
            self.guard[i] = unsafe { *p.add(i) };
        }
    }

    /// True if the bytes behind the pool are intact; restores them otherwise.
    fn guard_intact(&mut self, ps: usize, bs: usize) -> bool {
        let p = (self.base + ps * bs) as *mut u8;
        let mut ok = true;
        for i in 0..self.guard_len {
            unsafe {
                if *p.add(i) != self.guard[i] {
                    ok = false;
                    *p.add(i) = self.guard[i];
                }
            }
        }
        ok
    }

    fn mem(&self, ps: usize, bs: usize) -> Vec<u8> {
        unsafe { std::slice::from_raw_parts(self.base as *const u8, ps * bs) }.to_vec()
    }

    fn ring_entries(&self) -> Vec<(u16, u64, u32)> {
        simk::with_ring(self.rfd, |r, _| r.available_buffers(self.bgid))
    }

    fn show_ring(&self) -> String {
        let e = self.ring_entries();
        if e.is_empty() {
            "-".into()
        } else {
            e.iter()
                .map(|(bid, addr, _)| format!("{bid}@{}", (*addr as usize).wrapping_sub(self.base)))
                .collect::<Vec<_>>()
                .join(",")
        }
    }

    /// Offset of the buffer's data pointer in the pool, if it has one.
    fn own_off(&self, h: usize, ps: usize, bs: usize) -> Option<usize> {
        let b = self.bufs[h].as_ref().unwrap();
        let (p, _) = unsafe { Buf::parts(b) };
        let p = p as usize;
        if p >= self.base && p <= self.base + ps * bs { Some(p - self.base) } else { None }
    }

    fn show_buf(&self, h: usize, ps: usize, bs: usize) -> String {
        let b = self.bufs[h].as_ref().unwrap();
        match self.own_off(h, ps, bs) {
            Some(off) => format!("own={off} len={} data={}", b.len(), hexs(b.as_slice())),
            None => format!("own=- len={} data={}", b.len(), hexs(b.as_slice())),
        }
    }

    /// Drive `fd.read(buf)` to completion; the kernel completes it with `spec`.
    fn read(&mut self, buf: ReadBuf, spec: PostSpec) -> Result<ReadBuf, String> {
        let fd = self.fd.as_ref().unwrap();
        let mut fut = Box::pin(fd.read(buf));
        let w = util::waker(1);
        let mut cx = Context::from_waker(&w);
        let mut spec = Some(spec);
        for _ in 0..4 {
            match Pin::new(&mut fut).poll(&mut cx) {
                Poll::Ready(Ok(b)) => {
                    util::drain_wakes();
                    return Ok(b);
                }
                Poll::Ready(Err(e)) => {
                    util::drain_wakes();
                    return Err(util::io_err_name(&e));
                }
                Poll::Pending => {}
            }
            if let Some(s) = spec.take() {
                simk::with_ring(self.rfd, |r, _| {
                    r.enter_scripts.push_back(simk::EnterScript { post: vec![s], ..Default::default() })
                });
            }
            let _ = self.ring.poll(Some(Duration::ZERO));
        }
        Err("stuck".into())
    }
}

impl RbCase {
    fn fail(&mut self, sig: &str, what: String) {
        self.oracle.push(("C15".into(), format!("C15/{sig}"), what));
    }

    /// Oracle, after every op: every handle equals its `Vec`, every slot that
    /// the op did not own is byte-for-byte what it was, the op's own slot is
    /// the `Vec`'s allocation.
    fn verify(&mut self, op: &str, before: &[u8], touched: Option<usize>) {
        let (ps, bs) = (self.ps, self.bs);
        let mut fails: Vec<(String, String)> = Vec::new();
        {
            let l = self.live.as_ref().unwrap();
            let after = l.mem(ps, bs);
            let mut owned_slots = vec![false; ps];
            for h in 0..NH {
                let b = l.bufs[h].as_ref().unwrap();
                match &l.shadow[h] {
                    Some(sh) => {
                        if sh.slot < ps {
                            owned_slots[sh.slot] = true;
                        }
                        if b.as_slice() != sh.v.as_slice() {
                            fails.push(("contents".into(), format!("handle {h}: ReadBuf holds {} but the Vec holds {} after `{op}`", hexs(b.as_slice()), hexs(&sh.v))));
                        }
                        if b.len() != sh.v.len() || b.is_empty() != sh.v.is_empty() {
                            fails.push(("len".into(), format!("handle {h}: len {} vs Vec len {} after `{op}`", b.len(), sh.v.len())));
                        }
                        if l.own_off(h, ps, bs) != Some(sh.slot * bs) {
                            fails.push(("slot-moved".into(), format!("handle {h}: data pointer at {:?}, slot {} starts at {} after `{op}`", l.own_off(h, ps, bs), sh.slot, sh.slot * bs)));
                        }
                        let m = &after[sh.slot * bs..sh.slot * bs + bs];
                        if m[..sh.v.len().min(bs)] != sh.v[..sh.v.len().min(bs)] {
                            fails.push(("slot-memory".into(), format!("handle {h}: slot {} holds {} but the Vec holds {} after `{op}`", sh.slot, hexs(m), hexs(&sh.v))));
                        } else if sh.v.capacity() >= bs {
                            // The whole allocation (all `bs` bytes of the Vec were written once).
                            let all = unsafe { std::slice::from_raw_parts(sh.v.as_ptr(), bs) };
                            if m != all {
                                fails.push(("slot-spare".into(), format!("handle {h}: slot {} is {} but the Vec's allocation is {} after `{op}`", sh.slot, hexs(m), hexs(all))));
                            }
                        }
                    }
                    None => {
                        if !b.is_empty() || b.len() != 0 || l.own_off(h, ps, bs).is_some() {
                            fails.push(("unowned".into(), format!("handle {h} should hold no buffer after `{op}`: {}", l.show_buf(h, ps, bs))));
                        }
                    }
                }
            }
            for s in 0..ps {
                if Some(s) == touched {
                    continue;
                }
                if after[s * bs..s * bs + bs] != before[s * bs..s * bs + bs] {
                    let who = if owned_slots[s] { "a neighbouring buffer's slot" } else { "a free slot" };
                    fails.push(("frame".into(), format!("`{op}` changed {who} (slot {s}): {} -> {}", hexs(&before[s * bs..s * bs + bs]), hexs(&after[s * bs..s * bs + bs]))));
                }
            }
        }
        for (sig, what) in fails {
            self.fail(&sig, what);
        }
    }

    fn report(&self, res: &str, h: usize, before: &[u8]) -> Vec<String> {
        let l = self.live.as_ref().unwrap();
        let after = l.mem(self.ps, self.bs);
        vec![format!(
            "{res} {} ring={} w={}",
            l.show_buf(h, self.ps, self.bs),
            l.show_ring(),
            show_diff(before, &after)
        )]
    }

    fn outcome(&mut self, op: &str, got: &str, want: &Want) {
        if got != want.show() {
            self.fail("outcome", format!("`{op}` returned {got}, a Vec<u8> of the same capacity gives {}", want.show()));
        }
        match want {
            Want::Panic | Want::Err => self.n_reject += 1,
            _ => {}
        }
    }

    /// The three kinds of reads. kind: 0 plain, 1 buffer flag on an owned read, 2 eof.
    fn do_read(&mut self, op: &str, h: usize, kind: u8, d: &[u8]) -> Vec<String> {
        let (ps, bs) = (self.ps, self.bs);
        let l = self.live.as_mut().unwrap();
        let before = l.mem(ps, bs);
        let ring_before = l.ring_entries();
        let buf = l.bufs[h].take().unwrap();
        let owned = l.shadow[h].is_some();
        let cur_len = buf.len();
        let spec = if kind == 2 {
            PostSpec::new(Target::Nth(0), 0, 0)
        } else if owned {
            let n = d.len().min(bs - cur_len.min(bs));
            PostSpec {
                target: Target::Nth(0),
                res: n as i32,
                flags: if kind == 1 { simk::CQE_F_BUFFER } else { 0 },
                data: Some(d.to_vec()),
                select_buf: false,
            }
        } else {
            let n = d.len().min(bs);
            PostSpec { target: Target::Nth(0), res: n as i32, flags: 0, data: Some(d.to_vec()), select_buf: true }
        };
        let r = l.read(buf, spec);
        simk::drain_events();
        let mut touched = None;
        let res;
        match r {
            Ok(b) => {
                l.bufs[h] = Some(b);
                res = "ok".to_string();
                if owned {
                    let sh = l.shadow[h].as_mut().unwrap();
                    let w = if kind == 2 { 0 } else { d.len().min(bs - sh.v.len().min(bs)) };
                    sh.v.extend_from_slice(&d[..w]);
                    touched = Some(sh.slot);
                    if w > 0 {
                        self.n_len_change += 1;
                    }
                    self.feats.push(if kind == 1 { "reread-bufflag" } else if kind == 2 { "reread-eof" } else if w < d.len() { "reread-short" } else { "reread" }.into());
                } else if kind == 2 {
                    self.feats.push("eof-unowned".into());
                } else {
                    // the kernel took the oldest published entry
                    let (bid, addr, _) = ring_before[0];
                    let slot = bid as usize;
                    let n = d.len().min(bs);
                    let mut v = Vec::with_capacity(bs);
                    v.extend_from_slice(&d[..n]);
                    let koff = (addr as usize).wrapping_sub(l.base);
                    if koff != slot * bs {
                        let what = format!("ring entry of buffer {bid} has address offset {koff}, its slot starts at {}", slot * bs);
                        self.fail("ring-addr", what);
                    }
                    let l = self.live.as_mut().unwrap();
                    if slot < ps {
                        v.extend_from_slice(&before[slot * bs + n..slot * bs + bs]);
                        v.truncate(n);
                    }
                    l.shadow[h] = Some(Shadow { slot, v });
                    touched = Some(slot);
                    self.n_fill += 1;
                    self.feats.push(if n == 0 { "fill-empty" } else if n == bs { "fill-full" } else { "fill" }.into());
                }
            }
            Err(e) => {
                res = format!("err {e}");
                // the buffer went down with the failed operation
                let l = self.live.as_mut().unwrap();
                l.bufs[h] = Some(l.pool.as_ref().unwrap().get());
                if owned {
                    l.shadow[h] = None;
                    self.fail("read-failed", format!("`{op}` into an owned buffer failed with {e}"));
                } else if !(e == "ENOBUFS" && ring_before.is_empty() && kind != 2) {
                    self.fail("read-failed", format!("`{op}` failed with {e} although the ring has {} buffers", ring_before.len()));
                } else {
                    self.feats.push("enobufs".into());
                }
            }
        }
        let l = self.live.as_ref().unwrap();
        let owned_now = l.shadow.iter().filter(|s| s.is_some()).count();
        self.max_owned = self.max_owned.max(owned_now);
        self.verify(op, &before, touched);
        self.report(&res, h, &before)
    }

    fn do_release(&mut self, op: &str, h: usize, drop_it: bool) -> Vec<String> {
        let (ps, bs) = (self.ps, self.bs);
        let l = self.live.as_mut().unwrap();
        let before = l.mem(ps, bs);
        let ring_before = l.ring_entries();
        if drop_it {
            l.bufs[h] = None;
            l.bufs[h] = Some(l.pool.as_ref().unwrap().get());
        } else {
            l.bufs[h].as_mut().unwrap().release();
        }
        let ring_after = l.ring_entries();
        let sh = l.shadow[h].take();
        let base = l.base;
        match sh {
            Some(sh) => {
                let want = (sh.slot as u16, (base + sh.slot * bs) as u64, bs as u32);
                if ring_after.len() != ring_before.len() + 1 || ring_after[..ring_before.len()] != ring_before[..] || ring_after.last() != Some(&want) {
                    let rel = |e: &(u16, u64, u32)| (e.0, (e.1 as usize).wrapping_sub(base), e.2);
                    self.fail("release-slot", format!("`{op}` of the buffer the kernel handed out as id {} (edited since) published {:?} (id, offset, len), expected {:?}", sh.slot, ring_after.last().map(rel), rel(&want)));
                }
                self.feats.push("release-owned".into());
            }
            None => {
                if ring_after != ring_before {
                    self.fail("release-slot", format!("`{op}` of a ReadBuf without buffer changed the ring"));
                }
            }
        }
        self.verify(op, &before, None);
        self.report("ok", h, &before)
    }

    fn do_edit(&mut self, op: &str, h: usize, t: &[&str]) -> Option<Vec<String>> {
        let (ps, bs) = (self.ps, self.bs);
        enum E {
            Truncate(usize),
            Clear,
            Remove(Bound<usize>, Bound<usize>),
            SetLen(usize),
            Extend(Vec<u8>),
            Spare(Vec<u8>),
            Set(usize, u8),
            BmExt(Vec<u8>),
            /// `extend_from_slice` with a slice of this many (untouched, zero) bytes, >= 2^32
            ExtHuge(usize),
        }
        let e = match t {
            ["truncate", _, n] => E::Truncate(parse_usize(n)?),
            ["clear", _] => E::Clear,
            ["remove", _, a, b] => E::Remove(parse_bound(a)?, parse_bound(b)?),
            ["setlen", _, n] => E::SetLen(parse_usize(n)?),
            ["extend", _, d] => E::Extend(unhex(d)?),
            ["spare", _, d] => E::Spare(unhex(d)?),
            ["set", _, i, b] => {
                let b = parse_usize(b)?;
                if b >= 256 {
                    return None;
                }
                E::Set(parse_usize(i)?, b as u8)
            }
            ["bmext", _, d] => E::BmExt(unhex(d)?),
            ["exthuge", _, n] => {
                let n = parse_usize(n)?;
                if n < (1 << 32) || n > (1 << 34) {
                    return None;
                }
                E::ExtHuge(n)
            }
            _ => return None,
        };
        let l = self.live.as_mut().unwrap();
        let before = l.mem(ps, bs);
        let len0 = l.bufs[h].as_ref().unwrap().len();
        // the real call (nothing between the two guard calls allocates unless it panics)
        #[derive(Clone, Copy)]
        enum G {
            Ok,
            Err,
            Num(usize),
        }
        l.guard_take(ps, bs);
        let buf = l.bufs[h].as_mut().unwrap();
        let got: Result<G, String> = match &e {
            E::Truncate(n) => util::catch(|| buf.truncate(*n)).map(|_| G::Ok),
            E::Clear => util::catch(|| buf.clear()).map(|_| G::Ok),
            E::Remove(a, b) => util::catch(|| buf.remove((*a, *b))).map(|_| G::Ok),
            E::SetLen(n) => util::catch(|| unsafe { buf.set_len(*n) }).map(|_| G::Ok),
            E::Extend(d) => util::catch(|| buf.extend_from_slice(d)).map(|r| if r.is_ok() { G::Ok } else { G::Err }),
            E::Spare(d) => util::catch(|| {
                let s = &mut buf.spare_capacity_mut()[..d.len()];
                for (x, y) in s.iter_mut().zip(d.iter()) {
                    x.write(*y);
                }
            })
            .map(|_| G::Ok),
            E::Set(i, b) => util::catch(|| buf.as_mut_slice()[*i] = *b).map(|_| G::Ok),
            E::BmExt(d) => util::catch(|| BufMut::extend_from_slice(buf, d)).map(G::Num),
            E::ExtHuge(n) => {
                // a slice of `n` untouched zero bytes (never read when the call refuses it)
                let p = unsafe { libc::mmap(std::ptr::null_mut(), *n, libc::PROT_READ, libc::MAP_PRIVATE | libc::MAP_ANONYMOUS | libc::MAP_NORESERVE, -1, 0) };
                if p == libc::MAP_FAILED {
                    Ok(G::Err) // cannot build the slice: nothing to observe (the expected outcome)
                } else {
                    let d = unsafe { std::slice::from_raw_parts(p as *const u8, *n) };
                    let r = util::catch(|| buf.extend_from_slice(d)).map(|r| if r.is_ok() { G::Ok } else { G::Err });
                    unsafe { libc::munmap(p, *n) };
                    r
                }
            }
        };
        // a rejected call allocated its panic message: the bytes behind the pool may have changed legitimately
        let guard_ok = got.is_err() || l.guard_intact(ps, bs);
        let got: String = match got {
            Ok(G::Ok) => "ok".into(),
            Ok(G::Err) => "err".into(),
            Ok(G::Num(n)) => format!("n={n}"),
            Err(_) => "panic".into(),
        };

        // the same call on the Vec
        let mut touched = None;
        let want = match l.shadow[h].as_mut() {
            Some(sh) => {
                touched = Some(sh.slot);
                let v = &mut sh.v;
                match &e {
                    E::Truncate(n) => {
                        v.truncate(*n);
                        Want::Ok
                    }
                    E::Clear => {
                        v.clear();
                        Want::Ok
                    }
                    E::Remove(a, b) => match util::catch(|| {
                        v.drain((*a, *b));
                    }) {
                        Ok(()) => Want::Ok,
                        Err(_) => Want::Panic,
                    },
                    E::SetLen(n) => {
                        if *n > bs {
                            Want::Panic
                        } else {
                            // All `bs` bytes of the allocation are initialised.
                            unsafe { v.set_len(*n) };
                            Want::Ok
                        }
                    }
                    E::Extend(d) => {
                        if v.len() + d.len() > bs {
                            Want::Err
                        } else {
                            v.extend_from_slice(d);
                            Want::Ok
                        }
                    }
                    E::Spare(d) => {
                        if d.len() > bs - v.len() {
                            Want::Panic
                        } else {
                            let s = &mut v.spare_capacity_mut()[..d.len()];
                            for (x, y) in s.iter_mut().zip(d.iter()) {
                                x.write(*y);
                            }
                            Want::Ok
                        }
                    }
                    E::Set(i, b) => match util::catch(|| v[*i] = *b) {
                        Ok(()) => Want::Ok,
                        Err(_) => Want::Panic,
                    },
                    E::BmExt(d) => {
                        let w = d.len().min(bs - v.len());
                        v.extend_from_slice(&d[..w]);
                        Want::Num(w)
                    }
                    // more than the capacity: refused, nothing changes
                    E::ExtHuge(_) => Want::Err,
                }
            }
            // Without a buffer: the empty vector that cannot grow.
            None => match &e {
                E::Truncate(_) | E::Clear => Want::Ok,
                E::Remove(a, b) => {
                    let mut v: Vec<u8> = Vec::new();
                    match util::catch(|| {
                        v.drain((*a, *b));
                    }) {
                        Ok(()) => Want::Ok,
                        Err(_) => Want::Panic,
                    }
                }
                E::SetLen(n) => if *n > bs { Want::Panic } else { Want::Ok },
                E::Extend(_) | E::ExtHuge(_) => Want::Err,
                E::Spare(d) => if d.is_empty() { Want::Ok } else { Want::Panic },
                E::Set(..) => Want::Panic,
                E::BmExt(_) => Want::Num(0),
            },
        };
        let owned = l.shadow[h].is_some();
        let len1 = l.bufs[h].as_ref().unwrap().len();
        if len1 != len0 {
            self.n_len_change += 1;
        }
        // features
        let tag = match (&e, &want) {
            (E::Remove(a, b), Want::Ok) if owned => {
                let s = match a { Bound::Unbounded => 0, Bound::Included(s) => *s, Bound::Excluded(s) => s + 1 };
                let en = match b { Bound::Unbounded => len0, Bound::Included(x) => x + 1, Bound::Excluded(x) => *x };
                if s == en { "remove-empty-range" } else if s == 0 && en == len0 { "remove-all" } else if s == 0 { "remove-front" } else if en == len0 { "remove-back" } else { "remove-middle" }
            }
            (E::Remove(a, b), Want::Panic) => {
                let big = |x: &Bound<usize>| matches!(x, Bound::Included(n) | Bound::Excluded(n) if *n == usize::MAX);
                if big(a) || big(b) { "remove-rejected-overflow" } else if owned { "remove-rejected" } else { "remove-rejected-unowned" }
            }
            (E::Remove(..), _) => "remove-unowned-ok",
            (E::Extend(_), Want::Err) => if owned { "extend-refused" } else { "extend-refused-unowned" },
            (E::Extend(_), _) => if len1 == bs { "extend-to-full" } else { "extend" },
            (E::SetLen(_), Want::Panic) => "setlen-rejected",
            (E::SetLen(_), _) => if len1 > len0 { "setlen-grow" } else { "setlen-shrink" },
            (E::Truncate(n), _) => if *n > len0 { "truncate-noop" } else { "truncate" },
            (E::Clear, _) => "clear",
            (E::Spare(_), Want::Panic) => "spare-rejected",
            (E::Spare(_), _) => "spare-write",
            (E::Set(..), Want::Panic) => "set-rejected",
            (E::Set(..), _) => "set",
            (E::BmExt(d), Want::Num(w)) => if *w < d.len() { "bmext-short" } else { "bmext" },
            (E::BmExt(_), _) => "bmext",
            (E::ExtHuge(_), _) => "extend-huge-refused",
        };
        self.feats.push(tag.into());
        match (&e, &want) {
            (E::Remove(a, b), _) => {
                let k = |x: &Bound<usize>| match x { Bound::Unbounded => 'u', Bound::Included(_) => 'i', Bound::Excluded(_) => 'e' };
                self.feats.push(format!("bounds-{}{}", k(a), k(b)));
            }
            _ => {}
        }
        if !guard_ok {
            self.fail("frame-beyond-pool", format!("`{op}` wrote behind the last slot of the pool"));
        }
        self.outcome(op, &got, &want);
        self.verify(op, &before, touched);
        Some(self.report(&got, h, &before))
    }

    fn do_parts(&mut self, h: usize) -> Vec<String> {
        let (ps, bs) = (self.ps, self.bs);
        let l = self.live.as_mut().unwrap();
        let base = l.base;
        let buf = l.bufs[h].as_mut().unwrap();
        let (pm, pml) = unsafe { buf.parts_mut() };
        let (bp, bpl) = unsafe { Buf::parts(buf) };
        let inpool = |p: usize| p >= base && p <= base + ps * bs;
        let pm_s = if pm.is_null() { "null".to_string() } else if inpool(pm as usize) { format!("{}", pm as usize - base) } else { "outside".to_string() };
        let bp_s = if inpool(bp as usize) { format!("{}", bp as usize - base) } else { "-".to_string() };
        let line = format!(
            "cap={} len={} empty={} spare={} has={} pm={}:{} bp={}:{}",
            buf.capacity(),
            buf.len(),
            buf.is_empty() as u8,
            buf.spare_capacity(),
            buf.has_spare_capacity() as u8,
            pm_s,
            pml,
            bp_s,
            bpl
        );
        // oracle: the spare capacity is exactly the rest of the slot
        let (len, cap) = (buf.len(), buf.capacity());
        let sp = buf.spare_capacity_mut();
        let (sp_ptr, sp_len) = (sp.as_ptr() as usize, sp.len());
        match &l.shadow[h] {
            Some(sh) => {
                let start = base + sh.slot * bs;
                if cap != bs || sp_len != bs - len || sp_ptr != start + len || pm as usize != start + len || pml as usize != bs - len || bp as usize != start || bpl as usize != len {
                    let what = format!("handle {h} (slot {}, len {len}): capacity {cap}, spare_capacity_mut at {}+{sp_len}, parts_mut {pm_s}:{pml}, parts {bp_s}:{bpl}; expected the rest of the slot", sh.slot, sp_ptr.wrapping_sub(base));
                    self.fail("parts", what);
                }
            }
            None => {
                if sp_len != 0 || !pm.is_null() || pml != 0 || bpl != 0 {
                    self.fail("parts", format!("handle {h} without buffer exposes memory: spare {sp_len}, parts_mut {pm_s}:{pml}, parts {bp_s}:{bpl}"));
                }
            }
        }
        self.feats.push("parts".into());
        vec![line]
    }

    fn do_end(&mut self) -> Vec<String> {
        let (ps, bs) = (self.ps, self.bs);
        let l = self.live.as_mut().unwrap();
        let before = l.mem(ps, bs);
        let mut want: Vec<(u16, u64, u32)> = l.ring_entries();
        for h in 0..NH {
            if let Some(sh) = l.shadow[h].take() {
                want.push((sh.slot as u16, (l.base + sh.slot * bs) as u64, bs as u32));
            }
            l.bufs[h] = None;
        }
        let after = l.mem(ps, bs);
        let ring = l.ring_entries();
        let line = format!("mem={} ring={}", hexs(&after), l.show_ring());
        let base = l.base;
        if after != before {
            self.fail("frame", format!("dropping the buffers changed pool memory: {}", show_diff(&before, &after)));
        }
        if ring != want {
            let rel = |v: &Vec<(u16, u64, u32)>| v.iter().map(|e| format!("{}@{}", e.0, (e.1 as usize).wrapping_sub(base))).collect::<Vec<_>>().join(",");
            let what = format!("after dropping every buffer the ring holds {} (id@offset), expected {}", rel(&ring), rel(&want));
            self.fail("release-slot", what);
        }
        // conservation: every slot back exactly once
        let mut ids: Vec<u16> = ring.iter().map(|e| e.0).collect();
        ids.sort();
        if ids != (0..ps as u16).collect::<Vec<_>>() {
            self.fail("release-slot", format!("after dropping every buffer the ring holds ids {ids:?}, expected each of 0..{ps} once"));
        }
        self.teardown();
        self.ended = true;
        vec![line]
    }

    fn teardown(&mut self) {
        if let Some(mut l) = self.live.take() {
            let _ = util::catch(move || {
                l.bufs.clear();
                l.shadow.clear();
                l.pool = None;
                l.fd = None;
                let _ = l.ring.poll(Some(Duration::ZERO));
                // descriptors the kernel handed out and nobody closed
                let left: Vec<i32> = simk::with_ring(l.rfd, |r, _| std::mem::take(&mut r.issued_fds));
                for fd in left {
                    unsafe { libc::close(fd) };
                }
                drop(l);
            });
            simk::drain_events();
            util::drain_wakes();
            simk::reset();
        }
    }
}

fn show_b(kind: u64, v: u64) -> String {
    match kind {
        0 => "u".into(),
        1 => format!("i{v}"),
        _ => format!("e{v}"),
    }
}

impl RbCase {
    fn exec_inner(&mut self, op: &str) -> Vec<String> {
        let t: Vec<&str> = op.split(' ').collect();
        if self.live.is_none() || t.len() < 2 || t[0] != "readbuf" {
            return vec!["bad-op".into()];
        }
        if t.len() == 2 && t[1] == "end" {
            return self.do_end();
        }
        if t.len() < 3 {
            return vec!["bad-op".into()];
        }
        let Some(h) = parse_handle(t[2]) else {
            return vec!["bad-op".into()];
        };
        let r = match &t[1..] {
            [k @ ("read" | "readbf"), _, d] => unhex(d).map(|d| self.do_read(op, h, if *k == "read" { 0 } else { 1 }, &d)),
            ["eof", _] => Some(self.do_read(op, h, 2, &[])),
            [k @ ("release" | "drop"), _] => Some(self.do_release(op, h, *k == "drop")),
            ["parts", _] => Some(self.do_parts(h)),
            rest => self.do_edit(op, h, rest),
        };
        r.unwrap_or_else(|| vec!["bad-op".into()])
    }
}

impl Case for RbCase {
    fn next_op(&mut self, rng: &mut Rng) -> Option<String> {
        if self.ended || self.broken {
            return None;
        }
        if self.live.is_none() {
            // bad header: a few ops that must all be refused
            if self.left == 0 {
                return None;
            }
            self.left = self.left.min(3) - 1;
            return Some(rng.pick(&["readbuf read 0 00", "readbuf clear 0", "readbuf end"]).to_string());
        }
        if self.left == 0 {
            return Some("readbuf end".into());
        }
        self.left -= 1;
        let bs = self.bs as u64;
        // malformed stream
        if rng.chance(1, 25) {
            let bad = [
                "readbuf", "readbuf read", "readbuf read 0", "readbuf read 6 00", "readbuf read x 00", "readbuf read 0 0",
                "readbuf read 0 0G", "readbuf read 0 AB", "readbuf remove 0 u", "readbuf remove 0 x1 u", "readbuf remove 0 i e1",
                "readbuf remove 0 i-1 u", "readbuf remove 0 u e18446744073709551616", "readbuf truncate 0 -1",
                "readbuf truncate 0 +1", "readbuf truncate 0 1_0", "readbuf truncate 0 184467440737095516150", "readbuf setlen 0",
                "readbuf set 0 0 256", "readbuf set 0 0", "readbuf frob 0", "readbuf clear 9", "readbuf clear 0 0 0 0",
                "readbuf  clear 0", "readbuf extend 1 zz", "readbuf release", "readbufx clear 0", "addr clear 0",
                "readbuf end 0", "readbuf parts 0 1", "readbuf eof 7", "readbuf spare 0 abc", "readbuf bmext 0 0x",
            ];
            self.feats.push("malformed".into());
            return Some(rng.pick(&bad).to_string());
        }
        let l = self.live.as_ref().unwrap();
        let owned: Vec<usize> = (0..NH).filter(|h| l.shadow[*h].is_some()).collect();
        let free = l.ring_entries().len();
        // keep a few neighbours filled
        let h = if !owned.is_empty() && (rng.chance(3, 4) || free == 0) && !(owned.len() < 2 && free > 0 && rng.chance(1, 2)) {
            *rng.pick(&owned)
        } else {
            rng.below(NH as u64) as usize
        };
        let is_owned = l.shadow[h].is_some();
        let len = l.bufs[h].as_ref().unwrap().len() as u64;
        let spare = bs.saturating_sub(len);
        let big = [u64::MAX, u64::MAX - 1, 1 << 63, 1 << 32, (1 << 32) - 1, bs, bs + 1];
        let data = |rng: &mut Rng, n: u64| -> String {
            let v: Vec<u8> = (0..n).map(|_| match rng.below(4) { 0 => 0, 1 => 255, _ => rng.below(256) as u8 }).collect();
            hexs(&v)
        };
        let dlen = |rng: &mut Rng, room: u64| -> u64 {
            match rng.below(8) {
                0 => 0,
                1 => room,
                2 => room + 1,
                3 => room + rng.range(1, 4),
                4 => bs + rng.range(0, 3),
                _ => rng.range(0, room.max(1)),
            }
        };
        let k = if is_owned {
            rng.weighted(&[10, 3, 1, 3, 4, 3, 2, 2, 2, 1, 1, 1, 2, 1])
        } else {
            rng.weighted(&[2, 1, 1, 1, 1, 1, 1, 1, 14, 0, 1, 1, 1, 1])
        };
        Some(match k {
            0 => {
                // remove: mostly valid ranges in every spelling
                let (a, b) = if rng.chance(2, 3) {
                    let s = rng.range(0, len);
                    let e = rng.range(s, len);
                    let a = match rng.below(3) {
                        0 if s == 0 => show_b(0, 0),
                        1 if s > 0 => show_b(2, s - 1),
                        _ => show_b(1, s),
                    };
                    let b = match rng.below(3) {
                        0 if e == len => show_b(0, 0),
                        1 if e > 0 => show_b(1, e - 1),
                        _ => show_b(2, e),
                    };
                    (a, b)
                } else {
                    let val = |rng: &mut Rng| -> u64 {
                        match rng.below(6) {
                            0 => *rng.pick(&big),
                            1 => len + rng.range(0, 2),
                            _ => rng.range(0, len + 1),
                        }
                    };
                    (show_b(rng.below(3), val(rng)), show_b(rng.below(3), val(rng)))
                };
                format!("readbuf remove {h} {a} {b}")
            }
            1 => {
                let n = match rng.below(6) { 0 => *rng.pick(&big), 1 => len, 2 => len + 1, _ => rng.range(0, len) };
                format!("readbuf truncate {h} {n}")
            }
            2 => format!("readbuf clear {h}"),
            3 => {
                let n = match rng.below(8) { 0 => *rng.pick(&big), 1 => bs, 2 => bs + 1, 3 => len, _ => rng.range(0, bs) };
                format!("readbuf setlen {h} {n}")
            }
            4 if rng.chance(1, 12) => {
                // a slice of 2^32 + k bytes whose length truncates to something that fits
                let k = match rng.below(4) { 0 => 0, 1 => spare, 2 => spare + 1, _ => rng.range(0, bs) };
                format!("readbuf exthuge {h} {}", (1u64 << 32) * rng.range(1, 2) + k as u64)
            }
            4 => {
                let n = dlen(rng, spare);
                format!("readbuf extend {h} {}", data(rng, n))
            }
            5 => {
                let n = dlen(rng, spare);
                format!("readbuf spare {h} {}", data(rng, n))
            }
            6 => {
                let i = match rng.below(6) { 0 => *rng.pick(&big), 1 => len, _ => rng.range(0, len.max(1)) };
                format!("readbuf set {h} {i} {}", rng.below(256))
            }
            7 => {
                let n = dlen(rng, spare);
                format!("readbuf bmext {h} {}", data(rng, n))
            }
            8 => {
                let n = if is_owned { dlen(rng, spare) } else { match rng.below(6) { 0 => 0, 1 => bs, 2 => bs + rng.range(1, 3), _ => rng.range(1, bs) } };
                format!("readbuf read {h} {}", data(rng, n))
            }
            9 => {
                let n = dlen(rng, spare);
                format!("readbuf readbf {h} {}", data(rng, n))
            }
            10 => format!("readbuf eof {h}"),
            11 => format!("readbuf parts {h}"),
            12 => format!("readbuf release {h}"),
            _ => format!("readbuf drop {h}"),
        })
    }

    fn exec(&mut self, op: &str) -> Vec<String> {
        if self.broken {
            return vec!["skipped".into()];
        }
        match util::catch(|| self.exec_inner(op)) {
            Ok(lines) => {
                if !self.oracle.is_empty() {
                    // the state is suspect from here on
                    self.broken = true;
                }
                lines
            }
            Err(msg) => {
                self.broken = true;
                self.fail("unexpected-panic", format!("`{op}` panicked outside the calls that may reject their arguments: {msg}"));
                vec![format!("unexpected-panic {msg}")]
            }
        }
    }

    fn drain_oracle(&mut self) -> Vec<(String, String, String)> {
        std::mem::take(&mut self.oracle)
    }

    fn finish(&mut self) -> CaseReport {
        self.teardown();
        let mut feats = std::mem::take(&mut self.feats);
        feats.sort();
        feats.dedup();
        feats.push(format!("bs={}", self.bs));
        feats.push(format!("ps={}", self.ps));
        feats.push(format!("owned-at-once={}", self.max_owned));
        CaseReport {
            oracle: std::mem::take(&mut self.oracle),
            features: feats,
            nontrivial: self.n_fill >= 1 && self.n_len_change >= 2 && self.n_reject >= 1,
        }
    }
}

impl Drop for RbCase {
    fn drop(&mut self) {
        self.teardown();
    }
}

impl Comp for ReadBufComp {
    fn name(&self) -> &'static str {
        "readbuf"
    }
    fn rule(&self) -> String {
        "each case = one real ReadBufPool (1/2/4/8 slots of 1..64 bytes, whole allocation pre-filled with a canary pattern) on the simulated kernel, 6 ReadBuf handles, up to 30 ops: reads completed by the kernel (buffer selection with arbitrary length/content incl. empty, full, over-long, ENOBUFS; re-reads into the spare capacity of an owned buffer; end of file) and every editing call (remove with all 9 Bound combinations, two thirds valid ranges in every spelling, the rest out of range / inverted / usize::MAX; truncate, clear, set_len, extend_from_slice, spare_capacity_mut writes, indexed writes, BufMut::extend_from_slice, parts, release, drop) plus 4% malformed lines; non-trivial = at least one kernel fill, two length changes and one rejected call; distinct = distinct op scripts".into()
    }
    fn gen_header(&mut self, rng: &mut Rng, id: u64, _tier: &str) -> String {
        if rng.chance(1, 60) {
            let bad = ["ps=3 bs=8", "ps=4 bs=0", "ps=4", "bs=8", "ps=4 bs=8 x=1", "ps=0 bs=4", "ps=4 bs=5000", "ps=a bs=4"];
            return format!("readbuf begin {id} {}", rng.pick(&bad));
        }
        let ps = [1u64, 2, 4, 8][rng.weighted(&[1, 2, 6, 2])];
        let bs = if rng.chance(3, 4) { rng.range(1, 12) } else { *rng.pick(&[13u64, 16, 17, 31, 32, 64]) };
        format!("readbuf begin {id} ps={ps} bs={bs}")
    }
    fn begin(&mut self, header: &str) -> Box<dyn Case> {
        let t: Vec<&str> = header.split(' ').collect();
        let mut case = RbCase {
            ps: 0,
            bs: 0,
            live: None,
            left: 30,
            ended: false,
            broken: false,
            feats: Vec::new(),
            oracle: Vec::new(),
            n_fill: 0,
            n_len_change: 0,
            max_owned: 0,
            n_reject: 0,
        };
        let parsed = (|| {
            if t.len() != 5 || t[0] != "readbuf" || t[1] != "begin" {
                return None;
            }
            let ps = parse_usize(kv("ps", &t[3..])?)?;
            let bs = parse_usize(kv("bs", &t[3..])?)?;
            if ![1, 2, 4, 8, 16].contains(&ps) || bs < 1 || bs > 4096 {
                return None;
            }
            Some((ps, bs))
        })();
        let Some((ps, bs)) = parsed else {
            case.feats.push("bad-header".into());
            return Box::new(case);
        };
        case.ps = ps;
        case.bs = bs;
        simk::activate(simk::SetupCfg::default());
        let ring = a10::Ring::config().with_submission_queue_size(8).build().expect("build ring");
        let sq = ring.sq();
        let rfd = simk::with_sim(|s| *s.rings.keys().next().unwrap());
        let fd = unsafe { a10::AsyncFd::from_raw_fd(simk::with_ring(rfd, |r, _| r.fresh_fd()), sq.clone()) };
        let pool = ReadBufPool::new(sq, ps as u16, bs as u32).expect("pool");
        let bgid = simk::with_ring(rfd, |r, _| *r.pbufs.keys().next().unwrap());
        let entries = simk::with_ring(rfd, |r, _| r.available_buffers(bgid));
        let base = entries.iter().find(|e| e.0 == 0).map(|e| e.1 as usize).expect("buffer 0");
        // canaries over the whole allocation
        for i in 0..ps * bs {
            unsafe { *((base + i) as *mut u8) = canary(i) };
        }
        let bufs = (0..NH).map(|_| Some(pool.get())).collect();
        let shadow = (0..NH).map(|_| None).collect();
        simk::drain_events();
        let end = base + ps * bs;
        let guard_len = ((4096 - end % 4096) % 4096).min(64);
        let guard = [0u8; 64];
        case.live = Some(Live { ring, fd: Some(fd), pool: Some(pool), rfd, bgid, base, bufs, shadow, guard, guard_len });
        Box::new(case)
    }
}
