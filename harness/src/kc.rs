//! `a10h kc [--tier real|sim]` — diagnostic, NOT a registered check: probes of the kernel contract
//! the models and the simulated kernel rely on (DESIGN.md §3 KC1–KC8, Appendix B), written
//! against the raw io_uring system calls (no a10 code involved).
//!
//! * `real`: the probes run on the io_uring of the machine (the simulated kernel is not active,
//!   the interposed `syscall` passes everything through): evidence that the contract clauses are
//!   what Linux does.
//! * `sim`: the same probes, as far as they do not need the kernel to complete an operation by
//!   itself, run on the simulated kernel: evidence that the simulated kernel implements the same
//!   clauses. A probe that is skipped in a mode says so.
//!
//! Exit code 1 if a probe fails.

use std::ptr;
use std::sync::atomic::{fence, AtomicU32, Ordering};

use crate::simk;

const SYS_SETUP: libc::c_long = 425;
const SYS_ENTER: libc::c_long = 426;
const SYS_REGISTER: libc::c_long = 427;

const SETUP_SQPOLL: u32 = 1 << 1;
const SETUP_CQSIZE: u32 = 1 << 3;
const SETUP_R_DISABLED: u32 = 1 << 6;
const SETUP_SUBMIT_ALL: u32 = 1 << 7;
const SETUP_SINGLE_ISSUER: u32 = 1 << 12;

const ENTER_GETEVENTS: u32 = 1;
const ENTER_EXT_ARG: u32 = 8;

const REG_ENABLE_RINGS: u32 = 12;
const REG_SYNC_CANCEL: u32 = 24;

const OP_NOP: u8 = 0;
const OP_POLL_ADD: u8 = 6;
const OP_ASYNC_CANCEL: u8 = 14;
const OP_MSG_RING: u8 = 40;

const CQE_F_MORE: u32 = 2;
const SQE_CQE_SKIP_SUCCESS: u8 = 1 << 6;

const OFF_SQ_RING: i64 = 0;
const OFF_CQ_RING: i64 = 0x800_0000;
const OFF_SQES: i64 = 0x1000_0000;

#[repr(C)]
#[derive(Default, Clone, Copy, Debug)]
struct SqOff {
    head: u32,
    tail: u32,
    ring_mask: u32,
    ring_entries: u32,
    flags: u32,
    dropped: u32,
    array: u32,
    resv1: u32,
    user_addr: u64,
}

#[repr(C)]
#[derive(Default, Clone, Copy, Debug)]
struct CqOff {
    head: u32,
    tail: u32,
    ring_mask: u32,
    ring_entries: u32,
    overflow: u32,
    cqes: u32,
    flags: u32,
    resv1: u32,
    user_addr: u64,
}

#[repr(C)]
#[derive(Default, Clone, Copy, Debug)]
struct Params {
    sq_entries: u32,
    cq_entries: u32,
    flags: u32,
    sq_thread_cpu: u32,
    sq_thread_idle: u32,
    features: u32,
    wq_fd: u32,
    resv: [u32; 3],
    sq_off: SqOff,
    cq_off: CqOff,
}

#[repr(C)]
#[derive(Default, Clone, Copy, Debug)]
struct Sqe {
    opcode: u8,
    flags: u8,
    ioprio: u16,
    fd: i32,
    off: u64,
    addr: u64,
    len: u32,
    op_flags: u32,
    user_data: u64,
    buf_index: u16,
    personality: u16,
    file_index: u32,
    addr3: u64,
    pad: u64,
}

#[repr(C)]
#[derive(Default, Clone, Copy, Debug, PartialEq, Eq)]
struct Cqe {
    user_data: u64,
    res: i32,
    flags: u32,
}

#[repr(C)]
struct GeteventsArg {
    sigmask: u64,
    sigmask_sz: u32,
    min_wait_usec: u32,
    ts: u64,
}

#[repr(C)]
struct SyncCancelReg {
    addr: u64,
    fd: i32,
    flags: u32,
    tv_sec: i64,
    tv_nsec: i64,
    opcode: u8,
    pad: [u8; 7],
    pad2: [u64; 3],
}

fn sys(n: libc::c_long, a: [i64; 6]) -> i64 {
    let r = unsafe { libc::syscall(n, a[0], a[1], a[2], a[3], a[4], a[5]) };
    if r < 0 {
        -(unsafe { *libc::__errno_location() } as i64)
    } else {
        r as i64
    }
}

struct Ring {
    fd: i32,
    p: Params,
    sq: *mut u8,
    cq: *mut u8,
    sqes: *mut Sqe,
    sq_len: usize,
    cq_len: usize,
}

impl Ring {
    fn new(entries: u32, flags: u32, cq_entries: u32) -> Result<Ring, i64> {
        let mut p = Params { flags, cq_entries, ..Default::default() };
        let fd = sys(SYS_SETUP, [entries as i64, &mut p as *mut Params as i64, 0, 0, 0, 0]);
        if fd < 0 {
            return Err(fd);
        }
        let fd = fd as i32;
        let sq_len = p.sq_off.array as usize + p.sq_entries as usize * 4;
        let cq_len = p.cq_off.cqes as usize + p.cq_entries as usize * 16;
        let map = |len: usize, off: i64| -> *mut u8 {
            let m = unsafe { libc::mmap(ptr::null_mut(), len, libc::PROT_READ | libc::PROT_WRITE, libc::MAP_SHARED | libc::MAP_POPULATE, fd, off) };
            assert!(m != libc::MAP_FAILED, "mmap of ring memory failed");
            m.cast()
        };
        let sq = map(sq_len, OFF_SQ_RING);
        let cq = map(cq_len, OFF_CQ_RING);
        let sqes = map(p.sq_entries as usize * 64, OFF_SQES).cast::<Sqe>();
        Ok(Ring { fd, p, sq, cq, sqes, sq_len, cq_len })
    }

    fn word(&self, base: *mut u8, off: u32) -> &AtomicU32 {
        unsafe { &*(base.add(off as usize) as *const AtomicU32) }
    }
    fn sq_head(&self) -> u32 {
        self.word(self.sq, self.p.sq_off.head).load(Ordering::Acquire)
    }
    fn sq_tail(&self) -> u32 {
        self.word(self.sq, self.p.sq_off.tail).load(Ordering::Acquire)
    }
    fn cq_head(&self) -> u32 {
        self.word(self.cq, self.p.cq_off.head).load(Ordering::Acquire)
    }
    fn cq_tail(&self) -> u32 {
        self.word(self.cq, self.p.cq_off.tail).load(Ordering::Acquire)
    }

    fn push(&self, sqe: Sqe) {
        let tail = self.sq_tail();
        let mask = self.p.sq_entries - 1;
        let idx = tail & mask;
        unsafe {
            ptr::write_volatile(self.sqes.add(idx as usize), sqe);
            ptr::write_volatile((self.sq.add(self.p.sq_off.array as usize) as *mut u32).add(idx as usize), idx);
        }
        fence(Ordering::SeqCst);
        self.word(self.sq, self.p.sq_off.tail).store(tail.wrapping_add(1), Ordering::Release);
    }

    /// `io_uring_enter`; `timeout_ms` uses the EXT_ARG timespec.
    fn enter(&self, to_submit: u32, min_complete: u32, flags: u32, timeout_ms: Option<u64>) -> i64 {
        match timeout_ms {
            None => sys(SYS_ENTER, [self.fd as i64, to_submit as i64, min_complete as i64, flags as i64, 0, 0]),
            Some(ms) => {
                let ts = libc::timespec { tv_sec: (ms / 1000) as i64, tv_nsec: ((ms % 1000) * 1_000_000) as i64 };
                let arg = GeteventsArg { sigmask: 0, sigmask_sz: 0, min_wait_usec: 0, ts: &ts as *const _ as u64 };
                sys(SYS_ENTER, [self.fd as i64, to_submit as i64, min_complete as i64, (flags | ENTER_EXT_ARG) as i64, &arg as *const _ as i64, std::mem::size_of::<GeteventsArg>() as i64])
            }
        }
    }

    /// Take every published completion.
    fn reap(&self) -> Vec<Cqe> {
        let mut out = Vec::new();
        let mut head = self.cq_head();
        let tail = self.cq_tail();
        let mask = self.p.cq_entries - 1;
        while head != tail {
            let c = unsafe { ptr::read_volatile((self.cq.add(self.p.cq_off.cqes as usize) as *const Cqe).add((head & mask) as usize)) };
            out.push(c);
            head = head.wrapping_add(1);
        }
        self.word(self.cq, self.p.cq_off.head).store(head, Ordering::Release);
        out
    }

    fn register(&self, op: u32, arg: usize, n: u32) -> i64 {
        sys(SYS_REGISTER, [self.fd as i64, op as i64, arg as i64, n as i64, 0, 0])
    }
}

impl Drop for Ring {
    fn drop(&mut self) {
        unsafe {
            libc::munmap(self.sq.cast(), self.sq_len);
            libc::munmap(self.cq.cast(), self.cq_len);
            libc::munmap(self.sqes.cast(), self.p.sq_entries as usize * 64);
            libc::close(self.fd);
        }
    }
}

fn pipe() -> (i32, i32) {
    let mut fds = [0i32; 2];
    assert_eq!(unsafe { libc::pipe2(fds.as_mut_ptr(), libc::O_CLOEXEC) }, 0);
    (fds[0], fds[1])
}

fn poll_add(fd: i32, ud: u64, multi: bool) -> Sqe {
    Sqe { opcode: OP_POLL_ADD, fd, op_flags: libc::POLLIN as u32, len: multi as u32, user_data: ud, ..Default::default() }
}

enum Out {
    Ok(String),
    Skip(String),
}

macro_rules! ensure {
    ($c:expr, $($t:tt)*) => { if !($c) { return Err(format!($($t)*)); } };
}

// --- probes ------------------------------------------------------------------------------------

/// KC1: `[head, tail)` is consumed in order, each entry once; with SUBMIT_ALL a rejected entry
/// does not stop the batch (without it, it does: the precondition the `life` oracle checks).
fn kc1_consume_in_order(sim: bool) -> Result<Out, String> {
    let r = Ring::new(8, SETUP_SUBMIT_ALL, 0).map_err(|e| format!("setup: {e}"))?;
    let (pr, pw) = pipe();
    for ud in 1..=2u64 {
        r.push(poll_add(pr, ud, false));
    }
    r.push(Sqe { opcode: 200, user_data: 99, ..Default::default() }); // no such operation
    for ud in 3..=4u64 {
        r.push(poll_add(pr, ud, false));
    }
    let n = r.enter(5, 0, 0, None);
    ensure!(n == 5, "SUBMIT_ALL: enter(to_submit=5) with a rejected entry in the middle returned {n}, expected 5");
    ensure!(r.sq_head() == r.sq_tail(), "SUBMIT_ALL: entries left in the queue (head {}, tail {})", r.sq_head(), r.sq_tail());
    let mut detail = String::new();
    if !sim {
        let c = r.reap();
        ensure!(c.len() == 1 && c[0].user_data == 99 && c[0].res == -libc::EINVAL, "the rejected entry should be the only completion (-EINVAL): {c:?}");
        // the four polls are in flight: a byte in the pipe completes all of them, each once
        assert_eq!(unsafe { libc::write(pw, b"x".as_ptr().cast(), 1) }, 1);
        r.enter(0, 4, ENTER_GETEVENTS, Some(1000));
        let mut uds: Vec<u64> = r.reap().iter().map(|c| c.user_data).collect();
        uds.sort();
        ensure!(uds == vec![1, 2, 3, 4], "each consumed entry completes exactly once: {uds:?}");
        // without SUBMIT_ALL the batch stops at the rejected entry
        let r2 = Ring::new(8, 0, 0).map_err(|e| format!("setup: {e}"))?;
        r2.push(poll_add(pr, 1, false));
        r2.push(Sqe { opcode: 200, user_data: 99, ..Default::default() });
        r2.push(poll_add(pr, 2, false));
        let n2 = r2.enter(3, 0, 0, None);
        ensure!(n2 == 2 && r2.sq_tail().wrapping_sub(r2.sq_head()) == 1, "without SUBMIT_ALL: enter returned {n2}, {} left (expected 2 consumed, 1 left)", r2.sq_tail().wrapping_sub(r2.sq_head()));
        detail = "; without SUBMIT_ALL the batch stops after the rejected entry (2 consumed, 1 left)".into();
    }
    unsafe {
        libc::close(pr);
        libc::close(pw);
    }
    Ok(Out::Ok(format!("5 entries consumed by one enter, rejected one included{detail}")))
}

/// KC3 + Appendix B: at most `cq_entries` unconsumed completions; the others wait on the overflow
/// list (none is dropped) and are handed over, in order, by the next enter with GETEVENTS once
/// there is room.
fn kc3_overflow_nodrop(_sim: bool) -> Result<Out, String> {
    let target = Ring::new(2, SETUP_CQSIZE, 2).map_err(|e| format!("setup: {e}"))?;
    ensure!(target.p.cq_entries == 2, "asked for a completion queue of 2, got {}", target.p.cq_entries);
    let src = Ring::new(8, 0, 0).map_err(|e| format!("setup: {e}"))?;
    // five messages to the target ring: 2 fit, 3 overflow
    for k in 0..5u64 {
        src.push(Sqe { opcode: OP_MSG_RING, fd: target.fd, off: 100 + k, len: k as u32, user_data: 1, flags: SQE_CQE_SKIP_SUCCESS, ..Default::default() });
    }
    let n = src.enter(5, 0, 0, None);
    ensure!(n == 5, "enter on the source ring returned {n}");
    let pending = target.cq_tail().wrapping_sub(target.cq_head());
    ensure!(pending == 2, "{pending} completions published in a queue of 2 entries");
    let first = target.reap();
    ensure!(first.iter().map(|c| c.user_data).collect::<Vec<_>>() == vec![100, 101], "first two: {first:?}");
    // nothing appears by itself …
    ensure!(target.cq_tail() == target.cq_head(), "overflown completions were published without an enter");
    // … an enter with GETEVENTS hands over the next two, then the last one
    target.enter(0, 1, ENTER_GETEVENTS, Some(1000));
    let second = target.reap();
    ensure!(second.iter().map(|c| c.user_data).collect::<Vec<_>>() == vec![102, 103], "after the first flush: {second:?}");
    target.enter(0, 1, ENTER_GETEVENTS, Some(1000));
    let third = target.reap();
    ensure!(third.iter().map(|c| (c.user_data, c.res)).collect::<Vec<_>>() == vec![(104, 4)], "after the second flush: {third:?}");
    Ok(Out::Ok("queue of 2: 5 completions delivered as 2 + 2 + 1, in order, the overflown ones only by enter(GETEVENTS)".into()))
}

/// KC7: MSG_RING posts one completion with `user_data = sqe.off`, `res = sqe.len` on the target
/// ring (and, without CQE_SKIP_SUCCESS, one with res 0 on the source ring).
fn kc7_msg_ring(_sim: bool) -> Result<Out, String> {
    let a = Ring::new(4, 0, 0).map_err(|e| format!("setup: {e}"))?;
    let b = Ring::new(4, 0, 0).map_err(|e| format!("setup: {e}"))?;
    a.push(Sqe { opcode: OP_MSG_RING, fd: b.fd, off: 0x1234, len: 77, user_data: 1, ..Default::default() });
    let n = a.enter(1, 0, 0, None);
    ensure!(n == 1, "enter returned {n}");
    let cb = b.reap();
    ensure!(cb == vec![Cqe { user_data: 0x1234, res: 77, flags: 0 }], "target ring got {cb:?}");
    let ca = a.reap();
    ensure!(ca == vec![Cqe { user_data: 1, res: 0, flags: 0 }], "source ring got {ca:?}");
    Ok(Out::Ok("target: (user_data = off, res = len, flags 0); source: (own user_data, 0)".into()))
}

/// KC5: ASYNC_CANCEL(addr = u) finishes the in-flight submission with user_data u with -ECANCELED
/// and answers 0; for an unknown u it answers -ENOENT and touches nothing.
fn kc5_async_cancel(sim: bool) -> Result<Out, String> {
    let r = Ring::new(8, SETUP_SUBMIT_ALL, 0).map_err(|e| format!("setup: {e}"))?;
    let (pr, pw) = pipe();
    r.push(poll_add(pr, 10, false));
    r.push(poll_add(pr, 20, false));
    ensure!(r.enter(2, 0, 0, None) == 2, "submit");
    r.push(Sqe { opcode: OP_ASYNC_CANCEL, fd: -1, addr: 10, user_data: 11, ..Default::default() });
    r.push(Sqe { opcode: OP_ASYNC_CANCEL, fd: -1, addr: 12345, user_data: 12, ..Default::default() });
    r.enter(2, 3, ENTER_GETEVENTS, Some(1000));
    let mut c: Vec<(u64, i32)> = r.reap().iter().map(|c| (c.user_data, c.res)).collect();
    c.sort();
    if sim {
        // KC5 only says what a cancel request CAN do: in the simulated kernel the target's own
        // completion is the script's decision (it may finish with its normal result instead)
        ensure!(c == vec![(11, 0), (12, -libc::ENOENT)], "completions {c:?}");
    } else {
        ensure!(c == vec![(10, -libc::ECANCELED), (11, 0), (12, -libc::ENOENT)], "completions {c:?}");
    }
    // the other poll is still in flight: nothing more arrives
    r.enter(0, 1, ENTER_GETEVENTS, Some(20));
    let rest = r.reap();
    ensure!(rest.is_empty(), "the submission that was not the target completed: {rest:?}");
    unsafe {
        libc::close(pr);
        libc::close(pw);
    }
    Ok(Out::Ok("target -ECANCELED, request 0; unknown target -ENOENT; the other submission untouched".into()))
}

/// KC5: SYNC_CANCEL(ANY|ALL) has finished every in-flight submission when it returns.
fn kc5_sync_cancel(_sim: bool) -> Result<Out, String> {
    let r = Ring::new(8, SETUP_SUBMIT_ALL, 0).map_err(|e| format!("setup: {e}"))?;
    let (pr, pw) = pipe();
    for ud in 1..=3u64 {
        r.push(poll_add(pr, ud, ud == 3));
    }
    ensure!(r.enter(3, 0, 0, None) == 3, "submit");
    let reg = SyncCancelReg { addr: 0, fd: -1, flags: 1 | 4, tv_sec: 1, tv_nsec: 0, opcode: 0, pad: [0; 7], pad2: [0; 3] };
    let ret = r.register(REG_SYNC_CANCEL, &reg as *const _ as usize, 1);
    ensure!(ret >= 0, "SYNC_CANCEL returned {ret}");
    r.enter(0, 0, ENTER_GETEVENTS, Some(0));
    let mut c: Vec<(u64, i32, u32)> = r.reap().iter().map(|c| (c.user_data, c.res, c.flags & CQE_F_MORE)).collect();
    c.sort();
    ensure!(c == vec![(1, -libc::ECANCELED, 0), (2, -libc::ECANCELED, 0), (3, -libc::ECANCELED, 0)], "completions right after SYNC_CANCEL returned: {c:?}");
    unsafe {
        libc::close(pr);
        libc::close(pw);
    }
    Ok(Out::Ok("three in-flight submissions (one multishot) all finished with -ECANCELED, without F_MORE, when the call returned".into()))
}

/// DEFER_TASKRUN (single issuer): completions are only posted while the submitter is inside
/// `io_uring_enter(GETEVENTS)`, and one call hands over a bounded batch — so a caller that wants
/// everything has to enter until a call brings nothing new.
fn defer_taskrun_batches(sim: bool) -> Result<Out, String> {
    if sim {
        return Ok(Out::Skip("see the teardown component (deferred completions are handed over in batches there)".into()));
    }
    const SETUP_DEFER_TASKRUN: u32 = 1 << 13;
    let r = Ring::new(64, SETUP_SUBMIT_ALL | SETUP_SINGLE_ISSUER | SETUP_DEFER_TASKRUN, 0).map_err(|e| format!("setup: {e}"))?;
    let (pr, pw) = pipe();
    for ud in 1..=40u64 {
        r.push(poll_add(pr, ud, false));
    }
    ensure!(r.enter(40, 0, 0, None) == 40, "submit");
    let reg = SyncCancelReg { addr: 0, fd: -1, flags: 1 | 4, tv_sec: 1, tv_nsec: 0, opcode: 0, pad: [0; 7], pad2: [0; 3] };
    let ret = r.register(REG_SYNC_CANCEL, &reg as *const _ as usize, 1);
    ensure!(ret >= 0, "SYNC_CANCEL returned {ret}");
    let before = r.cq_tail().wrapping_sub(r.cq_head());
    let mut batches = Vec::new();
    for _ in 0..10 {
        r.enter(0, 1, ENTER_GETEVENTS, Some(0));
        let n = r.reap().len();
        if n == 0 {
            break;
        }
        batches.push(n);
    }
    let total: usize = batches.iter().sum::<usize>() + before as usize;
    ensure!(total == 40, "40 cancelled submissions, {total} completions (published before any enter: {before}, batches {batches:?})");
    unsafe {
        libc::close(pr);
        libc::close(pw);
    }
    Ok(Out::Ok(format!("40 cancelled submissions: {before} completions published when SYNC_CANCEL returned, then batches {batches:?} per enter(GETEVENTS, min_complete = 1)")))
}

/// KC2: a multishot submission posts completions with F_MORE while it stays armed and exactly
/// one without when it ends.
fn kc2_multishot_more(sim: bool) -> Result<Out, String> {
    if sim {
        return Ok(Out::Skip("the simulated kernel completes nothing by itself (completions are scripted)".into()));
    }
    let r = Ring::new(8, 0, 0).map_err(|e| format!("setup: {e}"))?;
    let (pr, pw) = pipe();
    r.push(poll_add(pr, 7, true));
    ensure!(r.enter(1, 0, 0, None) == 1, "submit");
    assert_eq!(unsafe { libc::write(pw, b"x".as_ptr().cast(), 1) }, 1);
    r.enter(0, 1, ENTER_GETEVENTS, Some(1000));
    let c = r.reap();
    ensure!(c.len() == 1 && c[0].user_data == 7 && c[0].flags & CQE_F_MORE != 0, "first event: {c:?}");
    r.push(Sqe { opcode: OP_ASYNC_CANCEL, fd: -1, addr: 7, user_data: 8, ..Default::default() });
    r.enter(1, 2, ENTER_GETEVENTS, Some(1000));
    let c: Vec<(u64, i32, u32)> = r.reap().iter().map(|c| (c.user_data, c.res, c.flags & CQE_F_MORE)).collect();
    ensure!(c.contains(&(7, -libc::ECANCELED, 0)), "final completion of the multishot: {c:?}");
    unsafe {
        libc::close(pr);
        libc::close(pw);
    }
    Ok(Out::Ok("event with F_MORE, final -ECANCELED without F_MORE".into()))
}

/// KC4: buffer selection takes only ids published in the buffer ring, oldest first, each once;
/// with none left the read fails with -ENOBUFS; a re-published id is selected again.
fn kc4_buffer_ring(sim: bool) -> Result<Out, String> {
    if sim {
        return Ok(Out::Skip("reads are completed by the harness script in the simulated kernel (its selection is exercised by the pool component)".into()));
    }
    const REG_PBUF_RING: u32 = 22;
    const OP_READ: u8 = 22;
    const SQE_BUFFER_SELECT: u8 = 1 << 5;
    const CQE_F_BUFFER: u32 = 1;
    #[repr(C)]
    struct BufReg {
        ring_addr: u64,
        ring_entries: u32,
        bgid: u16,
        flags: u16,
        resv: [u64; 3],
    }
    #[repr(C)]
    #[derive(Clone, Copy)]
    struct Buf {
        addr: u64,
        len: u32,
        bid: u16,
        resv: u16,
    }
    let r = Ring::new(8, 0, 0).map_err(|e| format!("setup: {e}"))?;
    let mem = unsafe { libc::mmap(ptr::null_mut(), 4096, libc::PROT_READ | libc::PROT_WRITE, libc::MAP_PRIVATE | libc::MAP_ANONYMOUS, -1, 0) };
    ensure!(mem != libc::MAP_FAILED, "mmap");
    let ring = mem.cast::<Buf>();
    let data = vec![0u8; 64];
    let publish = |slot: usize, bid: u16, tail: u16| unsafe {
        let keep_tail = (mem.cast::<u8>().add(14) as *const u16).read_volatile();
        ptr::write_volatile(ring.add(slot), Buf { addr: data.as_ptr().add(bid as usize * 4) as u64, len: 4, bid, resv: if slot == 0 { keep_tail } else { 0 } });
        fence(Ordering::SeqCst);
        (mem.cast::<u8>().add(14) as *mut u16).write_volatile(tail);
    };
    let reg = BufReg { ring_addr: mem as u64, ring_entries: 2, bgid: 3, flags: 0, resv: [0; 3] };
    let e = r.register(REG_PBUF_RING, &reg as *const _ as usize, 1);
    ensure!(e == 0, "REGISTER_PBUF_RING returned {e}");
    publish(0, 7, 1);
    publish(1, 9, 2);
    let (pr, pw) = pipe();
    assert_eq!(unsafe { libc::write(pw, b"abcd".as_ptr().cast(), 4) }, 4);
    let read = |ud: u64| -> Cqe {
        r.push(Sqe { opcode: OP_READ, flags: SQE_BUFFER_SELECT, fd: pr, len: 1, off: u64::MAX, buf_index: 3, user_data: ud, ..Default::default() });
        r.enter(1, 1, ENTER_GETEVENTS, Some(1000));
        r.reap().first().copied().unwrap_or_default()
    };
    let c1 = read(1);
    ensure!(c1.res == 1 && c1.flags & CQE_F_BUFFER != 0 && c1.flags >> 16 == 7, "first read: {c1:?} (expected buffer 7)");
    let c2 = read(2);
    ensure!(c2.res == 1 && c2.flags >> 16 == 9, "second read: {c2:?} (expected buffer 9)");
    let c3 = read(3);
    ensure!(c3.res == -libc::ENOBUFS, "third read with no buffer published: {c3:?} (expected -ENOBUFS)");
    publish(0, 7, 3);
    let c4 = read(4);
    ensure!(c4.res == 1 && c4.flags >> 16 == 7, "read after re-publishing buffer 7: {c4:?}");
    // The kernel only compares the tail with its head for (in)equality: a tail word that reads 0
    // (what a writer produces that stores `resv: 0` into slot 0, whose `resv` IS the tail) makes
    // it hand out the stale entry at its head although nothing was published.
    let c5 = read(5);
    ensure!(c5.res == -libc::ENOBUFS, "fifth read, nothing published: {c5:?}");
    unsafe { (mem.cast::<u8>().add(14) as *mut u16).write_volatile(0) };
    let c6 = read(6);
    ensure!(c6.res == 1 && c6.flags >> 16 == 9, "read with the tail word zeroed (head 3): {c6:?} — expected the stale entry of slot 1 (buffer 9)");
    unsafe {
        libc::close(pr);
        libc::close(pw);
        libc::munmap(mem, 4096);
    }
    drop(data);
    Ok(Out::Ok("ids 7, 9 selected in publication order, each once; -ENOBUFS with none left; 7 again after re-publishing; with the tail word zeroed the stale entry at the head (buffer 9) is handed out: only tail != head is checked".into()))
}

/// Appendix B step 3: the return value of `io_uring_enter` — the number submitted wins over the
/// outcome of the wait; a wait that times out with nothing submitted returns -ETIME.
fn b3_enter_return_value(_sim: bool) -> Result<Out, String> {
    let r = Ring::new(4, 0, 0).map_err(|e| format!("setup: {e}"))?;
    let (pr, pw) = pipe();
    r.push(poll_add(pr, 1, false));
    let n = r.enter(1, 1, ENTER_GETEVENTS, Some(5));
    ensure!(n == 1, "enter(to_submit=1, min_complete=1, 5 ms) with nothing completing returned {n}, expected 1 (the count)");
    let n = r.enter(0, 1, ENTER_GETEVENTS, Some(5));
    ensure!(n == -(libc::ETIME as i64), "enter(to_submit=0, min_complete=1, 5 ms) returned {n}, expected -ETIME");
    unsafe {
        libc::close(pr);
        libc::close(pw);
    }
    Ok(Out::Ok("submitted count returned although the wait timed out; -ETIME when nothing was submitted".into()))
}

/// Appendix B step 4: a ring created disabled refuses `io_uring_enter` with -EBADFD until it is
/// enabled; what was queued meanwhile is submitted afterwards.
fn b4_disabled_ring(_sim: bool) -> Result<Out, String> {
    let r = Ring::new(4, SETUP_R_DISABLED, 0).map_err(|e| format!("setup: {e}"))?;
    let (pr, pw) = pipe();
    r.push(poll_add(pr, 1, false));
    let n = r.enter(1, 0, 0, None);
    ensure!(n == -(libc::EBADFD as i64), "enter on a disabled ring returned {n}, expected -EBADFD");
    ensure!(r.sq_tail().wrapping_sub(r.sq_head()) == 1, "the queued entry was consumed by the refused call");
    let e = r.register(REG_ENABLE_RINGS, 0, 0);
    ensure!(e == 0, "ENABLE_RINGS returned {e}");
    let n = r.enter(1, 0, 0, None);
    ensure!(n == 1, "enter after enabling returned {n}");
    unsafe {
        libc::close(pr);
        libc::close(pw);
    }
    Ok(Out::Ok("-EBADFD while disabled (nothing consumed), 1 submitted after ENABLE_RINGS".into()))
}

/// Appendix B step 4 / finding F23: a single-issuer ring refuses `io_uring_enter` from another
/// thread than its submitter with -EEXIST.
fn b4_single_issuer(sim: bool) -> Result<Out, String> {
    if sim {
        // (opt-in in the simulated kernel: only the teardown scenario needs it)
        simk::ENFORCE_SINGLE_ISSUER.store(true, Ordering::SeqCst);
    }
    let r = b4_single_issuer_inner();
    simk::ENFORCE_SINGLE_ISSUER.store(false, Ordering::SeqCst);
    r
}

fn b4_single_issuer_inner() -> Result<Out, String> {
    let r = Ring::new(4, SETUP_SINGLE_ISSUER, 0).map_err(|e| format!("setup: {e}"))?;
    let (pr, pw) = pipe();
    r.push(poll_add(pr, 1, false));
    // the submitter is the thread that created the ring, also before it ever submitted
    let fd0 = r.fd;
    let first = std::thread::spawn(move || sys(SYS_ENTER, [fd0 as i64, 1, 0, 0, 0, 0])).join().unwrap();
    ensure!(first == -(libc::EEXIST as i64), "enter(to_submit=1) from another thread before the creator ever entered returned {first}, expected -EEXIST");
    let n = r.enter(1, 0, 0, None);
    ensure!(n == 1, "first enter by the creating thread returned {n}");
    r.push(poll_add(pr, 2, false));
    let fd = r.fd;
    let (with, without) = std::thread::spawn(move || {
        (sys(SYS_ENTER, [fd as i64, 1, 0, 0, 0, 0]), sys(SYS_ENTER, [fd as i64, 0, 0, 0, 0, 0]))
    })
    .join()
    .unwrap();
    ensure!(with == -(libc::EEXIST as i64), "enter(to_submit=1) from another thread returned {with}, expected -EEXIST");
    ensure!(r.sq_tail().wrapping_sub(r.sq_head()) == 1, "the refused call consumed the entry");
    ensure!(without == 0, "enter(to_submit=0) from another thread returned {without}, expected 0 (only submitting is refused)");
    unsafe {
        libc::close(pr);
        libc::close(pw);
    }
    Ok(Out::Ok("-EEXIST for a foreign thread that submits (nothing consumed); an enter that submits nothing is accepted".into()))
}

/// SQPOLL: with a kernel thread `io_uring_enter` consumes nothing itself; the thread takes the
/// entries on its own, and sets NEED_WAKEUP after its idle time.
fn sqpoll_thread(sim: bool) -> Result<Out, String> {
    if sim {
        return Ok(Out::Skip("the simulated kernel thread runs when the harness says so".into()));
    }
    let mut p = Params { flags: SETUP_SQPOLL, sq_thread_idle: 50, ..Default::default() };
    let fd = sys(SYS_SETUP, [4, &mut p as *mut Params as i64, 0, 0, 0, 0]);
    if fd < 0 {
        return Ok(Out::Skip(format!("io_uring_setup(SQPOLL) returned {fd}")));
    }
    unsafe { libc::close(fd as i32) };
    let r = Ring::new_with(4, SETUP_SQPOLL, 50)?;
    let (pr, pw) = pipe();
    r.push(poll_add(pr, 1, false));
    // no enter at all while the thread is awake (right after creation); if the machine was slow
    // and it already announced that it sleeps, the wake-up call — which submits nothing — is needed
    let t0 = std::time::Instant::now();
    let mut woke = false;
    while r.sq_head() != r.sq_tail() && t0.elapsed().as_millis() < 2000 {
        if !woke && r.word(r.sq, r.p.sq_off.flags).load(Ordering::Acquire) & 1 != 0 {
            let n = r.enter(0, 0, 2 /* SQ_WAKEUP */, None);
            ensure!(n == 0, "enter(to_submit=0, SQ_WAKEUP) returned {n}");
            woke = true;
        }
        std::thread::yield_now();
    }
    ensure!(r.sq_head() == r.sq_tail(), "the kernel thread did not take the entry within 2 s (woken: {woke})");
    // after its idle time the thread announces that it sleeps
    std::thread::sleep(std::time::Duration::from_millis(200));
    let flags = r.word(r.sq, r.p.sq_off.flags).load(Ordering::Acquire);
    ensure!(flags & 1 != 0, "NEED_WAKEUP not set 200 ms after the last submission (idle time 50 ms): flags {flags:#x}");
    unsafe {
        libc::close(pr);
        libc::close(pw);
    }
    Ok(Out::Ok("entry taken without any enter; NEED_WAKEUP set after the idle time".into()))
}

impl Ring {
    fn new_with(entries: u32, flags: u32, idle: u32) -> Result<Ring, String> {
        let mut p = Params { flags, sq_thread_idle: idle, ..Default::default() };
        let fd = sys(SYS_SETUP, [entries as i64, &mut p as *mut Params as i64, 0, 0, 0, 0]);
        if fd < 0 {
            return Err(format!("setup: {fd}"));
        }
        let fd = fd as i32;
        let sq_len = p.sq_off.array as usize + p.sq_entries as usize * 4;
        let cq_len = p.cq_off.cqes as usize + p.cq_entries as usize * 16;
        let map = |len: usize, off: i64| -> *mut u8 {
            let m = unsafe { libc::mmap(ptr::null_mut(), len, libc::PROT_READ | libc::PROT_WRITE, libc::MAP_SHARED | libc::MAP_POPULATE, fd, off) };
            assert!(m != libc::MAP_FAILED);
            m.cast()
        };
        let sq = map(sq_len, OFF_SQ_RING);
        let cq = map(cq_len, OFF_CQ_RING);
        let sqes = map(p.sq_entries as usize * 64, OFF_SQES).cast::<Sqe>();
        Ok(Ring { fd, p, sq, cq, sqes, sq_len, cq_len })
    }
}

pub fn run(mode: &str) -> i32 {
    let sim = mode == "sim";
    if sim {
        simk::reset();
        simk::activate(simk::SetupCfg { scribble: false, ..Default::default() });
    }
    let probes: Vec<(&str, fn(bool) -> Result<Out, String>)> = vec![
        ("KC1 consumption in order, SUBMIT_ALL", kc1_consume_in_order),
        ("KC2 multishot F_MORE", kc2_multishot_more),
        ("KC3 completion-queue overflow (NODROP)", kc3_overflow_nodrop),
        ("KC4 buffer ring selection", kc4_buffer_ring),
        ("KC5 ASYNC_CANCEL", kc5_async_cancel),
        ("KC5 SYNC_CANCEL(ANY|ALL)", kc5_sync_cancel),
        ("KC7 MSG_RING", kc7_msg_ring),
        ("DEFER_TASKRUN completion batches", defer_taskrun_batches),
        ("B.3 return value of io_uring_enter", b3_enter_return_value),
        ("B.4 disabled ring", b4_disabled_ring),
        ("B.4 single issuer", b4_single_issuer),
        ("SQPOLL kernel thread", sqpoll_thread),
    ];
    let mut failed = 0;
    println!("kernel contract probes, mode = {}", if sim { "simulated kernel" } else { "real kernel" });
    for (name, f) in probes {
        let r = std::panic::catch_unwind(|| f(sim));
        match r {
            Ok(Ok(Out::Ok(d))) => println!("ok      {name}: {d}"),
            Ok(Ok(Out::Skip(d))) => println!("skipped {name}: {d}"),
            Ok(Err(e)) => {
                failed += 1;
                println!("FAIL    {name}: {e}");
            }
            Err(_) => {
                failed += 1;
                println!("FAIL    {name}: panicked");
            }
        }
        if sim {
            simk::drain_events();
        }
    }
    if sim {
        simk::reset();
    }
    if failed > 0 { 1 } else { 0 }
}
