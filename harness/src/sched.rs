//! Deterministic baton-passing scheduler behind a10's `cfg(a10_verif)` hooks.
//!
//! Worker threads run real a10 code. At every scheduling point (a10 calls the
//! installed hook) the worker parks and hands control back to the controller
//! (the harness thread interpreting the op script); `step(tid)` resumes worker
//! `tid` until its next scheduling point or its end. Exactly one thread runs
//! at any time, so a schedule — the list of `step` calls — replays exactly.
//! a10's `lock` helper spins over scheduling points under the hook, so no
//! worker ever blocks in the OS while it holds the baton.

#![allow(dead_code)]

use std::cell::Cell;
use std::sync::{Condvar, Mutex};
use std::thread::JoinHandle;

use crate::util::lockp;

pub use a10::verif::{
    LOAD_BUF_TAIL, LOAD_SHARED, LOCK, LOCKED, RMW_POLLING, STORE_BUF_TAIL, STORE_CQ_HEAD, STORE_SQ_TAIL,
    TRY_LOCK,
};

/// A simulated system call is about to execute (kind of scheduling point).
pub const SYS: u32 = 100;
/// The worker is blocked inside a simulated system call.
pub const SYS_BLOCKED: u32 = 101;

#[derive(Clone, Debug, PartialEq)]
pub enum Status {
    /// Waiting at a scheduling point: (kind, address).
    Parked(u32, usize),
    /// The closure returned this.
    Done(String),
    /// Created, not yet run to its first scheduling point.
    New,
}

struct Shared {
    /// `Some(tid)`: that worker holds the baton; `None`: the controller does.
    current: Option<usize>,
    status: Vec<Status>,
    /// Incremented by `install`: workers of an earlier case that never finished
    /// (abandoned by `finish_all`) stay parked forever instead of taking the
    /// baton of a new worker with the same id.
    epoch: u64,
}

static STATE: Mutex<Shared> = Mutex::new(Shared {
    current: None,
    status: Vec::new(),
    epoch: 0,
});
static CV: Condvar = Condvar::new();
static HANDLES: Mutex<Vec<Option<JoinHandle<()>>>> = Mutex::new(Vec::new());

thread_local! {
    static TID: Cell<Option<usize>> = const { Cell::new(None) };
    static EPOCH: Cell<u64> = const { Cell::new(0) };
}

fn hook(kind: u32, addr: usize) {
    let Some(tid) = TID.with(|t| t.get()) else {
        return; // the controller (or an unrelated thread) is not scheduled
    };
    let epoch = EPOCH.with(|e| e.get());
    let mut st = lockp(&STATE);
    if st.epoch == epoch {
        st.status[tid] = Status::Parked(kind, addr);
        st.current = None;
        CV.notify_all();
    }
    while st.current != Some(tid) || st.epoch != epoch {
        st = match CV.wait(st) {
            Ok(g) => g,
            Err(e) => e.into_inner(),
        };
    }
}

/// Scheduling point at a simulated system call (no-op on unscheduled threads).
pub fn sys_point(kind: u32, code: usize) {
    hook(kind, code);
}

/// Is the calling thread a scheduled worker?
pub fn is_worker() -> bool {
    TID.with(|t| t.get()).is_some()
}

/// Install the hook and forget all workers of a previous case.
pub fn install() {
    {
        let mut st = lockp(&STATE);
        st.current = None;
        st.status.clear();
        st.epoch += 1;
    }
    lockp(&HANDLES).clear();
    a10::verif::set_hook(Some(hook));
}

pub fn uninstall() {
    a10::verif::set_hook(None);
}

/// Re-install the hook without forgetting the workers (after a temporary `uninstall`).
pub fn install_keep() {
    a10::verif::set_hook(Some(hook));
}

/// Create worker `tid` (ids must be 0, 1, 2, … in order) running `f`, and run
/// it up to its first scheduling point.
pub fn spawn<F>(f: F) -> usize
where
    F: FnOnce() -> String + Send + 'static,
{
    let (tid, epoch) = {
        let mut st = lockp(&STATE);
        st.status.push(Status::New);
        (st.status.len() - 1, st.epoch)
    };
    let handle = std::thread::spawn(move || {
        TID.with(|t| t.set(Some(tid)));
        EPOCH.with(|e| e.set(epoch));
        {
            let mut st = lockp(&STATE);
            while st.current != Some(tid) || st.epoch != epoch {
                st = match CV.wait(st) {
                    Ok(g) => g,
                    Err(e) => e.into_inner(),
                };
            }
        }
        let r = match std::panic::catch_unwind(std::panic::AssertUnwindSafe(f)) {
            Ok(s) => s,
            Err(_) => "panic".to_string(),
        };
        let mut st = lockp(&STATE);
        if st.epoch == epoch {
            st.status[tid] = Status::Done(r);
            st.current = None;
            CV.notify_all();
        }
    });
    lockp(&HANDLES).push(Some(handle));
    step(tid);
    tid
}

/// Resume worker `tid` until its next scheduling point (or its end).
pub fn step(tid: usize) -> Status {
    let mut st = lockp(&STATE);
    if tid >= st.status.len() {
        return Status::New;
    }
    if let Status::Done(_) = st.status[tid] {
        return st.status[tid].clone();
    }
    st.current = Some(tid);
    CV.notify_all();
    while st.current.is_some() {
        st = match CV.wait(st) {
            Ok(g) => g,
            Err(e) => e.into_inner(),
        };
    }
    st.status[tid].clone()
}

pub fn status(tid: usize) -> Option<Status> {
    lockp(&STATE).status.get(tid).cloned()
}

pub fn count() -> usize {
    lockp(&STATE).status.len()
}

/// Run every unfinished worker to completion (round robin; bounded). Returns
/// the ids of workers that still did not finish: they are abandoned (left
/// parked for ever, their threads detached) so that the harness never hangs on
/// an implementation that loops.
pub fn finish_all() -> Vec<usize> {
    let n = count();
    for _ in 0..100_000 {
        let mut progressed = false;
        for tid in 0..n {
            if !matches!(status(tid), Some(Status::Done(_))) {
                step(tid);
                progressed = true;
            }
        }
        if !progressed {
            break;
        }
    }
    let stuck: Vec<usize> = (0..n).filter(|t| !matches!(status(*t), Some(Status::Done(_)))).collect();
    let mut hs = lockp(&HANDLES);
    for (tid, h) in hs.iter_mut().enumerate() {
        if let Some(h) = h.take() {
            if stuck.contains(&tid) {
                drop(h); // detach
            } else {
                let _ = h.join();
            }
        }
    }
    hs.clear();
    if !stuck.is_empty() {
        // make sure the abandoned workers can never run again
        lockp(&STATE).epoch += 1;
    }
    stuck
}
